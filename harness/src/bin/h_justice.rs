//! C06 justice harness ("every revoked commitment that confirms is punished completely").
//!
//! Drives a REAL two-node channel (lightning::ln::functional_test_utils): node 0 = cheater A,
//! node 1 = victim B. After a seeded random history of complete updates (payments both ways, claims,
//! fail-backs, fee updates) A's holder commitment transaction and its signed HTLC transactions were
//! captured after EVERY update; one REVOKED capture is confirmed on B's chain (optionally with some
//! of A's second-stage HTLC transactions), and B is driven until it has nothing left to do. The
//! binary records raw facts only (broadcasts, their consensus verification, fees, balances,
//! spendable outputs, B's view of every counterparty commitment); it does not judge.
//!
//! usage: h_justice run <seed:u64> <n_scenarios> <flags>
//!        h_justice replay '{"seed":..,"k":..,"flags":".."}'
//! flags: comma list of reload,styles,late,fees,reorg | all | none; plus `rtquirk` (never implied by `all`): do
//!        not steer around two artefacts of the test-only monitor round-trip assertion (see `run_scenario`);
//!        with it some scenarios end in `"panic":"... assertion failed: new_monitor == *monitor"`.
//!        `deepreorg` (never implied by `all` either): see `reorg.fork_rel` below.
//! stdout: one line `R {json}` per scenario (TestLogger floods stdout with everything else).
//! stderr: histogram at the end.
//!
//! Conventions of the output:
//!  * txids are full hex; `prev` is `txid:vout`.
//!  * `weight` is the transaction weight with every DER signature in a witness counted as 73 bytes
//!    (what LDK budgets for); the actual weight differs by a few units depending on signature
//!    lengths, which depend on the (process-random) order in which the claim machinery signs.
//!    `feerate` = fee * 1000 / weight (sat per kw, rounded down).
//!  * commitment numbers count DOWN from 2^48-1; a capture is revoked iff its number is strictly
//!    greater than A's current one; `age` = cheated number - current number.
//!  * `updates[i].u` counts from 1; `captures[j].u` is the update after which it was taken (0 = before
//!    the first). A capture with `"mid":true` was taken in the middle of update `u` (A has called
//!    claim_funds, nothing delivered yet): same commitment as the capture before it, but A's monitor
//!    knows the preimage, so `htlc_txs` also holds the HTLC-success transaction. `pending` is the
//!    driver's own list of HTLCs in flight (dust ones included, they have no output).
//!  * HTLCs A offers expire at even heights, HTLCs B offers at odd heights (see `run_scenario`).
//!  * `blocks[i]`: `h` = B's height afterwards, `n` = blocks connected in this step (only the last one
//!    can carry transactions: `mined`, in block order), `phase` in age (A waits for its HTLC-timeouts
//!    to become final before cheating) | skip | cheat | cheat2 (A's second-stage txs in the next block)
//!    | idle | wait | drive (B's txs) | a_wins (one of A's second-stage txs instead) | final |
//!    final_mine. `bcast` = what B handed to its broadcaster during the step, sorted by txid, each with
//!    `rebroadcast` (same txid seen before), `copies`, `already_confirmed`. `events` sorted.
//!  * `cheat.S` = A's second-stage transactions it tries to confirm, `cheat.timing` in none | same_block
//!    | next_block | race. `S_held_back`: members of S the driver refused to confirm at least once
//!    because of the round-trip artefact (2) described in `run_scenario`.
//!  * `unspent`: outputs of the revoked commitment and of A's confirmed second-stage transactions that
//!    nothing spent on the simulated chain, each with `owed_to_b` = a complete punishment must have
//!    taken it (A's balance output, HTLC outputs, second-stage outputs paired with an HTLC input).
//!    B's own to_remote output, anchors and A's change outputs are expected here with
//!    `owed_to_b:false`. `owed_unspent` counts the `true` ones (0 on a correct run).
//!  * `chan_type` in legacy | anchors (anchors_zero_fee_htlc_tx) | zfc (zero-fee commitments, P2A
//!    anchor). On anchor-type channels A's HTLC transactions are not pre-signed by its monitor: the
//!    driver takes the HTLC descriptors from a copy of A's monitor of capture time (shown its own
//!    commitment confirming), and assembles AGGREGATED second-stage transactions itself: HTLC inputs
//!    with their SIGHASH_SINGLE-paired outputs at equal index (only HTLCs needing the same nLockTime
//!    can share one: B's signature commits to it), plus fee inputs from a wallet of A (funded by a
//!    coinbase-like transaction mined in phase `fund`), placed before / between / after the HTLC
//!    inputs. Every such transaction is consensus-verified before use. `S_txs[i]`: the usual
//!    transaction facts plus `htlc_inputs`, `fee_inputs` (input indices), `fee_in_pos` (one letter per
//!    input: H/F), `kinds` (timeout|success per HTLC input), `conf_height`, `pos_in_block` (index in
//!    the block's `mined` list), `same_block_as_commitment`. `captures[].htlc_txs` is empty there.
//!  * `cheat.timing` additionally knows `later` (`later_gap` blocks after the commitment; anchors
//!    HTLC inputs carry CSV 1, so `same_block` only occurs on legacy and zfc). In `same_block` the S
//!    transactions follow the commitment in a random order. `cheat.outputs`: every output of the
//!    revoked commitment with a `kind` guess (p2wsh | p2wpkh | anchor | p2a) and `cheater_paying`
//!    (B's view: the revokeable output and the HTLC outputs).
//!  * flag `fees`: after the S phases B's claims are left unconfirmed for `fee_delay` blocks (phase
//!    `delay`, one block per step) while B's fee estimator follows `fee_trajectory` (flat | x2 | x5 |
//!    x20 | collapse | ramp, relative to its value at the cheat); every block record carries `est` =
//!    max(253, estimate for ConfirmationTarget::UrgentOnChainSweep) in effect while it was connected
//!    (the TestFeeEstimator answers OutputSpendingFee, the target used once no HTLC is pending, with
//!    the same number); `conf_target_feerates` = [[height, est], ...] over all steps.
//!    `fee_violations` (also summed on stderr, must be 0 on a healthy tree): per input set of B's
//!    justice transactions, a re-issue (new txid) must not lower the feerate (`not_monotone`), and
//!    when `est` exceeds the previous feerate it must reach min(est, what half the claimed value
//!    affords) (`below_estimate`); tolerance 2% + 3 sat/kw for weight / rounding differences.
//!  * `Event::BumpTransaction` of B (its own commitment / HTLC claims on anchor-type channels) are
//!    handed to its `bump_tx_handler` (`bump_events` per block).
//!  * flag `reorg`: two thirds of the scenarios carry a chain reorganisation plan (at most one reorg per
//!    scenario), all others run straight. `reorg` = null | {
//!      `target`: commitment (the revoked commitment) | justice (the first transaction of B spending an
//!         output of the revoked commitment that gets mined) | cheater_htlc (the first of A's second-stage
//!         transactions that gets mined) | second_stage_justice (the first transaction of B spending an
//!         output of one of A's confirmed second-stage transactions); the last two fall back to justice
//!         when A has no second-stage transaction, or none confirmed and none is left to confirm (then
//!         the next justice transaction mined counts). `target_drawn` is the value before the fall-back;
//!      `k`: blocks connected after the block that confirmed the target before the reorg starts (ordinary
//!         driver steps; steps of several empty blocks are split so that the count is exact);
//!      `fork_rel`: the fork point (last block kept) is at `tracked_conf_height` + fork_rel, in -1..=1,
//!         lowered to k-1 where needed (`fork_rel_drawn` = the draw). A block with ANTI_REORG_DELAY
//!         confirmations is final for LDK (what matured there is never taken back), so k = 5 with
//!         fork_rel = -1 becomes fork_rel = 0 (`depth_capped`): at most ANTI_REORG_DELAY - 1 blocks are
//!         disconnected. Flag `deepreorg` (never implied by `all`) lifts that cap; then the debug
//!         assertions of `get_claimable_balances` can fire, e.g. with flags all,deepreorg seed 23 k 99;
//!      `api`: how B hears of the disconnect: listen_each (`Listen::blocks_disconnected` once per block,
//!         ConnectStyle FullBlockViaListen) | listen_once (one call with the fork point,
//!         FullBlockDisconnectionsSkippingViaListen) | confirm_best_block (`best_block_updated` with each
//!         previous header, BestBlockFirst) | confirm_unconfirmed (`transaction_unconfirmed` for every
//!         transaction of the disconnected blocks only, TransactionsFirstReorgsOnlyTip); the style is
//!         switched for the disconnect (`disconnect_style`) and B's own (`style_before`) is back in
//!         force afterwards. One exception, `regrow_style`: after confirm_unconfirmed neither B's monitors
//!         nor its manager have heard that the tip went down, so a style that delivers transactions before
//!         the best block would make B sign claims with its old height as locktime (which the test
//!         broadcaster refuses below that height), and the Listen styles would trip the manager's
//!         connected-in-order assertion: there the replacement blocks are connected with BestBlockFirst
//!         unless `style_before` is one of the BestBlockFirst* styles itself;
//!      `regrow`: same_txs_same_heights (every transaction of a disconnected block is mined again at its
//!         old height, plus one empty block) | shifted (`shift` blocks later: 1, or 2 if the revoked
//!         commitment would otherwise land on the expiry of an HTLC B offered, see artefact (1) in
//!         `run_scenario`) | empty_then_driver (replacement blocks empty up to the old tip + 1, except that
//!         a disconnected revoked commitment is back in the first one; A's disconnected second-stage
//!         transactions return to the set A still wants to confirm, B's to its pending pool, and the
//!         driver goes on as usual). The first replacement block has another header nonce, so every
//!         replacement block hash differs from the disconnected one at that height;
//!      `done`: the reorg happened (false: the target never confirmed); `tracked_txid`,
//!      `tracked_conf_height`, `tip_before`, `fork_point_height`, `disconnected_heights`,
//!      `disconnected_txids` (block order, test padding left out), `replacement_heights` }.
//!    `blocks[]` gets one entry with phase `reorg_disconnect` (`n` = number of blocks DISCONNECTED, `h` =
//!    the fork point; `bcast`, `events`, `spendable`, `balances` as seen right after the disconnect) and
//!    one entry with phase `reorg_regrow` per replacement block. Afterwards the driver continues (drive /
//!    final / ...); a reorg during the burial sends it through the drive loop once more, and the run
//!    ends at least ANTI_REORG_DELAY + the largest CSV of a confirmed input + 1 blocks after the last
//!    confirmation. Everything in the output that describes the chain (`unspent`, `owed_unspent`,
//!    `conf_height`, `pos_in_block`, ...) refers to the FINAL chain. B re-issuing claims after the
//!    reorg is expected: the per-input-set fee memory behind `fee_violations` forgets every input set
//!    that shares an outpoint with, or spends an output of, a disconnected transaction (again when that
//!    transaction is mined anew: B's claims on its outputs start afresh then).
//!  * `spendable` (cumulative, in order of appearance, never deduplicated): every descriptor of every
//!    `Event::SpendableOutputs` with `outpoint`, `value`, `kind`, and `h` = B's height when it was seen.
//!  * `final_chain` (flag `reorg`, else null): {`tip`, `confirmed`: [{txid, height, mine: A|B|other}]} = every
//!    transaction in B's final chain from the height of the revoked commitment's first confirmation on
//!    (the in/output-less padding transaction of the test utilities left out).
//!  * `twin` (flag `reorg`, else null; also for scenarios without a plan): the no-reorg twin. B's monitor as
//!    serialized just before the revoked commitment was first mined is re-read at the very end and fed
//!    B's final chain straight (`block_connected`, whole blocks, from `from` + 1 to `tip`, a broadcaster
//!    that drops everything, B's fee estimator). {`from`, `tip`, `spendable`: as the live list with the
//!    twin's height, `balances`: sorted Debug strings at the tip}. On a healthy tree the outpoints in
//!    `spendable` of the live run and of the twin are the same multiset (stderr: `twin_mismatch`) and no
//!    outpoint occurs twice (`spendable_dup`). A panic inside the twin is reported with
//!    `[while: twin: ...]`.
use std::cell::RefCell;
use std::collections::{BTreeMap, HashMap, HashSet};
use std::mem::ManuallyDrop;
use std::panic::{self, AssertUnwindSafe};
use std::rc::Rc;

use bitcoin::hashes::sha256::Hash as Sha256;
use bitcoin::hashes::Hash;
use bitcoin::absolute::LockTime;
use bitcoin::secp256k1::{Message, PublicKey, Secp256k1, SecretKey};
use bitcoin::sighash::{EcdsaSighashType, SighashCache};
use bitcoin::transaction::Version;
use bitcoin::{Amount, OutPoint, ScriptBuf, Sequence, Transaction, TxIn, TxOut, Txid, Witness};

use lightning::chain::chaininterface::{BroadcasterInterface, ConfirmationTarget, FeeEstimator, TransactionType};
use lightning::chain::channelmonitor::{ChannelMonitor, ANTI_REORG_DELAY};
use lightning::chain::{BlockLocator, ChannelMonitorUpdateStatus, Listen};
use lightning::events::bump_transaction::BumpTransactionEvent;
use lightning::events::Event;
use lightning::ln::chan_utils::CommitmentTransaction;
use lightning::ln::channelmanager::{ChannelManagerReadArgs, PaymentId};
use lightning::ln::functional_test_utils::*;
use lightning::ln::msgs::{BaseMessageHandler, ChannelMessageHandler, MessageSendEvent};
use lightning::ln::outbound_payment::RecipientOnionFields;
use lightning::ln::types::ChannelId;
use lightning::ln::verif_hooks as vh;
use lightning::routing::router::{Path, PaymentParameters, Route, RouteHop, RouteParameters};
use lightning::sign::ecdsa::EcdsaChannelSigner;
use lightning::sign::{HTLCDescriptor, SignerProvider, SpendableOutputDescriptor};
use lightning::types::payment::{PaymentHash, PaymentPreimage};
use lightning::util::ser::{ReadableArgs, Writeable};
use lightning::util::test_channel_signer::TestChannelSigner;
use lightning::util::test_utils::{TestChainMonitor, TestPersister};

use verif_harness::{hex, Rng};

// ------------------------------------------------------------------------------------------
// JSON helpers
// ------------------------------------------------------------------------------------------
fn js(s: &str) -> String {
	let mut o = String::with_capacity(s.len() + 2);
	o.push('"');
	for c in s.chars() {
		match c {
			'"' => o.push_str("\\\""),
			'\\' => o.push_str("\\\\"),
			'\n' => o.push_str("\\n"),
			c if (c as u32) < 0x20 => o.push(' '),
			c => o.push(c),
		}
	}
	o.push('"');
	o
}
fn jarr(v: &[String]) -> String {
	format!("[{}]", v.join(","))
}
fn jopt(s: &Option<String>) -> String {
	match s {
		Some(x) => js(x),
		None => "null".to_string(),
	}
}
fn jstrs(v: &[String]) -> String {
	format!("[{}]", v.iter().map(|s| js(s)).collect::<Vec<_>>().join(","))
}

// ------------------------------------------------------------------------------------------
// transactions
// ------------------------------------------------------------------------------------------
fn looks_like_der_sig(e: &[u8]) -> bool {
	e.len() >= 60 && e.len() <= 73 && e[0] == 0x30 && (e[1] as usize) + 3 == e.len()
}

/// Weight with every DER signature counted as 73 bytes (deterministic across processes).
fn norm_weight(tx: &Transaction) -> u64 {
	let mut w = tx.weight().to_wu();
	for i in tx.input.iter() {
		for e in i.witness.iter() {
			if looks_like_der_sig(e) {
				w += (73 - e.len()) as u64;
			}
		}
	}
	w
}

fn prevout_of(known: &HashMap<Txid, Transaction>, op: &OutPoint) -> Option<TxOut> {
	known.get(&op.txid).and_then(|t| t.output.get(op.vout as usize).cloned())
}

struct TxFacts {
	json: String,
	verify_ok: bool,
	fee: Option<u64>,
	weight: u64,
	sum_in: Option<u64>,
}

/// `extra`: additional `"k":v` members (without leading comma), may be empty.
fn tx_facts(tx: &Transaction, known: &HashMap<Txid, Transaction>, extra: &str) -> TxFacts {
	let txid = tx.compute_txid();
	let mut ins = Vec::new();
	let mut sum_in: Option<u64> = Some(0);
	for i in tx.input.iter() {
		let po = prevout_of(known, &i.previous_output);
		match (&po, sum_in) {
			(Some(o), Some(s)) => sum_in = Some(s + o.value.to_sat()),
			_ => sum_in = None,
		}
		ins.push(format!(
			"{{\"prev\":\"{}:{}\",\"seq\":{},\"wit\":{},\"wlast\":{},\"value\":{}}}",
			i.previous_output.txid,
			i.previous_output.vout,
			i.sequence.0,
			i.witness.len(),
			i.witness.last().map(|e| e.len()).unwrap_or(0),
			match &po {
				Some(o) => o.value.to_sat().to_string(),
				None => "null".to_string(),
			}
		));
	}
	let mut outs = Vec::new();
	let mut sum_out = 0u64;
	for o in tx.output.iter() {
		sum_out += o.value.to_sat();
		outs.push(format!("{{\"value\":{},\"script\":\"{}\"}}", o.value.to_sat(), hex(o.script_pubkey.as_bytes())));
	}
	let verify = match tx.verify(|op: &OutPoint| prevout_of(known, op)) {
		Ok(()) => "ok".to_string(),
		Err(e) => format!("{}", e),
	};
	let weight = norm_weight(tx);
	let fee = match sum_in {
		Some(s) if s >= sum_out => Some(s - sum_out),
		_ => None,
	};
	let (fee_s, rate_s) = match (sum_in, fee) {
		(Some(_), Some(f)) => (f.to_string(), (f * 1000 / weight.max(1)).to_string()),
		(Some(s), None) => (format!("-{}", sum_out - s), "null".to_string()),
		_ => ("null".to_string(), "null".to_string()),
	};
	let json = format!(
		"{{\"txid\":\"{}\",\"version\":{},\"locktime\":{},\"inputs\":{},\"outputs\":{},\"weight\":{},\"verify\":{},\"fee\":{},\"feerate\":{}{}{}}}",
		txid,
		tx.version.0,
		tx.lock_time.to_consensus_u32(),
		jarr(&ins),
		jarr(&outs),
		weight,
		js(&verify),
		fee_s,
		rate_s,
		if extra.is_empty() { "" } else { "," },
		extra
	);
	TxFacts { json, verify_ok: verify == "ok", fee, weight, sum_in }
}

// ------------------------------------------------------------------------------------------
// record shared with the panic path
// ------------------------------------------------------------------------------------------
#[derive(Default)]
struct Rec {
	chan_type: String,
	style: String,
	reloaded: bool,
	updates: Vec<String>,
	captures: Vec<String>,
	mon_commitments: Vec<String>,
	cheat: Option<String>,
	funding: Option<String>,
	blocks: Vec<String>,
	spendable: Vec<String>,
	unspent: Vec<String>,
	final_balances: Option<Vec<String>>,
	/// what the driver is doing right now (diagnostics of a panic)
	doing: String,
	// statistics
	n_updates: u64,
	kinds: Vec<String>,
	age: Option<u64>,
	s_len: Option<u64>,
	s_timing: Option<&'static str>,
	s_early: u64,
	s_race_won: u64,
	s_lost: u64,
	aged: bool,
	held_back: Vec<String>,
	reloads: u64,
	justice: u64,
	rebroadcasts: u64,
	b_txs: u64,
	verify_fail: u64,
	both_dirs: bool,
	cheat_htlcs: (u64, u64),
	exhausted: bool,
	mid_cheat: bool,
	s_skipped: u64,
	s_same_block: u64,
	fee_in_pos: Vec<String>,
	s_txs: Vec<String>,
	fee_traj: String,
	fee_delay: u64,
	/// (height, bounded UrgentOnChainSweep estimate of B while the step ending at that height was connected)
	conf_feerates: Vec<(u32, u32)>,
	viol_monotone: u64,
	viol_follow: u64,
	viol_notes: Vec<String>,
	/// per claim (input set): number of re-issues with a new txid, first and highest feerate
	claim_stats: Vec<(u64, u64, u64)>,
	bump_events_handled: u64,
	owed_unspent: u64,
	reorg_json: Option<String>,
	/// (target, api, fork_rel, regrow) of a reorg that was carried out
	reorg_done: Option<(String, String, i32, String)>,
	final_chain: Option<String>,
	twin: Option<String>,
	twin_outpoints: Option<Vec<String>>,
}

#[derive(Clone)]
struct Flags {
	raw: String,
	reload: bool,
	styles: bool,
	late: bool,
	fees: bool,
	reorg: bool,
	/// NOT part of `all`: do not steer around the monitor round-trip quirk (see `run_scenario`)
	rtquirk: bool,
	/// NOT part of `all`: let a reorg disconnect a block that has ANTI_REORG_DELAY confirmations
	deepreorg: bool,
}
impl Flags {
	fn parse(s: &str) -> Flags {
		let mut f =
			Flags { raw: s.to_string(), reload: false, styles: false, late: false, fees: false, reorg: false, rtquirk: false, deepreorg: false };
		for t in s.split(',') {
			match t.trim() {
				"all" => {
					f.reload = true;
					f.styles = true;
					f.late = true;
					f.fees = true;
					f.reorg = true;
				},
				"reorg" => f.reorg = true,
				"reload" => f.reload = true,
				"styles" => f.styles = true,
				"late" => f.late = true,
				"fees" => f.fees = true,
				"rtquirk" => f.rtquirk = true,
				"deepreorg" => f.deepreorg = true,
				_ => {},
			}
		}
		f
	}
}

fn style_from(k: u64) -> ConnectStyle {
	match k % 11 {
		0 => ConnectStyle::BestBlockFirst,
		1 => ConnectStyle::BestBlockFirstSkippingBlocks,
		2 => ConnectStyle::BestBlockFirstReorgsOnlyTip,
		3 => ConnectStyle::TransactionsFirst,
		4 => ConnectStyle::TransactionsFirstSkippingBlocks,
		5 => ConnectStyle::TransactionsDuplicativelyFirstSkippingBlocks,
		6 => ConnectStyle::HighlyRedundantTransactionsFirstSkippingBlocks,
		7 => ConnectStyle::TransactionsFirstReorgsOnlyTip,
		8 => ConnectStyle::FullBlockViaListen,
		9 => ConnectStyle::ReplayedFullBlockViaListen,
		_ => ConnectStyle::FullBlockDisconnectionsSkippingViaListen,
	}
}

// ------------------------------------------------------------------------------------------
// the world
// ------------------------------------------------------------------------------------------
#[derive(Clone)]
struct Htlc {
	from_a: bool,
	amt: u64,
	hash: PaymentHash,
	preimage: PaymentPreimage,
	dust_class: bool,
}

struct Capture {
	number: u64,
	mid: bool,
	txs: Vec<Transaction>,
	/// A's serialized monitor at capture time (anchor-type channels: source of the HTLC descriptors)
	mon_bytes: Option<Vec<u8>>,
	nondust_a2b: u64,
	nondust_b2a: u64,
}

struct World {
	nodes: Vec<Node<'static, 'static, 'static>>,
	cfgs: &'static Vec<TestChanMonCfg>,
	ids: [PublicKey; 2],
	chan_id: ChannelId,
	pay_ctr: u64,
	pending: Vec<Htlc>,
	preimages: HashMap<PaymentHash, PaymentPreimage>,
	claimable_seen: HashSet<PaymentHash>,
	fee: u32,
	fee0: u32,
	connected: bool,
	rtquirk: bool,
	chan_type: &'static str,
	captures: Vec<Capture>,
	known: HashMap<Txid, Transaction>,
}

const MAX_PENDING_PER_DIR: usize = 6;

impl World {
	fn view(&self, n: usize) -> Option<vh::RevocationView> {
		vh::revocation_view(self.nodes[n].node, &self.ids[1 - n], &self.chan_id).map(|(_, v)| v)
	}

	/// A's current holder commitment number.
	fn a_number(&self) -> u64 {
		self.view(0).expect("A's channel is open").holder_next + 1
	}

	fn deliver(&mut self, from: usize, ev: MessageSendEvent) {
		let to = 1 - from;
		let from_id = self.ids[from];
		let peer = self.ids[to];
		let node = self.nodes[to].node;
		match ev {
			MessageSendEvent::UpdateHTLCs { node_id, updates, .. } if node_id == peer => {
				for m in updates.update_add_htlcs.iter() {
					node.handle_update_add_htlc(from_id, m);
				}
				for m in updates.update_fulfill_htlcs.into_iter() {
					node.handle_update_fulfill_htlc(from_id, m);
				}
				for m in updates.update_fail_htlcs.iter() {
					node.handle_update_fail_htlc(from_id, m);
				}
				for m in updates.update_fail_malformed_htlcs.iter() {
					node.handle_update_fail_malformed_htlc(from_id, m);
				}
				if let Some(m) = updates.update_fee.as_ref() {
					node.handle_update_fee(from_id, m);
				}
				for m in updates.commitment_signed.iter() {
					node.handle_commitment_signed(from_id, m);
				}
			},
			MessageSendEvent::SendRevokeAndACK { node_id, msg } if node_id == peer => node.handle_revoke_and_ack(from_id, &msg),
			MessageSendEvent::SendChannelReady { node_id, msg } if node_id == peer => node.handle_channel_ready(from_id, &msg),
			MessageSendEvent::SendAnnouncementSignatures { node_id, msg } if node_id == peer => {
				node.handle_announcement_signatures(from_id, &msg)
			},
			MessageSendEvent::HandleError { .. } => panic!("driver: peer error during the history: {:?}", ev),
			// gossip and friends
			_ => {},
		}
	}

	/// Delivers every message and handles every event until both nodes are quiet.
	fn settle(&mut self) {
		for round in 0..400 {
			let mut activity = false;
			for n in 0..2 {
				if self.nodes[n].node.needs_pending_htlc_processing() {
					self.nodes[n].node.process_pending_htlc_forwards();
					activity = true;
				}
				let evs = self.nodes[n].node.get_and_clear_pending_msg_events();
				for ev in evs {
					activity = true;
					if self.connected {
						self.deliver(n, ev);
					}
				}
				let evs = self.nodes[n].node.get_and_clear_pending_events();
				for ev in evs {
					activity = true;
					match ev {
						Event::PaymentClaimable { payment_hash, .. } => {
							self.claimable_seen.insert(payment_hash);
						},
						Event::ChannelClosed { reason, .. } => panic!("driver: channel closed during the history: {:?}", reason),
						_ => {},
					}
				}
				let _ = self.nodes[n].chain_monitor.chain_monitor.get_and_clear_pending_msg_events();
				let _ = self.nodes[n].chain_monitor.chain_monitor.get_and_clear_pending_events();
				self.nodes[n].chain_monitor.added_monitors.lock().unwrap().clear();
			}
			if !activity {
				return;
			}
			if round == 399 {
				panic!("driver: nodes do not become quiet");
			}
		}
	}

	fn assert_in_sync(&self) {
		let a = self.view(0).expect("A's channel is open");
		let b = self.view(1).expect("B's channel is open");
		let ok = !a.awaiting_remote_revoke
			&& !b.awaiting_remote_revoke
			&& !a.monitor_update_in_progress
			&& !b.monitor_update_in_progress
			&& a.holder_next == b.counterparty_next
			&& b.holder_next == a.counterparty_next;
		if !ok {
			panic!("driver: nodes not in sync after an update: A={:?} B={:?}", a, b);
		}
	}

	fn outbound_limit(&self, n: usize) -> u64 {
		self.nodes[n]
			.node
			.list_channels()
			.iter()
			.find(|d| d.channel_id == self.chan_id)
			.map(|d| d.next_outbound_htlc_limit_msat)
			.unwrap_or(0)
	}

	fn n_pending(&self, from_a: bool) -> usize {
		self.pending.iter().filter(|h| h.from_a == from_a).count()
	}

	/// Sends `amt` from node `a` to its peer and runs the whole dance. Ok(hash) iff the HTLC ended up
	/// claimable at the receiver.
	fn send(&mut self, a: usize, amt: u64, dust_class: bool) -> Result<PaymentHash, String> {
		let b = 1 - a;
		let scid = self
			.nodes[a]
			.node
			.list_channels()
			.iter()
			.find(|d| d.channel_id == self.chan_id)
			.and_then(|d| d.short_channel_id)
			.ok_or_else(|| "no scid".to_string())?;
		// HTLCs A offers expire at even heights, HTLCs B offers at odd heights (see `run_scenario` on the
		// monitor round-trip quirk for why the two directions never share an expiry)
		let mut delta = TEST_FINAL_CLTV;
		if !self.rtquirk && (self.nodes[a].best_block_info().1 + 1 + delta) % 2 != a as u32 {
			delta += 1;
		}
		let hops = vec![RouteHop {
			pubkey: self.ids[b],
			node_features: self.nodes[b].node.node_features(),
			short_channel_id: scid,
			channel_features: self.nodes[b].node.channel_features(),
			fee_msat: amt,
			cltv_expiry_delta: delta,
			maybe_announced_channel: true,
		}];
		self.pay_ctr += 1;
		let mut pre = [0u8; 32];
		pre[0..8].copy_from_slice(&self.pay_ctr.to_be_bytes());
		pre[31] = 0x6a;
		let preimage = PaymentPreimage(pre);
		let hash = PaymentHash(Sha256::hash(&pre).to_byte_array());
		let secret = match self.nodes[b].node.create_inbound_payment_for_hash(hash, None, 7200, None, None) {
			Ok((s, _)) => s,
			Err(_) => return Err("create_inbound_payment".to_string()),
		};
		let route_params =
			RouteParameters::from_payment_params_and_value(PaymentParameters::from_node_id(self.ids[b], delta), amt);
		let route = Route { paths: vec![Path { hops, blinded_tail: None }], route_params };
		let onion = RecipientOnionFields::secret_only(secret, amt);
		let mut id = [0u8; 32];
		id[0..8].copy_from_slice(&self.pay_ctr.to_be_bytes());
		self.preimages.insert(hash, preimage);
		let res = self.nodes[a].node.send_payment_with_route(route, hash, onion, PaymentId(id));
		self.settle();
		if let Err(e) = res {
			return Err(format!("{:?}", e));
		}
		if !self.claimable_seen.contains(&hash) {
			return Err("not claimable at the receiver".to_string());
		}
		self.pending.push(Htlc { from_a: a == 0, amt, hash, preimage, dust_class });
		Ok(hash)
	}

	/// Captures A's current holder commitment and HTLC transactions.
	fn capture(&mut self, u: u64, mid: bool, rec: &Rc<RefCell<Rec>>) {
		let txn: Vec<Transaction> = lightning::get_local_commitment_txn!(self.nodes[0], self.chan_id);
		let number = self.a_number();
		for t in txn.iter() {
			self.known.insert(t.compute_txid(), t.clone());
		}
		let commit = tx_facts(&txn[0], &self.known, "");
		let mut htlc_txs = Vec::new();
		let mut bad = !commit.verify_ok;
		for t in txn[1..].iter() {
			let f = tx_facts(t, &self.known, "");
			bad |= !f.verify_ok;
			htlc_txs.push(f.json);
		}
		let pend: Vec<String> = self
			.pending
			.iter()
			.map(|h| {
				format!(
					"{{\"dir\":\"{}\",\"amt\":{},\"hash\":\"{}\",\"cls\":\"{}\"}}",
					if h.from_a { "a2b" } else { "b2a" },
					h.amt,
					hex(&h.hash.0[..8]),
					if h.dust_class { "dust" } else { "nondust" }
				)
			})
			.collect();
		let idx = self.captures.len();
		let mut r = rec.borrow_mut();
		if bad {
			r.verify_fail += 1;
		}
		r.captures.push(format!(
			"{{\"idx\":{},\"u\":{},\"mid\":{},\"number\":{},\"txid\":\"{}\",\"feerate_per_kw\":{},\"commitment\":{},\"htlc_txs\":{},\"pending\":{}}}",
			idx,
			u,
			mid,
			number,
			txn[0].compute_txid(),
			self.fee,
			commit.json,
			jarr(&htlc_txs),
			jarr(&pend)
		));
		let nondust_a2b = self.pending.iter().filter(|h| h.from_a && !h.dust_class).count() as u64;
		let nondust_b2a = self.pending.iter().filter(|h| !h.from_a && !h.dust_class).count() as u64;
		let mon_bytes = if self.chan_type != "legacy" {
			Some(self.nodes[0].chain_monitor.chain_monitor.get_monitor(self.chan_id).unwrap().encode())
		} else {
			None
		};
		self.captures.push(Capture { number, mid, txs: txn, mon_bytes, nondust_a2b, nondust_b2a });
	}

	/// One random update of the history; returns its JSON.
	fn update(&mut self, u: u64, rng: &mut Rng, force_send: bool, rec: &Rc<RefCell<Rec>>) -> String {
		let lim = [self.outbound_limit(0), self.outbound_limit(1)];
		let na = self.n_pending(true);
		let nb = self.n_pending(false);
		let mut en: Vec<(u64, &'static str)> = Vec::new();
		if na < MAX_PENDING_PER_DIR && lim[0] >= 500_000 {
			en.push((5, "a2b"));
		}
		if nb < MAX_PENDING_PER_DIR && lim[1] >= 500_000 {
			en.push((5, "b2a"));
		}
		if !force_send {
			if !self.pending.is_empty() {
				en.push((if self.pending.len() >= 8 { 6 } else { 3 }, "claim"));
				en.push((1, "fail"));
			}
			if (self.fee as u64) * 11 / 10 <= 4 * self.fee0 as u64 {
				en.push((1, "fee"));
			}
		}
		if en.is_empty() {
			en.push((1, "fee"));
		}
		let total: u64 = en.iter().map(|(w, _)| *w).sum();
		let mut pick = rng.below(total);
		let mut kind = en[0].1;
		for (w, k) in en.iter() {
			if pick < *w {
				kind = k;
				break;
			}
			pick -= *w;
		}
		rec.borrow_mut().doing = format!("update {} kind {}", u, kind);
		rec.borrow_mut().kinds.push(kind.to_string());
		match kind {
			"a2b" | "b2a" => {
				let from = if kind == "a2b" { 0 } else { 1 };
				// sometimes the chain moves first, so that HTLC expiries differ
				let blocks = if rng.below(4) == 0 { 1 + rng.below(3) as u32 } else { 0 };
				if blocks > 0 {
					connect_blocks(&self.nodes[0], blocks);
					connect_blocks(&self.nodes[1], blocks);
					self.settle();
				}
				let dust = rng.below(4) == 0 || lim[from] < 3_000_000;
				let amt = if dust {
					// always below the dust limit: HTLC transactions of anchor-type channels pay no fee, so
					// there the limit is the bare 354 / 330 sat
					100_000 + rng.below(if self.chan_type == "legacy" { 400_001 } else { 230_001 })
				} else {
					let hi = lim[from].min(40_000_000);
					3_000_000 + rng.below(hi - 3_000_000 + 1)
				};
				let res = self.send(from, amt, dust);
				let (hash, err) = match res {
					Ok(h) => (hex(&h.0[..8]), None),
					Err(e) => (String::new(), Some(e)),
				};
				format!(
					"{{\"u\":{},\"kind\":\"{}\",\"amt\":{},\"cls\":\"{}\",\"blocks\":{},\"hash\":\"{}\",\"err\":{}}}",
					u,
					kind,
					amt,
					if dust { "dust" } else { "nondust" },
					blocks,
					hash,
					jopt(&err)
				)
			},
			"claim" | "fail" => {
				let i = rng.below(self.pending.len() as u64) as usize;
				let h = self.pending.remove(i);
				let receiver = if h.from_a { 1 } else { 0 };
				let mut mid = false;
				if kind == "claim" {
					self.nodes[receiver].node.claim_funds(h.preimage);
					if receiver == 0 {
						// A knows the preimage and has not yet told B: its CURRENT commitment still carries
						// the HTLC and its monitor can now sign the HTLC-success transaction.
						self.pending.insert(i, h.clone());
						self.capture(u, true, rec);
						self.pending.remove(i);
						mid = true;
					}
				} else {
					self.nodes[receiver].node.fail_htlc_backwards(&h.hash);
				}
				self.settle();
				format!(
					"{{\"u\":{},\"kind\":\"{}\",\"dir\":\"{}\",\"amt\":{},\"hash\":\"{}\",\"at\":{},\"mid_capture\":{}}}",
					u,
					kind,
					if h.from_a { "a2b" } else { "b2a" },
					h.amt,
					hex(&h.hash.0[..8]),
					receiver,
					mid
				)
			},
			_ => {
				let pct = 10 + rng.below(41);
				let nf = ((self.fee as u64) * (100 + pct) / 100) as u32;
				let before = self.a_number();
				self.fee = nf;
				*self.cfgs[0].fee_estimator.sat_per_kw.lock().unwrap() = nf;
				*self.cfgs[1].fee_estimator.sat_per_kw.lock().unwrap() = nf;
				self.nodes[0].node.timer_tick_occurred();
				self.settle();
				let applied = self.a_number() != before;
				format!("{{\"u\":{},\"kind\":\"fee\",\"pct\":{},\"sat_per_kw\":{},\"applied\":{}}}", u, pct, nf, applied)
			},
		}
	}

	/// B's view of every commitment transaction of A it has signed, newest last (numbers descending).
	fn mon_commitments(&self) -> (Vec<String>, HashMap<u64, (Option<u32>, Vec<(bool, u32, u32)>)>) {
		let mon = self.nodes[1].chain_monitor.chain_monitor.get_monitor(self.chan_id).unwrap();
		let mut all: Vec<CommitmentTransaction> = Vec::new();
		if let Some(c) = mon.initial_counterparty_commitment_tx() {
			all.push(c);
		}
		{
			let upds = self.nodes[1].chain_monitor.monitor_updates.lock().unwrap();
			if let Some(v) = upds.get(&self.chan_id) {
				for u in v.iter() {
					all.extend(mon.counterparty_commitment_txs_from_update(u));
				}
			}
		}
		all.sort_by(|x, y| y.commitment_number().cmp(&x.commitment_number()));
		let mut by_number: HashMap<u64, (Option<u32>, Vec<(bool, u32, u32)>)> = HashMap::new();
		for c in all.iter() {
			by_number.insert(
				c.commitment_number(),
				(
					c.trust().revokeable_output_index().map(|i| i as u32),
					c.nondust_htlcs().iter().map(|h| (h.offered, h.cltv_expiry, h.transaction_output_index.unwrap_or(u32::MAX))).collect(),
				),
			);
		}
		let json = all
			.iter()
			.map(|c| {
				let t = c.trust();
				let mut htlcs: Vec<(u32, String)> = c
					.nondust_htlcs()
					.iter()
					.map(|h| {
						let idx = h.transaction_output_index.map(|i| i as i64).unwrap_or(-1);
						(
							h.transaction_output_index.unwrap_or(u32::MAX),
							format!(
								"{{\"offered\":{},\"amount_msat\":{},\"cltv_expiry\":{},\"hash\":\"{}\",\"vout\":{}}}",
								h.offered,
								h.amount_msat,
								h.cltv_expiry,
								hex(&h.payment_hash.0[..8]),
								idx
							),
						)
					})
					.collect();
				htlcs.sort();
				format!(
					"{{\"number\":{},\"txid\":\"{}\",\"feerate_per_kw\":{},\"htlcs\":{},\"revokeable_vout\":{},\"to_broadcaster_sat\":{},\"to_countersignatory_sat\":{},\"n_outputs\":{}}}",
					c.commitment_number(),
					t.txid(),
					c.negotiated_feerate_per_kw(),
					jarr(&htlcs.into_iter().map(|(_, s)| s).collect::<Vec<_>>()),
					t.revokeable_output_index().map(|i| i as i64).unwrap_or(-1),
					c.to_broadcaster_value_sat(),
					c.to_countersignatory_value_sat(),
					t.built_transaction().transaction.output.len()
				)
			})
			.collect();
		(json, by_number)
	}

	/// Restarts B from its serialized manager and monitors.
	fn reload_b(&mut self) -> Result<(), String> {
		if self.connected {
			self.nodes[0].node.peer_disconnected(self.ids[1]);
			self.nodes[1].node.peer_disconnected(self.ids[0]);
			self.connected = false;
		}
		let mgr_bytes = self.nodes[1].node.encode();
		let node = &self.nodes[1];
		let mut mon_ids = node.chain_monitor.chain_monitor.list_monitors();
		mon_ids.sort();
		let mon_bytes: Vec<Vec<u8>> =
			mon_ids.iter().map(|id| node.chain_monitor.chain_monitor.get_monitor(*id).unwrap().encode()).collect();
		let config = node.node.get_current_config();
		let km = node.keys_manager;
		let mut monitors = Vec::new();
		for b in mon_bytes.iter() {
			let mut r = &b[..];
			let (_, m) = <(BlockLocator, ChannelMonitor<TestChannelSigner>)>::read(&mut r, (km, km))
				.map_err(|e| format!("monitor read: {:?}", e))?;
			if !r.is_empty() {
				return Err("monitor read: trailing bytes".to_string());
			}
			monitors.push(m);
		}
		let persister: &'static TestPersister = Box::leak(Box::new(TestPersister::new()));
		let new_cm: &'static TestChainMonitor<'static> = Box::leak(Box::new(TestChainMonitor::new(
			Some(node.chain_source),
			node.tx_broadcaster,
			node.logger,
			node.fee_estimator,
			persister,
			km,
		)));
		let args = ChannelManagerReadArgs::new(
			km,
			km,
			km,
			node.fee_estimator,
			new_cm,
			node.tx_broadcaster,
			node.router,
			node.message_router,
			node.logger,
			config,
			monitors.iter().collect(),
		);
		let mut r = &mgr_bytes[..];
		let (_, mgr) = <(BlockLocator, TestChannelManager<'static, 'static>)>::read(&mut r, args)
			.map_err(|e| format!("manager read: {:?}", e))?;
		for m in monitors {
			let cid = m.channel_id();
			let res = new_cm.load_existing_monitor(cid, m);
			if res != Ok(ChannelMonitorUpdateStatus::Completed) {
				return Err(format!("load_existing_monitor: {:?}", res));
			}
		}
		new_cm.added_monitors.lock().unwrap().clear();
		let mgr_ref: &'static TestChannelManager<'static, 'static> = Box::leak(Box::new(mgr));
		let node = &mut self.nodes[1];
		node.chain_monitor = new_cm;
		node.node = mgr_ref;
		node.onion_messenger.set_offers_handler(mgr_ref);
		node.onion_messenger.set_async_payments_handler(mgr_ref);
		// manager and monitors were serialized at the same tip; replay anything the manager lacks
		let bb = mgr_ref.current_best_block();
		let blocks = node.blocks.lock().unwrap().clone();
		if let Some(pos) = blocks.iter().position(|(b, h)| b.block_hash() == bb.block_hash && *h == bb.height) {
			for (b, h) in blocks[pos + 1..].iter() {
				Listen::block_connected(mgr_ref, b, *h);
			}
		} else {
			return Err("manager best block not on the node's chain".to_string());
		}
		Ok(())
	}
}

// ------------------------------------------------------------------------------------------
// simulated chain as seen by B after the cheat
// ------------------------------------------------------------------------------------------
struct Chain {
	conf: HashMap<Txid, u32>,
	/// position among the transactions the driver put into the block
	pos: HashMap<Txid, usize>,
	spent: HashMap<OutPoint, Txid>,
	/// B's broadcasts not yet confirmed, oldest first
	b_pending: Vec<Transaction>,
	b_seen: HashSet<Txid>,
	/// A's second-stage transactions it still wants to confirm
	a_remaining: Vec<Transaction>,
	/// txids whose outputs are watched for the justice statistics
	cheat_txids: HashSet<Txid>,
	commit_txid: Txid,
	/// Steering around round-trip artefact (2), see `run_scenario`: the inputs `(vout, offered)` of B's
	/// justice package that mixes HTLCs of both directions, in the order the package holds them, and
	/// the direction of the input all others were merged into. Empty if there is no such package.
	g_inputs: Vec<(u32, bool)>,
	g_cluster_offered: bool,
	steer: bool,
	held_back: Vec<String>,
	/// B's justice claims by input set: (last feerate, re-issues, first feerate, highest feerate)
	claims: HashMap<String, (u64, u64, u64, u64)>,
	/// transactions a reorg took out of the chain and nothing has mined again yet
	unmined: HashSet<Txid>,
	/// claims forgotten at a reorg (re-issues, first feerate, highest feerate), for the statistics
	claims_retired: Vec<(u64, u64, u64)>,
	/// everything B ever broadcast, in order of arrival (`b_pending` is rebuilt from it after a reorg)
	b_all: Vec<Transaction>,
	/// A's second-stage transactions, all of them
	a_all: Vec<Transaction>,
	/// the HTLCs of the revoked commitment as B's monitor knows them: (offered, cltv_expiry, vout)
	htlcs: Vec<(bool, u32, u32)>,
	pinnable: u32,
	reorg: Option<Reorg>,
	/// flag `deepreorg`
	deep_reorg: bool,
}

/// The chain reorganisation of a scenario: plan, progress and what was observed.
struct Reorg {
	target: &'static str,
	target_drawn: &'static str,
	k: u32,
	fork_rel_drawn: i32,
	api: &'static str,
	regrow: &'static str,
	/// the transaction the plan hangs on and the height it confirmed at
	tracked: Option<(Txid, u32)>,
	started: bool,
	done: bool,
	fork_rel: i32,
	depth_capped: bool,
	tip_before: u32,
	fork_h: u32,
	shift: u32,
	disc_heights: Vec<u32>,
	disc_txids: Vec<String>,
	repl_heights: Vec<u32>,
	style_before: String,
	disconnect_style: String,
	regrow_style: String,
}

impl Reorg {
	fn json(&self) -> String {
		let nums = |v: &Vec<u32>| v.iter().map(|x| x.to_string()).collect::<Vec<_>>().join(",");
		let opt = |on: bool, x: String| if on { x } else { "null".to_string() };
		format!(
			"{{\"target\":\"{}\",\"target_drawn\":\"{}\",\"k\":{},\"fork_rel\":{},\"fork_rel_drawn\":{},\"depth_capped\":{},\"api\":\"{}\",\"regrow\":\"{}\",\"done\":{},\"tracked_txid\":{},\"tracked_conf_height\":{},\"tip_before\":{},\"fork_point_height\":{},\"shift\":{},\"disconnected_heights\":[{}],\"disconnected_txids\":{},\"replacement_heights\":[{}],\"style_before\":{},\"disconnect_style\":{},\"regrow_style\":{}}}",
			self.target,
			self.target_drawn,
			self.k,
			opt(self.started, self.fork_rel.to_string()),
			self.fork_rel_drawn,
			self.depth_capped,
			self.api,
			self.regrow,
			self.done,
			match &self.tracked {
				Some((t, _)) => format!("\"{}\"", t),
				None => "null".to_string(),
			},
			match &self.tracked {
				Some((_, h)) => h.to_string(),
				None => "null".to_string(),
			},
			opt(self.started, self.tip_before.to_string()),
			opt(self.started, self.fork_h.to_string()),
			opt(self.started && self.regrow == "shifted", self.shift.to_string()),
			nums(&self.disc_heights),
			jstrs(&self.disc_txids),
			nums(&self.repl_heights),
			opt(self.started, js(&self.style_before)),
			opt(self.started, js(&self.disconnect_style)),
			opt(self.started, js(&self.regrow_style)),
		)
	}
}

/// The in/output-less transaction the test utilities put in front of every mined block.
fn is_padding(t: &Transaction) -> bool {
	t.input.is_empty() && t.output.is_empty()
}

impl Chain {
	fn final_at(tx: &Transaction, h: u32) -> bool {
		let lt = tx.lock_time.to_consensus_u32();
		if lt == 0 {
			return true;
		}
		if tx.input.iter().all(|i| i.sequence.0 == 0xffff_ffff) {
			return true;
		}
		if lt >= 500_000_000 {
			return false;
		}
		lt < h
	}

	fn mineable(&self, tx: &Transaction, h: u32, block: &[Transaction]) -> bool {
		let txid = tx.compute_txid();
		if self.conf.contains_key(&txid) || block.iter().any(|t| t.compute_txid() == txid) {
			return false;
		}
		if !Self::final_at(tx, h) {
			return false;
		}
		for i in tx.input.iter() {
			let op = i.previous_output;
			if self.spent.contains_key(&op) {
				return false;
			}
			if block.iter().any(|t| t.input.iter().any(|j| j.previous_output == op)) {
				return false;
			}
			let parent_h = match self.conf.get(&op.txid) {
				Some(ph) => *ph,
				None => {
					if block.iter().any(|t| t.compute_txid() == op.txid) {
						h
					} else {
						return false;
					}
				},
			};
			// BIP 68
			if tx.version.0 >= 2 && i.sequence.0 & (1 << 31) == 0 {
				if i.sequence.0 & (1 << 22) != 0 {
					return false;
				}
				if parent_h + (i.sequence.0 & 0xffff) > h {
					return false;
				}
			}
		}
		true
	}

	/// May A confirm `tx` now without tripping the test-only round-trip assertion? Updates `g` (the
	/// package's input list) as if it were mined.
	fn a_take(&self, tx: &Transaction, g: &mut Vec<(u32, bool)>) -> bool {
		if !self.steer {
			return true;
		}
		let mut g2 = g.clone();
		for i in tx.input.iter() {
			if i.previous_output.txid != self.commit_txid {
				continue;
			}
			if let Some(pos) = g2.iter().position(|(v, _)| *v == i.previous_output.vout) {
				let (_, offered) = g2.remove(pos);
				// the package split off keeps the cluster of the package it came from
				if offered != self.g_cluster_offered {
					return false;
				}
				// what remains is re-read with the cluster of its first input
				if let Some((_, first_offered)) = g2.first() {
					if *first_offered != self.g_cluster_offered {
						return false;
					}
				}
			}
		}
		*g = g2;
		true
	}

	/// A's transactions out of `cands` that may confirm at `h` on top of `block`, in order.
	fn take_a(&mut self, cands: &[Transaction], h: u32, block: &mut Vec<Transaction>) -> usize {
		let mut g = self.g_inputs.clone();
		let mut n = 0;
		for t in cands.iter() {
			if self.mineable(t, h, block) {
				if self.a_take(t, &mut g) {
					block.push(t.clone());
					n += 1;
				} else {
					let id = t.compute_txid().to_string();
					if !self.held_back.contains(&id) {
						self.held_back.push(id);
					}
				}
			}
		}
		n
	}

	/// Drops B's unconfirmed transactions that can never confirm any more.
	fn prune(&mut self) {
		loop {
			let alive: HashSet<Txid> =
				self.b_pending.iter().chain(self.a_remaining.iter()).map(|t| t.compute_txid()).collect();
			let before = self.b_pending.len();
			let conf = &self.conf;
			let spent = &self.spent;
			self.b_pending.retain(|t| {
				!conf.contains_key(&t.compute_txid())
					&& t.input.iter().all(|i| {
						!spent.contains_key(&i.previous_output)
							&& (conf.contains_key(&i.previous_output.txid) || alive.contains(&i.previous_output.txid))
					})
			});
			if self.b_pending.len() == before {
				break;
			}
		}
		let conf = &self.conf;
		let spent = &self.spent;
		self.a_remaining
			.retain(|t| !conf.contains_key(&t.compute_txid()) && t.input.iter().all(|i| !spent.contains_key(&i.previous_output)));
	}

	fn select_b(&self, h: u32) -> Vec<Transaction> {
		let mut block: Vec<Transaction> = Vec::new();
		for tx in self.b_pending.iter().rev() {
			if self.mineable(tx, h, &block) {
				block.push(tx.clone());
			}
		}
		block
	}

	fn mark_mined(&mut self, txs: &[Transaction], h: u32) {
		for (p, t) in txs.iter().enumerate() {
			let txid = t.compute_txid();
			if self.unmined.remove(&txid) {
				// back after a reorg: B's claims on its outputs start afresh
				self.forget_claims(&HashSet::new(), &[txid]);
			}
			self.conf.insert(txid, h);
			self.pos.insert(txid, p);
			for i in t.input.iter() {
				self.spent.insert(i.previous_output, txid);
				if i.previous_output.txid == self.commit_txid {
					self.g_inputs.retain(|(v, _)| *v != i.previous_output.vout);
				}
			}
		}
		self.prune();
	}

	/// The justice package of round-trip artefact (2) (see `run_scenario`) if the revoked commitment
	/// confirms at `h1`: its inputs in package order and the cluster of the input all others join.
	fn g_for(&self, h1: u32) -> (Vec<(u32, bool)>, bool) {
		let mut g: Vec<(u32, bool)> = self
			.htlcs
			.iter()
			.filter(|(offered, cltv, _)| !*offered || *cltv <= h1 + self.pinnable)
			.map(|(offered, _, vout)| (*vout, *offered))
			.collect();
		g.sort();
		if g.iter().any(|(_, o)| *o) && g.iter().any(|(_, o)| !*o) {
			let mut rest: Vec<(u32, bool)> = g[1..].to_vec();
			rest.reverse();
			let mut inputs = vec![g[0]];
			inputs.extend(rest);
			(inputs, g[0].1)
		} else {
			(Vec::new(), false)
		}
	}

	/// Re-derives the prediction for artefact (2) from the chain as it is now.
	fn reset_g(&mut self) {
		if !self.steer {
			return;
		}
		match self.conf.get(&self.commit_txid).copied() {
			Some(h) => {
				let (mut g, c) = self.g_for(h);
				let commit = self.commit_txid;
				let spent = &self.spent;
				g.retain(|(v, _)| !spent.contains_key(&OutPoint { txid: commit, vout: *v }));
				self.g_inputs = g;
				self.g_cluster_offered = c;
			},
			None => {
				self.g_inputs = Vec::new();
				self.g_cluster_offered = false;
			},
		}
	}

	/// The transactions of disconnected blocks leave the simulated chain. The fee memory forgets every
	/// claim that shares an outpoint with one of them or spends one of their outputs.
	fn unmine(&mut self, txs: &[Transaction]) {
		let ids: HashSet<Txid> = txs.iter().map(|t| t.compute_txid()).collect();
		let mut touched: HashSet<String> = HashSet::new();
		for t in txs.iter() {
			let txid = t.compute_txid();
			self.conf.remove(&txid);
			self.pos.remove(&txid);
			for i in t.input.iter() {
				if self.spent.get(&i.previous_output) == Some(&txid) {
					self.spent.remove(&i.previous_output);
				}
				touched.insert(format!("{}:{}", i.previous_output.txid, i.previous_output.vout));
			}
		}
		let ids: Vec<Txid> = ids.into_iter().collect();
		self.forget_claims(&touched, &ids);
		self.unmined.extend(ids);
		self.reset_g();
	}

	/// Drops the fee memory of every input set holding one of the outpoints `ops` (`txid:vout`) or an
	/// output of one of `parents`.
	fn forget_claims(&mut self, ops: &HashSet<String>, parents: &[Txid]) {
		let prefixes: Vec<String> = parents.iter().map(|t| format!("{}:", t)).collect();
		let stale: Vec<String> = self
			.claims
			.keys()
			.filter(|k| k.split(',').any(|op| ops.contains(op) || prefixes.iter().any(|p| op.starts_with(p.as_str()))))
			.cloned()
			.collect();
		for k in stale {
			if let Some(c) = self.claims.remove(&k) {
				self.claims_retired.push((c.1, c.2, c.3));
			}
		}
	}

	/// B's pending pool after a reorg: everything it ever broadcast that is not confirmed and can still
	/// confirm, in order of arrival.
	fn rebuild_b_pending(&mut self) {
		let conf = &self.conf;
		self.b_pending = self.b_all.iter().filter(|t| !conf.contains_key(&t.compute_txid())).cloned().collect();
		self.prune();
	}

	/// Blocks still to connect before the planned reorg is due (None: no reorg is waiting for blocks).
	fn reorg_due_in(&self, tip: u32) -> Option<u32> {
		match &self.reorg {
			Some(r) if !r.started => r.tracked.map(|(_, h)| (h + r.k).saturating_sub(tip)),
			_ => None,
		}
	}

	/// Looks for the transaction the reorg plan hangs on among the transactions just mined at `h`.
	fn track(&mut self, mined: &[Transaction], h: u32) -> bool {
		let mut r = match self.reorg.take() {
			Some(r) => r,
			None => return false,
		};
		let mut changed = false;
		if !r.started && r.tracked.is_none() {
			let s_ids: HashSet<Txid> = self.a_all.iter().map(|t| t.compute_txid()).collect();
			if r.target == "cheater_htlc" || r.target == "second_stage_justice" {
				let s_conf = s_ids.iter().any(|t| self.conf.contains_key(t));
				if !s_conf && self.a_remaining.is_empty() {
					r.target = "justice";
					changed = true;
				}
			}
			let hit = mined.iter().find(|t| {
				let txid = t.compute_txid();
				match r.target {
					"commitment" => txid == self.commit_txid,
					"justice" => self.b_seen.contains(&txid) && t.input.iter().any(|i| i.previous_output.txid == self.commit_txid),
					"cheater_htlc" => s_ids.contains(&txid),
					_ => self.b_seen.contains(&txid) && t.input.iter().any(|i| s_ids.contains(&i.previous_output.txid)),
				}
			});
			if let Some(t) = hit {
				r.tracked = Some((t.compute_txid(), h));
				changed = true;
			}
		}
		self.reorg = Some(r);
		changed
	}
}

struct Drained {
	bcast: Vec<Transaction>,
	events: Vec<String>,
	spendable: Vec<String>,
	msgs: usize,
	mon_added: usize,
	bumps: u64,
}

fn event_name(ev: &Event) -> String {
	match ev {
		Event::ChannelClosed { reason, .. } => format!("ChannelClosed:{:?}", reason),
		Event::PaymentFailed { payment_hash, .. } => {
			format!("PaymentFailed:{}", payment_hash.map(|h| hex(&h.0[..8])).unwrap_or_default())
		},
		Event::PaymentPathFailed { payment_hash, .. } => format!("PaymentPathFailed:{}", hex(&payment_hash.0[..8])),
		Event::PaymentSent { payment_hash, .. } => format!("PaymentSent:{}", hex(&payment_hash.0[..8])),
		Event::HTLCHandlingFailed { failure_type, .. } => format!("HTLCHandlingFailed:{:?}", failure_type),
		ev => {
			let dbg = format!("{:?}", ev);
			dbg.chars().take_while(|c| c.is_alphanumeric()).collect()
		},
	}
}

fn spendable_json(d: &SpendableOutputDescriptor, height: u32) -> String {
	let (kind, op, out, delay) = match d {
		SpendableOutputDescriptor::StaticOutput { outpoint, output, .. } => ("StaticOutput", *outpoint, output.clone(), 0),
		SpendableOutputDescriptor::DelayedPaymentOutput(x) => ("DelayedPaymentOutput", x.outpoint, x.output.clone(), x.to_self_delay),
		SpendableOutputDescriptor::StaticPaymentOutput(x) => ("StaticPaymentOutput", x.outpoint, x.output.clone(), 0),
	};
	format!(
		"{{\"kind\":\"{}\",\"outpoint\":\"{}:{}\",\"value\":{},\"script\":\"{}\",\"to_self_delay\":{},\"h\":{}}}",
		kind,
		op.txid,
		op.index,
		out.value.to_sat(),
		hex(out.script_pubkey.as_bytes()),
		delay,
		height
	)
}

fn drain_b(w: &World) -> Drained {
	let mut d = Drained { bcast: Vec::new(), events: Vec::new(), spendable: Vec::new(), msgs: 0, mon_added: 0, bumps: 0 };
	let b = &w.nodes[1];
	let height = b.best_block_info().1;
	for _round in 0..50 {
		let mut activity = false;
		if b.node.needs_pending_htlc_processing() {
			b.node.process_pending_htlc_forwards();
			activity = true;
		}
		// A is passive: whatever B says is lost
		let m = b.node.get_and_clear_pending_msg_events();
		if !m.is_empty() {
			activity = true;
			d.msgs += m.len();
		}
		let m = b.chain_monitor.chain_monitor.get_and_clear_pending_msg_events();
		d.msgs += m.len();
		let mut evs = b.node.get_and_clear_pending_events();
		evs.extend(b.chain_monitor.chain_monitor.get_and_clear_pending_events());
		for ev in evs {
			activity = true;
			if let Event::SpendableOutputs { outputs, .. } = &ev {
				for o in outputs.iter() {
					d.spendable.push(spendable_json(o, height));
				}
			}
			if let Event::BumpTransaction(bump) = &ev {
				// anchor-type channels: B's own commitment / HTLC claims need its wallet
				b.bump_tx_handler.handle_event(bump);
				d.bumps += 1;
			}
			d.events.push(event_name(&ev));
		}
		{
			let mut am = b.chain_monitor.added_monitors.lock().unwrap();
			d.mon_added += am.len();
			am.clear();
		}
		let t = b.tx_broadcaster.txn_broadcast();
		if !t.is_empty() {
			activity = true;
			d.bcast.extend(t);
		}
		if !activity {
			break;
		}
	}
	d.spendable.sort();
	d
}

fn balances_b(w: &World) -> Vec<String> {
	let mut v: Vec<String> = w
		.nodes[1]
		.chain_monitor
		.chain_monitor
		.get_monitor(w.chan_id)
		.unwrap()
		.get_claimable_balances()
		.iter()
		.map(|b| format!("{:?}", b))
		.collect();
	v.sort();
	v
}

/// Records everything observable at B after `n` blocks were connected.
fn after_block(w: &mut World, chain: &mut Chain, rec: &Rc<RefCell<Rec>>, phase: &str, n: u32, mined: &[Transaction]) {
	let d = drain_b(w);
	let h = w.nodes[1].best_block_info().1;
	let est = bounded_est(w) as u64;
	// canonical order within one drain (the claim machinery walks randomly keyed maps)
	let mut by_txid: BTreeMap<String, (Transaction, u64)> = BTreeMap::new();
	for t in d.bcast.into_iter() {
		let e = by_txid.entry(t.compute_txid().to_string()).or_insert((t, 0));
		e.1 += 1;
	}
	for (t, _) in by_txid.values() {
		w.known.insert(t.compute_txid(), t.clone());
	}
	let mut bcast = Vec::new();
	let mut fresh: Vec<(u64, String, Transaction)> = Vec::new();
	let mut track: Vec<(u32, u64, String, String, u64, u64)> = Vec::new();
	for (txid_s, (t, count)) in by_txid.iter() {
		let txid = t.compute_txid();
		let again = chain.b_seen.contains(&txid);
		let confirmed = chain.conf.contains_key(&txid);
		let extra = format!("\"rebroadcast\":{},\"copies\":{},\"already_confirmed\":{}", again, count, confirmed);
		let f = tx_facts(t, &w.known, &extra);
		{
			let mut r = rec.borrow_mut();
			if !f.verify_ok {
				r.verify_fail += 1;
			}
			if again {
				r.rebroadcasts += 1;
			} else {
				r.b_txs += 1;
				if t.input.iter().any(|i| chain.cheat_txids.contains(&i.previous_output.txid)) {
					r.justice += 1;
					if let (Some(fee), Some(sum_in)) = (f.fee, f.sum_in) {
						let mut ins: Vec<String> = t.input.iter().map(|i| format!("{}:{}", i.previous_output.txid, i.previous_output.vout)).collect();
						ins.sort();
						track.push((t.lock_time.to_consensus_u32(), fee, txid_s.clone(), ins.join(","), f.weight, sum_in));
					}
				}
			}
		}
		bcast.push(f.json);
		if !again {
			chain.b_seen.insert(txid);
			fresh.push((f.fee.unwrap_or(0), txid_s.clone(), t.clone()));
		}
	}
	// Fee discipline of re-issued claims, per input set. A step can span several blocks: B's claims
	// carry the height they were made at as locktime, which gives their order.
	track.sort();
	{
		let mut r = rec.borrow_mut();
		for (_, fee, txid, key, weight, sum_in) in track {
			let feerate = fee * 1000 / weight.max(1);
			let tol = |x: u64| x / 50 + 3;
			match chain.claims.get_mut(&key) {
				None => {
					chain.claims.insert(key, (feerate, 0, feerate, feerate));
				},
				Some(c) => {
					let prev = c.0;
					if feerate + tol(prev) < prev {
						r.viol_monotone += 1;
						r.viol_notes.push(format!("h={} tx={} feerate {} below previous {}", h, txid, feerate, prev));
					}
					if est > prev {
						let affordable = (sum_in / 2) * 1000 / weight.max(1);
						let want = est.min(affordable);
						if feerate + tol(want) < want {
							r.viol_follow += 1;
							r.viol_notes.push(format!(
								"h={} tx={} feerate {} below min(estimate {}, affordable {}) (previous {})",
								h, txid, feerate, est, affordable, prev
							));
						}
					}
					c.0 = feerate;
					c.1 += 1;
					c.3 = c.3.max(feerate);
				},
			}
		}
	}
	// "later" within one drain = higher fee
	fresh.sort_by(|x, y| (x.0, &x.1).cmp(&(y.0, &y.1)));
	for (_, _, t) in fresh {
		chain.b_all.push(t.clone());
		chain.b_pending.push(t);
	}
	chain.prune();
	let mined_ids: Vec<String> = mined.iter().map(|t| t.compute_txid().to_string()).collect();
	let balances = balances_b(w);
	// the manager walks randomly keyed maps when it fails HTLCs: canonical order
	let mut events = d.events.clone();
	events.sort();
	let mut r = rec.borrow_mut();
	r.spendable.extend(d.spendable.iter().cloned());
	r.conf_feerates.push((h, est as u32));
	r.bump_events_handled += d.bumps;
	r.blocks.push(format!(
		"{{\"h\":{},\"n\":{},\"phase\":\"{}\",\"est\":{},\"bump_events\":{},\"mined\":{},\"bcast\":{},\"events\":{},\"msgs\":{},\"mon_added\":{},\"spendable\":{},\"balances\":{}}}",
		h,
		n,
		phase,
		est,
		d.bumps,
		jstrs(&mined_ids),
		jarr(&bcast),
		jstrs(&events),
		d.msgs,
		d.mon_added,
		jarr(&d.spendable),
		jstrs(&balances)
	));
}

fn mine(w: &mut World, chain: &mut Chain, rec: &Rc<RefCell<Rec>>, phase: &str, txs: Vec<Transaction>) {
	rec.borrow_mut().doing = format!("{}: mining {} txs at B height {}", phase, txs.len(), w.nodes[1].best_block_info().1 + 1);
	let refs: Vec<&Transaction> = txs.iter().collect();
	mine_transactions(&w.nodes[1], &refs);
	let h = w.nodes[1].best_block_info().1;
	chain.mark_mined(&txs, h);
	after_block(w, chain, rec, phase, 1, &txs);
	if chain.reorg.is_some() {
		if chain.track(&txs, h) {
			rec.borrow_mut().reorg_json = chain.reorg.as_ref().map(|r| r.json());
		}
		maybe_reorg(w, chain, rec);
	}
}

fn empty_blocks(w: &mut World, chain: &mut Chain, rec: &Rc<RefCell<Rec>>, phase: &str, n: u32) {
	let mut left = n;
	loop {
		let tip = w.nodes[1].best_block_info().1;
		// a step of several blocks stops where a planned reorg is due
		let chunk = match chain.reorg_due_in(tip) {
			Some(d) if d >= 1 && d < left => d,
			_ => left,
		};
		rec.borrow_mut().doing = format!("{}: {} empty blocks from B height {}", phase, chunk, tip);
		connect_blocks(&w.nodes[1], chunk);
		after_block(w, chain, rec, phase, chunk, &[]);
		left -= chunk;
		if chain.reorg.is_some() {
			maybe_reorg(w, chain, rec);
		}
		if left == 0 {
			break;
		}
	}
}

// ------------------------------------------------------------------------------------------
// chain reorganisation
// ------------------------------------------------------------------------------------------
fn maybe_reorg(w: &mut World, chain: &mut Chain, rec: &Rc<RefCell<Rec>>) {
	let tip = w.nodes[1].best_block_info().1;
	if chain.reorg_due_in(tip) == Some(0) {
		do_reorg(w, chain, rec);
	}
}

/// Connects one replacement block holding `txs` (in this order) on B's chain.
fn regrow_block(w: &mut World, chain: &mut Chain, rec: &Rc<RefCell<Rec>>, txs: Vec<Transaction>, other_nonce: bool) -> u32 {
	let h = w.nodes[1].best_block_info().1 + 1;
	rec.borrow_mut().doing = format!("reorg_regrow: replacement block with {} txs at B height {}", txs.len(), h);
	let mut so_far: Vec<Transaction> = Vec::new();
	for t in txs.iter() {
		// (commitment transactions carry a time-type locktime from 1987, which `final_at` does not model)
		if t.compute_txid() != chain.commit_txid && !chain.mineable(t, h, &so_far) {
			panic!("driver: replacement block at height {} cannot hold {}", h, t.compute_txid());
		}
		so_far.push(t.clone());
	}
	{
		let node = &w.nodes[1];
		let mut txdata: Vec<Transaction> = Vec::new();
		if !txs.is_empty() {
			// the same padding `mine_transactions` uses
			for _ in 0..*node.network_chan_count.borrow() {
				txdata.push(Transaction { version: Version(0), lock_time: LockTime::ZERO, input: Vec::new(), output: Vec::new() });
			}
		}
		txdata.extend(txs.iter().cloned());
		let mut block = create_dummy_block(node.best_block_hash(), h, txdata);
		if other_nonce {
			// the header does not commit to the transactions (all-zero merkle root): without this an
			// empty replacement block on the fork point would BE the disconnected block
			block.header.nonce = 0x5eed_0001;
		}
		connect_block(node, &block);
	}
	chain.mark_mined(&txs, h);
	if txs.iter().any(|t| t.compute_txid() == chain.commit_txid) {
		chain.reset_g();
	}
	after_block(w, chain, rec, "reorg_regrow", 1, &txs);
	h
}

fn do_reorg(w: &mut World, chain: &mut Chain, rec: &Rc<RefCell<Rec>>) {
	let mut r = chain.reorg.take().expect("a plan");
	let (_, conf_h) = r.tracked.expect("a tracked transaction");
	let tip = w.nodes[1].best_block_info().1;
	r.started = true;
	r.tip_before = tip;
	// the fork point must be below the tip
	r.fork_rel = r.fork_rel_drawn.min((tip - conf_h) as i32 - 1);
	// and a block with ANTI_REORG_DELAY confirmations is final for LDK: it stays
	if !chain.deep_reorg && tip - (conf_h as i64 + r.fork_rel as i64) as u32 >= ANTI_REORG_DELAY {
		r.fork_rel += 1;
		r.depth_capped = true;
	}
	r.fork_h = (conf_h as i64 + r.fork_rel as i64) as u32;
	let count = tip - r.fork_h;
	let disc: Vec<(u32, Vec<Transaction>)> = {
		let blocks = w.nodes[1].blocks.lock().unwrap();
		blocks[blocks.len() - count as usize..]
			.iter()
			.map(|(b, h)| (*h, b.txdata.iter().filter(|t| !is_padding(t)).cloned().collect()))
			.collect()
	};
	assert_eq!(disc[0].0, r.fork_h + 1, "driver: block heights");
	r.disc_heights = disc.iter().map(|(h, _)| *h).collect();
	r.disc_txids = disc.iter().flat_map(|(_, v)| v.iter().map(|t| t.compute_txid().to_string())).collect();
	let style_before = *w.nodes[1].connect_style.borrow();
	let dstyle = match r.api {
		"listen_each" => ConnectStyle::FullBlockViaListen,
		"listen_once" => ConnectStyle::FullBlockDisconnectionsSkippingViaListen,
		"confirm_best_block" => ConnectStyle::BestBlockFirst,
		_ => ConnectStyle::TransactionsFirstReorgsOnlyTip,
	};
	// see the header comment on `regrow_style`
	let regrow_style = if r.api == "confirm_unconfirmed"
		&& !matches!(
			style_before,
			ConnectStyle::BestBlockFirst | ConnectStyle::BestBlockFirstSkippingBlocks | ConnectStyle::BestBlockFirstReorgsOnlyTip
		) {
		ConnectStyle::BestBlockFirst
	} else {
		style_before
	};
	r.style_before = format!("{:?}", style_before);
	r.disconnect_style = format!("{:?}", dstyle);
	r.regrow_style = format!("{:?}", regrow_style);
	// "shifted": one block later, two if the revoked commitment would land on the expiry of an HTLC B offered
	let commit_disc = disc.iter().find(|(_, v)| v.iter().any(|t| t.compute_txid() == chain.commit_txid)).map(|(h, _)| *h);
	r.shift = 1;
	if let Some(ch) = commit_disc {
		if chain.steer && chain.htlcs.iter().any(|(offered, cltv, _)| !*offered && *cltv == ch + 1) {
			r.shift = 2;
		}
	}
	{
		let mut rr = rec.borrow_mut();
		rr.reorg_json = Some(r.json());
		rr.doing = format!("reorg_disconnect: {} blocks from B height {} via {:?}", count, tip, dstyle);
	}
	*w.nodes[1].connect_style.borrow_mut() = dstyle;
	disconnect_blocks(&w.nodes[1], count);
	*w.nodes[1].connect_style.borrow_mut() = regrow_style;

	let all: Vec<Transaction> = disc.iter().flat_map(|(_, v)| v.iter().cloned()).collect();
	chain.unmine(&all);
	if r.regrow == "empty_then_driver" {
		// A's second-stage transactions are A's to confirm again, in their old order
		let back: Vec<Transaction> = chain
			.a_all
			.iter()
			.filter(|t| {
				let id = t.compute_txid();
				all.iter().any(|d| d.compute_txid() == id) && !chain.a_remaining.iter().any(|x| x.compute_txid() == id)
			})
			.cloned()
			.collect();
		chain.a_remaining.extend(back);
	}
	after_block(w, chain, rec, "reorg_disconnect", count, &[]);

	let mut first = true;
	match r.regrow {
		"same_txs_same_heights" => {
			for (_, txs) in disc.iter() {
				let h = regrow_block(w, chain, rec, txs.clone(), first);
				first = false;
				r.repl_heights.push(h);
			}
			let h = regrow_block(w, chain, rec, Vec::new(), false);
			r.repl_heights.push(h);
		},
		"shifted" => {
			for _ in 0..r.shift {
				let h = regrow_block(w, chain, rec, Vec::new(), first);
				first = false;
				r.repl_heights.push(h);
			}
			for (_, txs) in disc.iter() {
				let h = regrow_block(w, chain, rec, txs.clone(), false);
				r.repl_heights.push(h);
			}
		},
		_ => {
			let commit: Vec<Transaction> = all.iter().filter(|t| t.compute_txid() == chain.commit_txid).cloned().collect();
			let h = regrow_block(w, chain, rec, commit, true);
			r.repl_heights.push(h);
			while w.nodes[1].best_block_info().1 < tip + 1 {
				let h = regrow_block(w, chain, rec, Vec::new(), false);
				r.repl_heights.push(h);
			}
		},
	}
	*w.nodes[1].connect_style.borrow_mut() = style_before;
	chain.rebuild_b_pending();
	r.done = true;
	{
		let mut rr = rec.borrow_mut();
		rr.reorg_json = Some(r.json());
		rr.reorg_done = Some((r.target.to_string(), r.api.to_string(), r.fork_rel, r.regrow.to_string()));
	}
	chain.reorg = Some(r);
}

// ------------------------------------------------------------------------------------------
// the cheater's second-stage transactions
// ------------------------------------------------------------------------------------------
struct NullBroadcaster;
impl BroadcasterInterface for NullBroadcaster {
	fn broadcast_transactions(&self, _txs: &[(&Transaction, TransactionType)]) {}
}

/// The HTLC descriptors A's monitor hands out for the captured holder commitment (anchor-type
/// channels, where HTLC transactions are assembled outside the monitor): a copy of the monitor as
/// it was at capture time is shown its own commitment confirming, then empty blocks up to `upto`
/// (HTLC-timeout claims only appear once the HTLC has expired). Sorted by commitment output index.
fn a_descriptors(w: &World, cap: &Capture, upto: u32) -> Vec<HTLCDescriptor> {
	let bytes = match &cap.mon_bytes {
		Some(b) => b,
		None => return Vec::new(),
	};
	let km = w.nodes[0].keys_manager;
	let (_, m) = <(BlockLocator, ChannelMonitor<TestChannelSigner>)>::read(&mut &bytes[..], (km, km)).expect("A's monitor snapshot");
	let bb = m.current_best_block();
	let mut height = bb.height;
	let mut prev = bb.block_hash;
	let mut out: BTreeMap<u32, HTLCDescriptor> = BTreeMap::new();
	let mut first = true;
	let stop = upto.max(height + 1) + 1;
	while height < stop {
		height += 1;
		let header = create_dummy_header(prev, height);
		prev = header.block_hash();
		let txs: Vec<Transaction> = if first { vec![cap.txs[0].clone()] } else { Vec::new() };
		first = false;
		let txdata: Vec<(usize, &Transaction)> = txs.iter().enumerate().collect();
		let _ = m.block_connected(&header, &txdata, height, &NullBroadcaster, w.nodes[0].fee_estimator, &w.nodes[0].logger);
		let got: RefCell<Vec<Event>> = RefCell::new(Vec::new());
		let handler = |ev: Event| -> Result<(), lightning::events::ReplayEvent> {
			got.borrow_mut().push(ev);
			Ok(())
		};
		let _ = m.process_pending_events(&&handler, &w.nodes[0].logger);
		for ev in got.into_inner() {
			if let Event::BumpTransaction(BumpTransactionEvent::HTLCResolution { htlc_descriptors, .. }) = ev {
				for d in htlc_descriptors {
					out.entry(d.htlc.transaction_output_index.unwrap_or(u32::MAX)).or_insert(d);
				}
			}
		}
	}
	out.into_values().collect()
}

#[derive(Clone, Copy, PartialEq)]
enum Slot {
	/// index into the descriptor list
	H(usize),
	/// index into the fee utxo list
	F(usize),
}

struct SMeta {
	txid: Txid,
	htlc_inputs: Vec<usize>,
	fee_inputs: Vec<usize>,
	/// one letter per input in order: H = HTLC input, F = fee input
	fee_in_pos: String,
	/// per HTLC input: timeout | success
	kinds: Vec<&'static str>,
}

struct AWallet {
	secp: Secp256k1<bitcoin::secp256k1::All>,
	sk: SecretKey,
	pk: bitcoin::PublicKey,
	script: ScriptBuf,
}
impl AWallet {
	fn new() -> AWallet {
		let secp = Secp256k1::new();
		let sk = SecretKey::from_slice(&[0xa7; 32]).unwrap();
		let pk = bitcoin::PublicKey::new(sk.public_key(&secp));
		let script = ScriptBuf::new_p2wpkh(&pk.wpubkey_hash().unwrap());
		AWallet { secp, sk, pk, script }
	}
	/// A coinbase-like transaction paying `n` outputs of `value` sat to the wallet.
	fn funding(&self, n: usize, value: u64, tag: u32) -> Transaction {
		Transaction {
			version: Version::TWO,
			lock_time: LockTime::from_consensus(tag),
			input: vec![TxIn { sequence: Sequence::MAX, ..Default::default() }],
			output: (0..n).map(|_| TxOut { value: Amount::from_sat(value), script_pubkey: self.script.clone() }).collect(),
		}
	}
	fn sign_input(&self, tx: &mut Transaction, idx: usize, value: Amount) {
		let sighash = SighashCache::new(&*tx).p2wpkh_signature_hash(idx, &self.script, value, EcdsaSighashType::All).unwrap();
		let msg = Message::from_digest(sighash.to_byte_array());
		let sig = self.secp.sign_ecdsa(&msg, &self.sk);
		let mut der = sig.serialize_der().to_vec();
		der.push(EcdsaSighashType::All as u8);
		tx.input[idx].witness = Witness::from_slice(&[der, self.pk.to_bytes()]);
	}
}

const FEE_PER_FEE_INPUT: u64 = 2_000;

/// Assembles and signs one aggregated second-stage transaction of A: HTLC inputs (each with its
/// SIGHASH_SINGLE-paired output at the same index) and fee inputs in the order given by `slots`.
/// A fee input placed before the last HTLC input gets a change output at its own index; the fee
/// inputs after the last HTLC input share one change output at the very end iff `trailing_change`.
fn build_agg(
	w: &World, wallet: &AWallet, descs: &[HTLCDescriptor], slots: &[Slot], utxos: &[(OutPoint, TxOut)], trailing_change: bool,
	version: i32,
) -> (Transaction, SMeta) {
	let secp = &wallet.secp;
	let last_h = slots.iter().rposition(|s| matches!(s, Slot::H(_))).expect("at least one HTLC input");
	let mut locktime = 0u32;
	let mut tx = Transaction { version: Version(version), lock_time: LockTime::ZERO, input: Vec::new(), output: Vec::new() };
	let mut trailing = 0u64;
	let mut n_trailing = 0u64;
	for (idx, sl) in slots.iter().enumerate() {
		match sl {
			Slot::H(d) => {
				let desc = &descs[*d];
				if desc.htlc.offered {
					locktime = locktime.max(desc.htlc.cltv_expiry);
				}
				tx.input.push(desc.unsigned_tx_input());
				tx.output.push(desc.tx_output(secp));
			},
			Slot::F(u) => {
				let (op, out) = &utxos[*u];
				tx.input.push(TxIn { previous_output: *op, sequence: Sequence(0xffff_fffd), ..Default::default() });
				if idx < last_h {
					tx.output.push(TxOut { value: out.value - Amount::from_sat(FEE_PER_FEE_INPUT), script_pubkey: wallet.script.clone() });
				} else {
					trailing += out.value.to_sat();
					n_trailing += 1;
				}
			},
		}
	}
	if trailing_change && n_trailing > 0 {
		tx.output.push(TxOut { value: Amount::from_sat(trailing - n_trailing * FEE_PER_FEE_INPUT), script_pubkey: wallet.script.clone() });
	}
	tx.lock_time = LockTime::from_consensus(locktime);
	let mut meta = SMeta { txid: tx.compute_txid(), htlc_inputs: Vec::new(), fee_inputs: Vec::new(), fee_in_pos: String::new(), kinds: Vec::new() };
	for (idx, sl) in slots.iter().enumerate() {
		match sl {
			Slot::H(d) => {
				let desc = &descs[*d];
				let signer = w.nodes[0].keys_manager.derive_channel_signer(desc.channel_derivation_parameters.keys_id);
				let sig = signer.sign_holder_htlc_transaction(&tx, idx, desc, secp).expect("A signs its HTLC input");
				let ws = desc.witness_script(secp);
				tx.input[idx].witness = desc.tx_input_witness(&sig, &ws);
				meta.htlc_inputs.push(idx);
				meta.fee_in_pos.push('H');
				meta.kinds.push(if desc.htlc.offered { "timeout" } else { "success" });
			},
			Slot::F(u) => {
				let value = utxos[*u].1.value;
				wallet.sign_input(&mut tx, idx, value);
				meta.fee_inputs.push(idx);
				meta.fee_in_pos.push('F');
			},
		}
	}
	meta.txid = tx.compute_txid();
	(tx, meta)
}

/// The no-reorg twin: B's monitor as serialized at height `snap_h` is re-read and shown `blocks` (B's
/// final chain) above that height, whole blocks in order. Returns the JSON and the outpoints of all
/// spendable outputs it reported.
fn run_twin(w: &World, bytes: &[u8], snap_h: u32, blocks: &[(bitcoin::Block, u32)], rec: &Rc<RefCell<Rec>>) -> (String, Vec<String>) {
	rec.borrow_mut().doing = "twin: re-reading B's monitor".to_string();
	let km = w.nodes[1].keys_manager;
	let (_, m) = <(BlockLocator, ChannelMonitor<TestChannelSigner>)>::read(&mut &bytes[..], (km, km)).expect("B's monitor snapshot");
	let from = m.current_best_block().height;
	if from != snap_h {
		panic!("driver: B's monitor was at height {} when B's chain was at {}", from, snap_h);
	}
	let mut spendable: Vec<String> = Vec::new();
	let mut tip = from;
	for (b, h) in blocks.iter() {
		if *h <= from {
			continue;
		}
		rec.borrow_mut().doing = format!("twin: block at height {} ({} txs)", h, b.txdata.len());
		let txdata: Vec<(usize, &Transaction)> = b.txdata.iter().enumerate().collect();
		let _ = m.block_connected(&b.header, &txdata, *h, &NullBroadcaster, w.nodes[1].fee_estimator, &w.nodes[1].logger);
		let got: RefCell<Vec<Event>> = RefCell::new(Vec::new());
		let handler = |ev: Event| -> Result<(), lightning::events::ReplayEvent> {
			got.borrow_mut().push(ev);
			Ok(())
		};
		let _ = m.process_pending_events(&&handler, &w.nodes[1].logger);
		let mut here: Vec<String> = Vec::new();
		for ev in got.into_inner() {
			if let Event::SpendableOutputs { outputs, .. } = ev {
				for o in outputs.iter() {
					here.push(spendable_json(o, *h));
				}
			}
		}
		here.sort();
		spendable.extend(here);
		tip = *h;
	}
	rec.borrow_mut().doing = "twin: balances".to_string();
	let mut balances: Vec<String> = m.get_claimable_balances().iter().map(|b| format!("{:?}", b)).collect();
	balances.sort();
	let ops: Vec<String> = spendable.iter().filter_map(|s| json_str(s, "outpoint")).collect();
	(
		format!("{{\"from\":{},\"tip\":{},\"spendable\":{},\"balances\":{}}}", from, tip, jarr(&spendable), jstrs(&balances)),
		ops,
	)
}

/// Best guess at what a commitment output is, plus whether it pays the broadcaster (A).
fn output_kinds(tx: &Transaction, chan_type: &str, revokeable_vout: Option<u32>, htlc_vouts: &[u32]) -> Vec<String> {
	tx.output
		.iter()
		.enumerate()
		.map(|(i, o)| {
			let i = i as u32;
			let b = o.script_pubkey.as_bytes();
			let cheater = revokeable_vout == Some(i) || htlc_vouts.contains(&i);
			let kind = if b == [0x51, 0x02, 0x4e, 0x73] {
				"p2a"
			} else if b.len() == 22 && b[0] == 0 {
				"p2wpkh"
			} else if b.len() == 34 && b[0] == 0 {
				if !cheater && chan_type == "anchors" && o.value.to_sat() == 330 {
					"anchor"
				} else {
					"p2wsh"
				}
			} else {
				"other"
			};
			format!(
				"{{\"vout\":{},\"value\":{},\"script\":\"{}\",\"kind\":\"{}\",\"cheater_paying\":{},\"htlc\":{}}}",
				i,
				o.value.to_sat(),
				hex(b),
				kind,
				cheater,
				htlc_vouts.contains(&i)
			)
		})
		.collect()
}

fn bounded_est(w: &World) -> u32 {
	w.nodes[1].fee_estimator.get_est_sat_per_1000_weight(ConfirmationTarget::UrgentOnChainSweep).max(253)
}

fn shuffle<T>(v: &mut Vec<T>, rng: &mut Rng) {
	for i in (1..v.len()).rev() {
		let j = rng.below(i as u64 + 1) as usize;
		v.swap(i, j);
	}
}

// ------------------------------------------------------------------------------------------
// one scenario
// ------------------------------------------------------------------------------------------
fn run_scenario(seed: u64, k: u64, flags: &Flags, rec: &Rc<RefCell<Rec>>) {
	let mut rng = Rng(seed ^ k.wrapping_mul(0x9E3779B97F4A7C15));
	rec.borrow_mut().doing = "setup".to_string();

	// Everything the nodes borrow is leaked: reloads need fresh chain monitors / managers that
	// outlive `nodes`, and nothing here may run its test-suite Drop assertions.
	let mut cfgs_v = create_chanmon_cfgs(2);
	// A signs (at capture time only) states which it revokes later
	cfgs_v[0].keys_manager.disable_revocation_policy_check = true;
	let cfgs: &'static Vec<TestChanMonCfg> = Box::leak(Box::new(cfgs_v));
	let node_cfgs: &'static Vec<NodeCfg<'static>> = Box::leak(Box::new(create_node_cfgs(2, cfgs)));
	let chan_type: &'static str = match rng.below(10) {
		0..=3 => "legacy",
		4..=6 => "anchors",
		_ => "zfc",
	};
	rec.borrow_mut().chan_type = chan_type.to_string();
	let mut ucfg = test_legacy_channel_config(); // anchors off: HTLC transactions are pre-signed
	if chan_type != "legacy" {
		ucfg = test_default_channel_config();
		ucfg.channel_handshake_config.negotiate_anchors_zero_fee_htlc_tx = true;
		if chan_type == "zfc" {
			ucfg.channel_handshake_config.negotiate_anchor_zero_fee_commitments = true;
		}
	}
	let node_chanmgrs: &'static Vec<TestChannelManager<'static, 'static>> =
		Box::leak(Box::new(create_node_chanmgrs(2, node_cfgs, &[Some(ucfg.clone()), Some(ucfg)])));
	let nodes = create_network(2, node_cfgs, node_chanmgrs);
	// one Rc shared by all nodes
	*nodes[0].connect_style.borrow_mut() = ConnectStyle::BestBlockFirst;
	for n in nodes.iter() {
		let mut o = n.fee_estimator.target_override.lock().unwrap();
		o.insert(ConfirmationTarget::MinAllowedAnchorChannelRemoteFee, 253);
		o.insert(ConfirmationTarget::MinAllowedNonAnchorChannelRemoteFee, 253);
	}
	let ids = [nodes[0].node.get_our_node_id(), nodes[1].node.get_our_node_id()];
	let mut reserve_tx: Option<Transaction> = None;
	if chan_type != "legacy" {
		// wallets for the anchor / HTLC bumps (one block with a coinbase paying both wallets, on both chains)
		reserve_tx = Some(provide_anchor_reserves(&nodes));
	}
	let (_, _, chan_id, funding_tx) = create_announced_chan_between_nodes_with_value(&nodes, 0, 1, 1_000_000, 400_000_000);
	let fee0 = *cfgs[0].fee_estimator.sat_per_kw.lock().unwrap();

	let mut w = ManuallyDrop::new(World {
		nodes,
		cfgs,
		ids,
		chan_id,
		pay_ctr: 0,
		pending: Vec::new(),
		preimages: HashMap::new(),
		claimable_seen: HashSet::new(),
		fee: fee0,
		fee0,
		connected: true,
		rtquirk: flags.rtquirk,
		chan_type,
		captures: Vec::new(),
		known: HashMap::new(),
	});
	w.known.insert(funding_tx.compute_txid(), funding_tx.clone());
	if let Some(t) = reserve_tx.as_ref() {
		w.known.insert(t.compute_txid(), t.clone());
	}
	w.settle();
	for n in 0..2 {
		let _ = w.nodes[n].tx_broadcaster.txn_broadcast();
	}

	// ---------------- history ----------------
	let n_updates = 1 + rng.below(40);
	w.assert_in_sync();
	w.capture(0, false, rec);
	{
		let fo = w.captures[0].txs[0].input[0].previous_output;
		let val = funding_tx.output[fo.vout as usize].value.to_sat();
		rec.borrow_mut().funding = Some(format!("{{\"txid\":\"{}\",\"vout\":{},\"value\":{}}}", fo.txid, fo.vout, val));
	}
	let mut u = 0u64;
	while u < n_updates {
		u += 1;
		let j = w.update(u, &mut rng, false, rec);
		rec.borrow_mut().updates.push(j);
		w.assert_in_sync();
		w.capture(u, false, rec);
	}
	// at least one capture must be revoked by now
	let mut extra = 0;
	while !w.captures.iter().any(|c| c.number > w.a_number()) {
		extra += 1;
		if extra > 5 {
			panic!("driver: no revoked capture after extra updates");
		}
		u += 1;
		let j = w.update(u, &mut rng, true, rec);
		rec.borrow_mut().updates.push(j);
		w.assert_in_sync();
		w.capture(u, false, rec);
	}
	rec.borrow_mut().n_updates = u;
	rec.borrow_mut().doing = "mon_commitments".to_string();
	let (mc, mon_htlcs) = w.mon_commitments();
	rec.borrow_mut().mon_commitments = mc;

	// ---------------- the cheat ----------------
	let current = w.a_number();
	let revoked: Vec<usize> = (0..w.captures.len()).filter(|i| w.captures[*i].number > current).collect();
	// half of the time any revoked state, otherwise one that gives A second-stage transactions
	let with_htlcs: Vec<usize> = revoked.iter().copied().filter(|i| w.captures[*i].nondust_a2b >= 1 || w.captures[*i].mid).collect();
	let mids: Vec<usize> = revoked.iter().copied().filter(|i| w.captures[*i].mid).collect();
	let pool: &Vec<usize> = match rng.below(4) {
		0 | 1 => &revoked,
		2 if !with_htlcs.is_empty() => &with_htlcs,
		3 if !mids.is_empty() => &mids,
		3 if !with_htlcs.is_empty() => &with_htlcs,
		_ => &revoked,
	};
	let ci = pool[rng.below(pool.len() as u64) as usize];
	let cheat_txs: Vec<Transaction> = w.captures[ci].txs.clone();
	let cheat_number = w.captures[ci].number;
	let commit_tx = cheat_txs[0].clone();
	let commit_txid = commit_tx.compute_txid();
	let (cheated_rev_vout, cheated_htlcs): (Option<u32>, Vec<(bool, u32, u32)>) = mon_htlcs.get(&cheat_number).cloned().unwrap_or((None, Vec::new()));
	let legacy = chan_type == "legacy";

	// A's second-stage transactions
	rec.borrow_mut().doing = "building A's second-stage transactions".to_string();
	let max_offered_cltv = cheated_htlcs.iter().filter(|(o, _, _)| *o).map(|(_, c, _)| *c).max().unwrap_or(0);
	let descs: Vec<HTLCDescriptor> = if legacy || !flags.late { Vec::new() } else { a_descriptors(&w, &w.captures[ci], max_offered_cltv) };
	let n_cand = if legacy { cheat_txs.len() - 1 } else { descs.len() };
	let s_draws: Vec<bool> = (0..n_cand).map(|_| rng.below(2) == 0).collect();
	let wallet = AWallet::new();
	let mut metas: Vec<SMeta> = Vec::new();
	let mut s_txs: Vec<Transaction> = Vec::new();
	let mut s_skipped = 0u64;
	let mut fee_fund: Option<Transaction> = None;
	if flags.late && legacy {
		for (t, d) in cheat_txs[1..].iter().zip(s_draws.iter()) {
			if *d {
				metas.push(SMeta {
					txid: t.compute_txid(),
					htlc_inputs: vec![0],
					fee_inputs: Vec::new(),
					fee_in_pos: "H".to_string(),
					kinds: vec![if t.lock_time.to_consensus_u32() == 0 { "success" } else { "timeout" }],
				});
				s_txs.push(t.clone());
			}
		}
	} else if flags.late {
		let sel: Vec<usize> = (0..n_cand).filter(|i| s_draws[*i]).collect();
		if !sel.is_empty() {
			let fund = wallet.funding(8, 60_000, 7);
			let fund_txid = fund.compute_txid();
			w.known.insert(fund_txid, fund.clone());
			let utxos: Vec<(OutPoint, TxOut)> =
				fund.output.iter().enumerate().map(|(i, o)| (OutPoint { txid: fund_txid, vout: i as u32 }, o.clone())).collect();
			// B's SIGHASH_SINGLE|ANYONECANPAY signature commits to nLockTime: only HTLCs needing the same
			// locktime (0 for HTLC-success, the expiry for HTLC-timeout) can share a transaction
			let mut by_locktime: BTreeMap<u32, Vec<usize>> = BTreeMap::new();
			for d in sel {
				let lt = if descs[d].htlc.offered { descs[d].htlc.cltv_expiry } else { 0 };
				by_locktime.entry(lt).or_default().push(d);
			}
			let mut groups: Vec<Vec<usize>> = Vec::new();
			for (_, members) in by_locktime {
				let g = 1 + rng.below(members.len().min(2) as u64) as usize;
				let mut parts: Vec<Vec<usize>> = vec![Vec::new(); g];
				for d in members {
					parts[rng.below(g as u64) as usize].push(d);
				}
				groups.extend(parts.into_iter().filter(|p| !p.is_empty()));
			}
			groups.truncate(4);
			let mut next_utxo = 0usize;
			for grp in groups.into_iter() {
				let n = grp.len();
				// zero-fee-commitment HTLC transactions pay no fee themselves: they always come with a fee input
				let f = if chan_type == "zfc" { 1 + rng.below(2) } else { rng.below(3) };
				let mut slots: Vec<Slot> = grp.iter().map(|d| Slot::H(*d)).collect();
				for _ in 0..f {
					let u = next_utxo;
					next_utxo += 1;
					match rng.below(3) {
						0 => slots.insert(0, Slot::F(u)),
						1 if n >= 2 => {
							let first_h = slots.iter().position(|s| matches!(s, Slot::H(_))).unwrap();
							let last_h = slots.iter().rposition(|s| matches!(s, Slot::H(_))).unwrap();
							let at = first_h + 1 + rng.below((last_h - first_h) as u64) as usize;
							slots.insert(at, Slot::F(u));
						},
						_ => slots.push(Slot::F(u)),
					}
				}
				let trailing_change = rng.below(2) == 0;
				let version = if chan_type == "zfc" { 3 } else { 2 };
				let (tx, meta) = build_agg(&w, &wallet, &descs, &slots, &utxos, trailing_change, version);
				w.known.insert(tx.compute_txid(), tx.clone());
				match tx.verify(|op: &OutPoint| prevout_of(&w.known, op)) {
					Ok(()) => {
						metas.push(meta);
						s_txs.push(tx);
					},
					Err(_) => s_skipped += 1,
				}
			}
			fee_fund = Some(fund);
		}
	}
	let timing_draw = rng.below(20);
	let later_gap = 2 + rng.below(5) as u32;
	let age_draw = rng.below(4);
	let reload_draw = rng.below(2) == 0;
	let style_draw = rng.below(11);
	let single_draw = rng.below(2) == 0;
	// the reorg plan: always six draws, so that everything after them is the same with and without a plan
	let mut reorg_plan: Option<Reorg> = None;
	if flags.reorg {
		let on = rng.below(3) != 0;
		let target = match rng.below(7) {
			0 => "commitment",
			1..=3 => "justice",
			4 => "cheater_htlc",
			_ => "second_stage_justice",
		};
		let k = rng.below(6) as u32;
		let fork_rel_drawn = rng.below(3) as i32 - 1;
		let api = match rng.below(10) {
			0..=2 => "listen_each",
			3..=5 => "listen_once",
			6 | 7 => "confirm_best_block",
			_ => "confirm_unconfirmed",
		};
		let regrow = ["same_txs_same_heights", "shifted", "empty_then_driver"][rng.below(3) as usize];
		if on {
			// without second-stage transactions of A there is nothing of that kind to wait for
			let eff = if s_txs.is_empty() && (target == "cheater_htlc" || target == "second_stage_justice") { "justice" } else { target };
			reorg_plan = Some(Reorg {
				target: eff,
				target_drawn: target,
				k,
				fork_rel_drawn,
				api,
				regrow,
				tracked: None,
				started: false,
				done: false,
				fork_rel: 0,
				depth_capped: false,
				tip_before: 0,
				fork_h: 0,
				shift: 0,
				disc_heights: Vec::new(),
				disc_txids: Vec::new(),
				repl_heights: Vec::new(),
				style_before: String::new(),
				disconnect_style: String::new(),
				regrow_style: String::new(),
			});
		}
	}
	let timing = if s_txs.is_empty() {
		"none"
	} else if chan_type == "anchors" {
		// HTLC inputs carry a CSV of 1: never in the commitment's own block
		match timing_draw {
			0..=6 => "next_block",
			7..=13 => "later",
			_ => "race",
		}
	} else {
		match timing_draw {
			0..=8 => "same_block",
			9..=11 => "next_block",
			12..=14 => "later",
			_ => "race",
		}
	};
	let age_wanted = timing == "same_block" || if timing == "race" { age_draw < 2 } else { age_draw < 3 };
	{
		let htlc_vouts: Vec<u32> = cheated_htlcs.iter().map(|(_, _, v)| *v).collect();
		let outs = output_kinds(&commit_tx, chan_type, cheated_rev_vout, &htlc_vouts);
		let mut r = rec.borrow_mut();
		r.age = Some(cheat_number - current);
		r.s_len = Some(s_txs.len() as u64);
		r.s_timing = Some(timing);
		r.s_skipped = s_skipped;
		r.both_dirs = w.captures[ci].nondust_a2b >= 1 && w.captures[ci].nondust_b2a >= 1;
		r.cheat_htlcs = (w.captures[ci].nondust_a2b, w.captures[ci].nondust_b2a);
		r.mid_cheat = w.captures[ci].mid;
		r.fee_in_pos = metas.iter().map(|m| m.fee_in_pos.clone()).collect();
		r.cheat = Some(format!(
			"{{\"capture\":{},\"number\":{},\"current_number\":{},\"txid\":\"{}\",\"S\":{},\"timing\":\"{}\",\"later_gap\":{},\"S_unverifiable_skipped\":{},\"outputs\":{}}}",
			ci,
			cheat_number,
			current,
			commit_txid,
			jstrs(&s_txs.iter().map(|t| t.compute_txid().to_string()).collect::<Vec<_>>()),
			timing,
			if timing == "later" { later_gap } else { 0 },
			s_skipped,
			jarr(&outs)
		));
	}

	if flags.reload && reload_draw {
		rec.borrow_mut().doing = "reload before the cheat".to_string();
		if let Err(e) = w.reload_b() {
			panic!("reload of B failed: {}", e);
		}
		let mut r = rec.borrow_mut();
		r.reloaded = true;
		r.reloads += 1;
	}

	// Styles that hand a block over exactly once get at least half of the same-block scenarios
	let style = if !flags.styles {
		ConnectStyle::BestBlockFirst
	} else if timing == "same_block" && single_draw {
		[ConnectStyle::BestBlockFirst, ConnectStyle::TransactionsFirst, ConnectStyle::FullBlockViaListen][(style_draw % 3) as usize]
	} else {
		style_from(style_draw)
	};
	*w.nodes[1].connect_style.borrow_mut() = style;
	rec.borrow_mut().style = format!("{:?}", style);

	let mut chain = Chain {
		conf: HashMap::new(),
		pos: HashMap::new(),
		spent: HashMap::new(),
		b_pending: Vec::new(),
		b_seen: HashSet::new(),
		a_remaining: s_txs.clone(),
		cheat_txids: cheat_txs.iter().chain(s_txs.iter()).map(|t| t.compute_txid()).collect(),
		commit_txid,
		g_inputs: Vec::new(),
		g_cluster_offered: false,
		steer: !flags.rtquirk,
		held_back: Vec::new(),
		claims: HashMap::new(),
		claims_retired: Vec::new(),
		unmined: HashSet::new(),
		b_all: Vec::new(),
		a_all: s_txs.clone(),
		htlcs: cheated_htlcs.clone(),
		pinnable: 0,
		reorg: reorg_plan,
		deep_reorg: flags.deepreorg,
	};
	rec.borrow_mut().reorg_json = chain.reorg.as_ref().map(|r| r.json());
	// the funding transaction confirmed long ago
	chain.conf.insert(funding_tx.compute_txid(), 1);
	if let Some(t) = reserve_tx.as_ref() {
		chain.conf.insert(t.compute_txid(), 1);
	}
	if let Some(fund) = fee_fund.clone() {
		// the wallet outputs A attaches to its second-stage transactions
		mine(&mut w, &mut chain, rec, "fund", vec![fund]);
	}

	// A may wait until its HTLC-timeout transactions are final before it cheats
	let h0 = w.nodes[1].best_block_info().1;
	let need = s_txs.iter().filter(|t| !Chain::final_at(t, h0 + 1)).map(|t| t.lock_time.to_consensus_u32()).max();
	if let Some(need) = need {
		if age_wanted && need < 500_000_000 {
			rec.borrow_mut().aged = true;
			let mut left = need - h0;
			while left > 0 {
				let n = left.min(25);
				empty_blocks(&mut w, &mut chain, rec, "age", n);
				left -= n;
			}
		}
	}

	// The test-only TestChainMonitor asserts after every ChannelMonitorUpdate that the monitor equals its
	// serialization round trip. Two artefacts of `PackageTemplate::read` break that equality on a healthy
	// monitor (`rtquirk` disables the driver's steering around them, to reproduce):
	//  (1) it resets `counterparty_spendable_height` to 0 for a package holding a revoked HTLC output B
	//      offered (`!htlc.offered`) whose cltv_expiry equals that height (a fix-up for data written by
	//      LDK <= 0.1). The height of such a package is the confirmation height of the revoked commitment,
	//      or, once merged with packages of HTLCs A offered (which happens when those expire within
	//      COUNTERPARTY_CLAIMABLE_WITHIN_BLOCKS_PINNABLE), the smallest expiry among them.
	//      `PackageTemplate::eq` tolerates the reset under cfg(test) only, which an external harness does
	//      not have. The driver keeps the expiries of the two directions apart (even/odd, see `send`) and
	//      does not let the revoked commitment confirm exactly at the expiry of an HTLC B offered in it.
	//  (2) it recomputes `malleability` (pinnable / unpinnable cluster) from the FIRST input of a package,
	//      while in memory a merged package keeps the cluster of the input it was merged into, and a
	//      package split off it inherits that cluster. When HTLCs of both directions were merged into one
	//      justice package (A's offered HTLCs close to expiry) and A then confirms a second-stage
	//      transaction spending one of its inputs, the split-off / remaining packages differ from their
	//      round trip. The driver predicts that package (`Chain::g_inputs`: the HTLCs B offered plus the
	//      HTLCs A offered that expire within the pinnable window at the confirmation height, lowest
	//      output index first, the others in descending order) and lets A hold back a second-stage
	//      transaction exactly when confirming it would produce such a difference (`S_held_back` in the
	//      output).
	let pinnable = vh::timing_constants()
		.into_iter()
		.find(|(k, _)| *k == "COUNTERPARTY_CLAIMABLE_WITHIN_BLOCKS_PINNABLE")
		.map(|(_, v)| v as u32)
		.unwrap_or(12);
	chain.pinnable = pinnable;
	if !flags.rtquirk {
		let bad: Vec<u32> = cheated_htlcs.iter().filter(|(offered, _, _)| !*offered).map(|(_, c, _)| *c).collect();
		while bad.contains(&(w.nodes[1].best_block_info().1 + 1)) {
			empty_blocks(&mut w, &mut chain, rec, "skip", 1);
		}
		let h1 = w.nodes[1].best_block_info().1 + 1;
		let (g, cluster) = chain.g_for(h1);
		chain.g_inputs = g;
		chain.g_cluster_offered = cluster;
	}

	// block 1: the revoked commitment (+ A's second-stage transactions, in a random order)
	let h1 = w.nodes[1].best_block_info().1 + 1;
	let mut block = vec![commit_tx.clone()];
	if timing == "same_block" {
		let mut order = s_txs.clone();
		shuffle(&mut order, &mut rng);
		chain.take_a(&order, h1, &mut block);
	}
	{
		let mut r = rec.borrow_mut();
		r.s_early += (block.len() - 1) as u64;
		r.s_same_block = (block.len() - 1) as u64;
	}
	// the no-reorg twin starts from B's monitor as it is now
	let twin_snap: Option<(Vec<u8>, u32)> = if flags.reorg {
		Some((w.nodes[1].chain_monitor.chain_monitor.get_monitor(w.chan_id).unwrap().encode(), w.nodes[1].best_block_info().1))
	} else {
		None
	};
	mine(&mut w, &mut chain, rec, "cheat", block);
	if timing == "next_block" || timing == "later" {
		if timing == "later" {
			empty_blocks(&mut w, &mut chain, rec, "gap", later_gap - 1);
		}
		let h2 = w.nodes[1].best_block_info().1 + 1;
		let mut block: Vec<Transaction> = Vec::new();
		chain.take_a(&s_txs, h2, &mut block);
		if !block.is_empty() {
			rec.borrow_mut().s_early += block.len() as u64;
			mine(&mut w, &mut chain, rec, "cheat2", block);
		}
	}

	// ---------------- fee trajectory while B's claims stay unconfirmed ----------------
	let traj_draw = rng.below(6);
	let delay_draw = rng.below(10);
	if flags.fees {
		let traj = ["flat", "x2", "x5", "x20", "collapse", "ramp"][traj_draw as usize];
		let delay: u64 = match delay_draw {
			0..=3 => 0,
			4 | 5 => 16,
			6 | 7 => 35,
			8 => 60,
			_ => 100,
		};
		let base = *w.cfgs[1].fee_estimator.sat_per_kw.lock().unwrap() as u64;
		let t0 = 1 + rng.below(delay.max(1));
		let t1 = t0 + 5 + rng.below(20);
		let est_at = |i: u64| -> u32 {
			let v = match traj {
				"x2" if i >= t0 => base * 2,
				"x5" if i >= t0 => base * 5,
				"x20" if i >= t0 => base * 20,
				"collapse" if i >= t1 => 253,
				"collapse" if i >= t0 => base * 10,
				"ramp" => {
					let mut v = base;
					for _ in 0..i.min(20) {
						v = v * 13 / 10;
					}
					v.min(base * 40)
				},
				_ => base,
			};
			v as u32
		};
		{
			let mut r = rec.borrow_mut();
			r.fee_traj = traj.to_string();
			r.fee_delay = delay;
		}
		for i in 1..=delay {
			*w.cfgs[1].fee_estimator.sat_per_kw.lock().unwrap() = est_at(i);
			empty_blocks(&mut w, &mut chain, rec, "delay", 1);
		}
		*w.cfgs[1].fee_estimator.sat_per_kw.lock().unwrap() = est_at(delay + 1);
	}

	// ---------------- drive to the end ----------------
	// (a reorg that starts during the burial sends the driver through both phases once more)
	let mut passes = 0;
	loop {
		passes += 1;
		let mut finished = false;
		for _round in 0..60 {
			if rng.below(3) == 0 {
				// mostly 1-3 blocks; now and then a long stall, so that the slow (15 block) bump timer of the
				// claim on A's balance output fires as well
				let n = if rng.below(5) == 0 { 10 + rng.below(11) as u32 } else { 1 + rng.below(3) as u32 };
				if rng.below(4) == 0 {
					rec.borrow_mut().doing = "rebroadcast_pending_claims".to_string();
					w.nodes[1].chain_monitor.chain_monitor.rebroadcast_pending_claims();
				}
				empty_blocks(&mut w, &mut chain, rec, "idle", n);
			}
			if flags.reload && rng.below(8) == 0 {
				rec.borrow_mut().doing = "reload between blocks".to_string();
				if let Err(e) = w.reload_b() {
					panic!("reload of B failed: {}", e);
				}
				let mut r = rec.borrow_mut();
				r.reloaded = true;
				r.reloads += 1;
			}
			let h = w.nodes[1].best_block_info().1 + 1;
			let a_cands: Vec<Transaction> = {
				let rem = chain.a_remaining.clone();
				let mut ok = Vec::new();
				for t in rem.iter() {
					// each candidate on its own
					let mut one = Vec::new();
					if chain.take_a(std::slice::from_ref(t), h, &mut one) == 1 {
						ok.push(t.clone());
					}
				}
				ok
			};
			let a_turn = flags.late && !a_cands.is_empty() && rng.below(4) == 0;
			let block = if a_turn {
				rec.borrow_mut().s_race_won += 1;
				vec![a_cands[rng.below(a_cands.len() as u64) as usize].clone()]
			} else {
				chain.select_b(h)
			};
			if block.is_empty() {
				if chain.b_pending.is_empty() {
					finished = true;
					break;
				}
				empty_blocks(&mut w, &mut chain, rec, "wait", 1);
				continue;
			}
			mine(&mut w, &mut chain, rec, if a_turn { "a_wins" } else { "drive" }, block);
		}
		rec.borrow_mut().exhausted = !finished;

		// ---------------- burial ----------------
		let started_before = chain.reorg.as_ref().map(|r| r.started).unwrap_or(false);
		for _ in 0..20 {
			empty_blocks(&mut w, &mut chain, rec, "final", 10);
			let h = w.nodes[1].best_block_info().1 + 1;
			let block = chain.select_b(h);
			if !block.is_empty() {
				mine(&mut w, &mut chain, rec, "final_mine", block);
			}
		}

		let started_now = chain.reorg.as_ref().map(|r| r.started).unwrap_or(false);
		if passes == 2 || started_before || !started_now {
			break;
		}
	}
	if flags.reorg {
		// whatever is left of B's, then enough blocks on top of the last confirmation for everything to mature
		for _ in 0..40 {
			let tip = w.nodes[1].best_block_info().1;
			let block = chain.select_b(tip + 1);
			if !block.is_empty() {
				mine(&mut w, &mut chain, rec, "final_mine", block);
				continue;
			}
			// (height 1 stands for the funding transaction and the wallet reserves)
			let mut need = chain.conf.values().filter(|h| **h > 1).map(|h| *h + ANTI_REORG_DELAY + 1).max().unwrap_or(0);
			let csv = w
				.known
				.iter()
				.filter(|(id, _)| chain.conf.contains_key(*id))
				.flat_map(|(_, t)| t.input.iter().map(move |i| (t.version.0, i.sequence.0)))
				.filter(|(v, s)| *v >= 2 && s & (1 << 31) == 0 && s & (1 << 22) == 0)
				.map(|(_, s)| s & 0xffff)
				.max()
				.unwrap_or(0);
			need += csv;
			if tip >= need {
				break;
			}
			empty_blocks(&mut w, &mut chain, rec, "final", need - tip);
		}
	}

	// ---------------- summary ----------------
	rec.borrow_mut().doing = "summary".to_string();
	{
		// A's transactions that lost their input to one of B's transactions
		let lost = s_txs
			.iter()
			.filter(|t| {
				!chain.conf.contains_key(&t.compute_txid())
					&& t.input.iter().any(|i| chain.spent.get(&i.previous_output).map(|by| chain.b_seen.contains(by)).unwrap_or(false))
			})
			.count() as u64;
		rec.borrow_mut().s_lost = lost;
	}
	// what nothing spent on the simulated chain: outputs of the revoked commitment and of A's confirmed
	// second-stage transactions. `owed_to_b` marks the ones a complete punishment must have taken:
	// A's balance output, HTLC outputs, and second-stage outputs paired with an HTLC input.
	let htlc_vouts: Vec<u32> = cheated_htlcs.iter().map(|(_, _, v)| *v).collect();
	let mut unspent = Vec::new();
	let mut owed_unspent = 0u64;
	for (vout, o) in commit_tx.output.iter().enumerate() {
		let op = OutPoint { txid: commit_txid, vout: vout as u32 };
		if !chain.spent.contains_key(&op) {
			let owed = cheated_rev_vout == Some(vout as u32) || htlc_vouts.contains(&(vout as u32));
			owed_unspent += owed as u64;
			unspent.push(format!(
				"{{\"outpoint\":\"{}:{}\",\"value\":{},\"script\":\"{}\",\"of\":\"commitment\",\"owed_to_b\":{}}}",
				commit_txid,
				vout,
				o.value.to_sat(),
				hex(o.script_pubkey.as_bytes()),
				owed
			));
		}
	}
	let mut s_json = Vec::new();
	for (t, m) in s_txs.iter().zip(metas.iter()) {
		let txid = t.compute_txid();
		let conf = chain.conf.get(&txid).copied();
		if conf.is_some() {
			for (vout, o) in t.output.iter().enumerate() {
				let op = OutPoint { txid, vout: vout as u32 };
				if !chain.spent.contains_key(&op) {
					let owed = m.htlc_inputs.contains(&vout);
					owed_unspent += owed as u64;
					unspent.push(format!(
						"{{\"outpoint\":\"{}:{}\",\"value\":{},\"script\":\"{}\",\"of\":\"second_stage\",\"owed_to_b\":{}}}",
						txid,
						vout,
						o.value.to_sat(),
						hex(o.script_pubkey.as_bytes()),
						owed
					));
				}
			}
		}
		let extra = format!(
			"\"htlc_inputs\":[{}],\"fee_inputs\":[{}],\"fee_in_pos\":\"{}\",\"kinds\":{},\"conf_height\":{},\"pos_in_block\":{},\"same_block_as_commitment\":{}",
			m.htlc_inputs.iter().map(|i| i.to_string()).collect::<Vec<_>>().join(","),
			m.fee_inputs.iter().map(|i| i.to_string()).collect::<Vec<_>>().join(","),
			m.fee_in_pos,
			jstrs(&m.kinds.iter().map(|k| k.to_string()).collect::<Vec<_>>()),
			conf.map(|h| h.to_string()).unwrap_or_else(|| "null".to_string()),
			chain.pos.get(&txid).map(|p| p.to_string()).unwrap_or_else(|| "null".to_string()),
			conf.is_some() && conf == chain.conf.get(&commit_txid).copied()
		);
		debug_assert_eq!(m.txid, txid);
		s_json.push(tx_facts(t, &w.known, &extra).json);
	}
	let mut claim_stats: Vec<(u64, u64, u64)> = chain.claims.values().map(|c| (c.1, c.2, c.3)).collect();
	claim_stats.extend(chain.claims_retired.iter().cloned());
	claim_stats.sort();
	let fb = balances_b(&w);
	if let Some((bytes, snap_h)) = twin_snap.as_ref() {
		// B's final chain from the revoked commitment's first confirmation attempt on
		let s_ids: HashSet<Txid> = s_txs.iter().map(|t| t.compute_txid()).collect();
		let blocks = w.nodes[1].blocks.lock().unwrap().clone();
		let mut confirmed = Vec::new();
		for (b, h) in blocks.iter() {
			if *h < h1 {
				continue;
			}
			for t in b.txdata.iter().filter(|t| !is_padding(t)) {
				let txid = t.compute_txid();
				let mine = if txid == commit_txid || s_ids.contains(&txid) {
					"A"
				} else if chain.b_seen.contains(&txid) {
					"B"
				} else {
					"other"
				};
				confirmed.push(format!("{{\"txid\":\"{}\",\"height\":{},\"mine\":\"{}\"}}", txid, h, mine));
			}
		}
		let tip = blocks.last().map(|(_, h)| *h).unwrap_or(0);
		rec.borrow_mut().final_chain = Some(format!("{{\"tip\":{},\"confirmed\":{}}}", tip, jarr(&confirmed)));
		let (json, ops) = run_twin(&w, bytes, *snap_h, &blocks, rec);
		let mut r = rec.borrow_mut();
		r.twin = Some(json);
		r.twin_outpoints = Some(ops);
		r.doing = "summary".to_string();
	}
	let mut r = rec.borrow_mut();
	r.held_back = chain.held_back.clone();
	r.unspent = unspent;
	r.owed_unspent = owed_unspent;
	r.s_txs = s_json;
	r.claim_stats = claim_stats;
	r.final_balances = Some(fb);
	// ManuallyDrop: never run Node::drop (test-suite expectations do not apply here)
}

// ------------------------------------------------------------------------------------------
// main
// ------------------------------------------------------------------------------------------
thread_local! {
	static LAST_PANIC: RefCell<String> = RefCell::new(String::new());
}

#[derive(Default)]
struct Stats {
	scenarios: u64,
	panics: u64,
	updates: BTreeMap<u64, u64>,
	kinds: BTreeMap<String, u64>,
	age: BTreeMap<u64, u64>,
	s_len: BTreeMap<u64, u64>,
	s_timing: BTreeMap<String, u64>,
	styles: BTreeMap<String, u64>,
	reloaded: u64,
	reloads: u64,
	aged: u64,
	justice: BTreeMap<u64, u64>,
	b_txs: u64,
	rebroadcasts: u64,
	verify_fail: u64,
	both_dirs: u64,
	old_states: u64,
	mid_cheat: u64,
	s_early_scen: u64,
	s_lost_scen: u64,
	s_race_won_scen: u64,
	s_early: u64,
	s_lost: u64,
	s_race_won: u64,
	exhausted: u64,
	held_back: u64,
	chan_types: BTreeMap<String, u64>,
	/// chan_type / timing / |S| / fee_in_pos patterns
	s_shape: BTreeMap<String, u64>,
	same_block_styles: BTreeMap<String, u64>,
	same_block_mined: u64,
	traj: BTreeMap<String, u64>,
	bumps_per_claim: BTreeMap<u64, u64>,
	max_ratio: BTreeMap<String, u64>,
	viol_monotone: u64,
	viol_follow: u64,
	s_skipped: u64,
	bump_events: u64,
	owed_unspent: u64,
	drained: u64,
	not_drained: u64,
	reorg_planned: u64,
	reorg_done: u64,
	reorg_target: BTreeMap<String, u64>,
	reorg_api: BTreeMap<String, u64>,
	reorg_fork_rel: BTreeMap<String, u64>,
	reorg_regrow: BTreeMap<String, u64>,
	twins: u64,
	twin_mismatch: u64,
	spendable_dup: u64,
}

fn bucket(x: u64) -> u64 {
	match x {
		0..=5 => x,
		6..=10 => 10,
		11..=20 => 20,
		21..=30 => 30,
		_ => 40,
	}
}

fn run_one(seed: u64, k: u64, flags: &Flags, stats: &mut Stats) {
	let rec = Rc::new(RefCell::new(Rec::default()));
	LAST_PANIC.with(|p| p.borrow_mut().clear());
	let r = panic::catch_unwind(AssertUnwindSafe(|| run_scenario(seed, k, flags, &rec)));
	let panic_msg = match r {
		Ok(()) => None,
		Err(_) => {
			let m = LAST_PANIC.with(|p| p.borrow().clone());
			let doing = match rec.try_borrow() {
				Ok(r) => r.doing.clone(),
				Err(_) => String::new(),
			};
			Some(format!("{} [while: {}]", m, doing))
		},
	};
	// a panic may have happened while the record was mutably borrowed
	let rec = match Rc::try_unwrap(rec) {
		Ok(c) => c.into_inner(),
		Err(rc) => {
			let taken = match rc.try_borrow_mut() {
				Ok(mut g) => std::mem::take(&mut *g),
				Err(_) => Rec::default(),
			};
			taken
		},
	};
	let r = rec;
	println!(
		"R {{\"k\":{},\"seed\":{},\"flags\":{},\"panic\":{},\"chan_type\":{},\"style\":{},\"reloaded\":{},\"reloads\":{},\"aged\":{},\"exhausted\":{},\"updates\":{},\"captures\":{},\"mon_commitments\":{},\"cheat\":{},\"S_txs\":{},\"S_held_back\":{},\"fee_trajectory\":{},\"fee_delay\":{},\"conf_target\":\"UrgentOnChainSweep\",\"conf_target_feerates\":{},\"fee_violations\":{{\"not_monotone\":{},\"below_estimate\":{},\"notes\":{}}},\"funding\":{},\"blocks\":{},\"spendable\":{},\"unspent\":{},\"owed_unspent\":{},\"final_balances\":{},\"reorg\":{},\"final_chain\":{},\"twin\":{}}}",
		k,
		seed,
		js(&flags.raw),
		jopt(&panic_msg),
		js(&r.chan_type),
		js(&r.style),
		r.reloaded,
		r.reloads,
		r.aged,
		r.exhausted,
		jarr(&r.updates),
		jarr(&r.captures),
		jarr(&r.mon_commitments),
		r.cheat.clone().unwrap_or_else(|| "null".to_string()),
		jarr(&r.s_txs),
		jstrs(&r.held_back),
		js(&r.fee_traj),
		r.fee_delay,
		jarr(&r.conf_feerates.iter().map(|(h, e)| format!("[{},{}]", h, e)).collect::<Vec<_>>()),
		r.viol_monotone,
		r.viol_follow,
		jstrs(&r.viol_notes),
		r.funding.clone().unwrap_or_else(|| "null".to_string()),
		jarr(&r.blocks),
		jarr(&r.spendable),
		jarr(&r.unspent),
		r.owed_unspent,
		match &r.final_balances {
			Some(v) => jstrs(v),
			None => "null".to_string(),
		},
		r.reorg_json.clone().unwrap_or_else(|| "null".to_string()),
		r.final_chain.clone().unwrap_or_else(|| "null".to_string()),
		r.twin.clone().unwrap_or_else(|| "null".to_string())
	);
	stats.scenarios += 1;
	if r.reorg_json.is_some() {
		stats.reorg_planned += 1;
	}
	if let Some((target, api, fork_rel, regrow)) = r.reorg_done.as_ref() {
		stats.reorg_done += 1;
		*stats.reorg_target.entry(target.clone()).or_insert(0) += 1;
		*stats.reorg_api.entry(api.clone()).or_insert(0) += 1;
		*stats.reorg_fork_rel.entry(format!("{:+}", fork_rel)).or_insert(0) += 1;
		*stats.reorg_regrow.entry(regrow.clone()).or_insert(0) += 1;
	}
	{
		let mut live: Vec<String> = r.spendable.iter().filter_map(|s| json_str(s, "outpoint")).collect();
		live.sort();
		let dup = live.windows(2).any(|p| p[0] == p[1]);
		let mut mismatch = false;
		if let Some(t) = r.twin_outpoints.as_ref() {
			stats.twins += 1;
			let mut t = t.clone();
			t.sort();
			mismatch = t != live;
		}
		stats.twin_mismatch += mismatch as u64;
		stats.spendable_dup += dup as u64;
		if mismatch || dup {
			eprintln!(
				"h_justice: ANOMALY replay={{\"seed\":{},\"k\":{},\"flags\":\"{}\"}} chan_type={} style={} twin_mismatch={} spendable_dup={} live_spendable={} twin_spendable={} reorg={}",
				seed,
				k,
				flags.raw,
				r.chan_type,
				r.style,
				mismatch,
				dup,
				live.len(),
				r.twin_outpoints.as_ref().map(|t| t.len() as i64).unwrap_or(-1),
				match r.reorg_done.as_ref() {
					Some((target, api, fork_rel, regrow)) => format!("{}/{}/{:+}/{}", target, api, fork_rel, regrow),
					None => "none".to_string(),
				}
			);
		}
	}
	stats.panics += panic_msg.is_some() as u64;
	if let Some(m) = &panic_msg {
		eprintln!("h_justice: PANIC replay={{\"seed\":{},\"k\":{},\"flags\":\"{}\"}} {}", seed, k, flags.raw, m);
	}
	*stats.updates.entry(bucket(r.n_updates)).or_insert(0) += 1;
	for kd in r.kinds.iter() {
		*stats.kinds.entry(kd.clone()).or_insert(0) += 1;
	}
	if let Some(a) = r.age {
		*stats.age.entry(bucket(a)).or_insert(0) += 1;
		if a >= 5 {
			stats.old_states += 1;
		}
	}
	if let Some(s) = r.s_len {
		*stats.s_len.entry(s).or_insert(0) += 1;
	}
	if let Some(t) = r.s_timing {
		*stats.s_timing.entry(t.to_string()).or_insert(0) += 1;
	}
	if !r.style.is_empty() {
		*stats.styles.entry(r.style.clone()).or_insert(0) += 1;
	}
	stats.reloaded += r.reloaded as u64;
	stats.reloads += r.reloads;
	stats.aged += r.aged as u64;
	*stats.justice.entry(bucket(r.justice)).or_insert(0) += 1;
	stats.b_txs += r.b_txs;
	stats.rebroadcasts += r.rebroadcasts;
	stats.verify_fail += r.verify_fail;
	stats.both_dirs += r.both_dirs as u64;
	stats.mid_cheat += r.mid_cheat as u64;
	stats.s_early += r.s_early;
	stats.s_lost += r.s_lost;
	stats.s_race_won += r.s_race_won;
	stats.s_early_scen += (r.s_early > 0) as u64;
	stats.s_lost_scen += (r.s_lost > 0) as u64;
	stats.s_race_won_scen += (r.s_race_won > 0) as u64;
	stats.exhausted += r.exhausted as u64;
	stats.held_back += (!r.held_back.is_empty()) as u64;
	*stats.chan_types.entry(r.chan_type.clone()).or_insert(0) += 1;
	if let (Some(t), Some(n)) = (r.s_timing, r.s_len) {
		if n > 0 {
			let mut pos = r.fee_in_pos.clone();
			pos.sort();
			*stats.s_shape.entry(format!("{}/{}/{}/{}", r.chan_type, t, n, pos.join("+"))).or_insert(0) += 1;
		}
		if t == "same_block" {
			*stats.same_block_styles.entry(r.style.clone()).or_insert(0) += 1;
			stats.same_block_mined += (r.s_same_block > 0) as u64;
		}
	}
	if !r.fee_traj.is_empty() {
		*stats.traj.entry(format!("{}/D{}", r.fee_traj, r.fee_delay)).or_insert(0) += 1;
	}
	for (bumps, first, max) in r.claim_stats.iter() {
		*stats.bumps_per_claim.entry(bucket(*bumps)).or_insert(0) += 1;
		let ratio = if *first > 0 { max * 10 / first } else { 10 };
		let b = match ratio {
			0..=10 => "1.0",
			11..=15 => "<=1.5",
			16..=20 => "<=2",
			21..=50 => "<=5",
			51..=100 => "<=10",
			101..=200 => "<=20",
			_ => ">20",
		};
		*stats.max_ratio.entry(b.to_string()).or_insert(0) += 1;
	}
	stats.viol_monotone += r.viol_monotone;
	stats.viol_follow += r.viol_follow;
	stats.s_skipped += r.s_skipped;
	stats.bump_events += r.bump_events_handled;
	stats.owed_unspent += (r.owed_unspent > 0) as u64;
	if r.owed_unspent > 0 || r.viol_monotone > 0 || r.viol_follow > 0 {
		eprintln!(
			"h_justice: ANOMALY replay={{\"seed\":{},\"k\":{},\"flags\":\"{}\"}} chan_type={} style={} timing={} owed_unspent={} fee_not_monotone={} fee_below_estimate={} {}",
			seed,
			k,
			flags.raw,
			r.chan_type,
			r.style,
			r.s_timing.unwrap_or("-"),
			r.owed_unspent,
			r.viol_monotone,
			r.viol_follow,
			r.viol_notes.first().cloned().unwrap_or_default()
		);
	}
	if let Some(fb) = &r.final_balances {
		if fb.is_empty() && !r.spendable.is_empty() {
			stats.drained += 1;
		} else {
			stats.not_drained += 1;
		}
	}
}

fn json_u64(s: &str, key: &str) -> Option<u64> {
	let pat = format!("\"{}\"", key);
	let at = s.find(&pat)? + pat.len();
	let rest = s[at..].trim_start().strip_prefix(':')?.trim_start();
	let digits: String = rest.chars().take_while(|c| c.is_ascii_digit()).collect();
	digits.parse().ok()
}
fn json_str(s: &str, key: &str) -> Option<String> {
	let pat = format!("\"{}\"", key);
	let at = s.find(&pat)? + pat.len();
	let rest = s[at..].trim_start().strip_prefix(':')?.trim_start().strip_prefix('"')?;
	Some(rest.chars().take_while(|c| *c != '"').collect())
}

fn print_hist<K: std::fmt::Display>(name: &str, m: &BTreeMap<K, u64>) {
	let body: Vec<String> = m.iter().map(|(k, v)| format!("{}:{}", k, v)).collect();
	eprintln!("h_justice: {:<34}{}", name, body.join(" "));
}

fn print_stats(st: &Stats) {
	eprintln!("h_justice: scenarios={} panics={}", st.scenarios, st.panics);
	print_hist("updates/scenario (bucket<=)", &st.updates);
	print_hist("update kinds", &st.kinds);
	print_hist("age of cheated state (bucket<=)", &st.age);
	print_hist("|S|", &st.s_len);
	print_hist("S timing", &st.s_timing);
	print_hist("styles", &st.styles);
	print_hist("justice txs/scenario (bucket<=)", &st.justice);
	print_hist("channel types", &st.chan_types);
	eprintln!("h_justice: chan_type/timing/|S|/fee_in_pos (H=HTLC input, F=fee input, one word per S tx):");
	for (k, v) in st.s_shape.iter() {
		eprintln!("h_justice:     {:<56}{}", k, v);
	}
	print_hist("styles of same_block scenarios", &st.same_block_styles);
	eprintln!("h_justice: same_block scenarios in which an S tx really shared the commitment's block: {}", st.same_block_mined);
	print_hist("fee trajectory / delay D", &st.traj);
	print_hist("re-issues per claim (bucket<=)", &st.bumps_per_claim);
	print_hist("highest/first feerate per claim", &st.max_ratio);
	eprintln!(
		"h_justice: FEE VIOLATIONS: feerate_decreased={} below_min(estimate,affordable)={} | S candidates skipped (did not verify)={} | BumpTransaction events handled={} | scenarios with an owed output left unspent={}",
		st.viol_monotone, st.viol_follow, st.s_skipped, st.bump_events, st.owed_unspent
	);
	eprintln!(
		"h_justice: scenarios reloaded={} (reloads total={}) aged_before_cheat={} cheated_mid_capture={}",
		st.reloaded, st.reloads, st.aged, st.mid_cheat
	);
	eprintln!(
		"h_justice: B txs total={} rebroadcasts={} verify_failures={} rounds_exhausted={} scenarios_with_S_tx_held_back(round-trip artefact)={}",
		st.b_txs, st.rebroadcasts, st.verify_fail, st.exhausted, st.held_back
	);
	eprintln!(
		"h_justice: coverage: nondust_htlcs_both_directions={} age>=5={} S_mined_before_B_reacts: scen={} txs={}; A_wins_race: scen={} txs={}; B_justice_first(S tx lost its input to B): scen={} txs={}",
		st.both_dirs, st.old_states, st.s_early_scen, st.s_early, st.s_race_won_scen, st.s_race_won, st.s_lost_scen, st.s_lost
	);
	eprintln!(
		"h_justice: final balances empty and SpendableOutputs emitted={} otherwise={}",
		st.drained, st.not_drained
	);
	eprintln!("h_justice: reorgs: planned={} done={}", st.reorg_planned, st.reorg_done);
	print_hist("done reorgs by target", &st.reorg_target);
	print_hist("done reorgs by api", &st.reorg_api);
	print_hist("done reorgs by fork_rel", &st.reorg_fork_rel);
	print_hist("done reorgs by regrow", &st.reorg_regrow);
	eprintln!(
		"h_justice: no-reorg twins run={} twin_mismatch={} spendable_dup={} (scenarios; both must be 0)",
		st.twins, st.twin_mismatch, st.spendable_dup
	);
}

fn main() {
	panic::set_hook(Box::new(|info| {
		let msg = format!("{}", info).replace('\n', " ");
		LAST_PANIC.with(|p| {
			let mut p = p.borrow_mut();
			// keep the FIRST panic of a scenario (a second one while unwinding is noise)
			if p.is_empty() {
				*p = msg.chars().take(600).collect();
			}
		});
	}));
	let args: Vec<String> = std::env::args().collect();
	let mut stats = Stats::default();
	match args.get(1).map(|s| s.as_str()) {
		Some("run") if args.len() >= 5 => {
			let seed: u64 = args[2].parse().expect("seed");
			let n: u64 = args[3].parse().expect("n_scenarios");
			let flags = Flags::parse(&args[4]);
			for k in 0..n {
				run_one(seed, k, &flags, &mut stats);
			}
		},
		Some("replay") if args.len() >= 3 => {
			let j = &args[2];
			let seed = json_u64(j, "seed").expect("seed");
			let k = json_u64(j, "k").expect("k");
			let flags = Flags::parse(&json_str(j, "flags").unwrap_or_else(|| "none".to_string()));
			run_one(seed, k, &flags, &mut stats);
		},
		_ => {
			eprintln!("usage: h_justice run <seed> <n_scenarios> <flags> | h_justice replay '<json>'");
			std::process::exit(2);
		},
	}
	print_stats(&stats);
}
