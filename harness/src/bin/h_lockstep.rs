//! C12 behavioural lock-step: a ChannelManager (with its ChannelMonitors) that went through
//! write -> read must react to everything that follows like the one that did not.
//!
//! usage: h_lockstep <n_scenarios> <seed>        one line `R {json}` per scenario
//!
//! Two-run formulation. A scenario is a deterministic schedule derived from its seed: three nodes
//! (channels 0-1, 1-2), a prefix of payments / claims / fails / blocks, then a CUT at node x in one
//! of five situations (quiescent with pending HTLCs; an HTLC in node 0's holding cell; in the middle
//! of a commitment dance; peers gone and 0..12 timer ticks elapsed; right after a force close),
//! then a suffix: 12 timer ticks with the peers still away, reconnect, resolution of every pending
//! payment, new payments, blocks, more ticks.
//!   run A: at the cut, node x's peers are disconnected (nothing else);
//!   run B: at the cut, node x's peers are disconnected AND node x is serialized and reloaded from
//!          those bytes (manager + monitors).
//! Everything observable after the cut is logged in canonical form (peer messages by type and
//! payload fields that do not depend on fresh randomness, broadcast gossip, events, transactions
//! handed to the broadcaster, and finally channels, balances, recent payments). The two logs must
//! be equal phase by phase (as multisets within a phase: map iteration order is not an observable).
use std::panic::{self, AssertUnwindSafe};

use bitcoin::secp256k1::PublicKey;
use lightning::events::Event;
use lightning::ln::channelmanager::PaymentId;
use lightning::ln::functional_test_utils::*;
use lightning::ln::msgs::{BaseMessageHandler, ChannelMessageHandler, ErrorAction, Init, MessageSendEvent};
use lightning::ln::outbound_payment::{RecipientOnionFields, Retry};
use lightning::reload_node;
use lightning::routing::router::{PaymentParameters, RouteParameters};
use lightning::types::payment::{PaymentHash, PaymentPreimage};
use lightning::util::ser::Writeable;
use verif_harness::{hex, Rng};

fn idx_of(nodes: &[Node], pk: &PublicKey) -> Option<usize> {
	nodes.iter().position(|n| n.node.get_our_node_id() == *pk)
}
fn h8(b: &[u8]) -> String {
	hex(&b[..4])
}

fn ev_line(i: usize, e: &Event) -> String {
	match e {
		Event::PaymentClaimable { payment_hash, amount_msat, .. } => format!("ev{} PaymentClaimable {} {}", i, h8(&payment_hash.0), amount_msat),
		Event::PaymentClaimed { payment_hash, amount_msat, .. } => format!("ev{} PaymentClaimed {} {}", i, h8(&payment_hash.0), amount_msat),
		Event::PaymentSent { payment_hash, fee_paid_msat, .. } => format!("ev{} PaymentSent {} fee={:?}", i, h8(&payment_hash.0), fee_paid_msat),
		Event::PaymentFailed { payment_hash, reason, .. } => format!("ev{} PaymentFailed {:?} {:?}", i, payment_hash.map(|h| h8(&h.0)), reason),
		Event::PaymentPathFailed { payment_hash, payment_failed_permanently, short_channel_id, .. } => {
			format!("ev{} PaymentPathFailed {} perm={} scid={:?}", i, h8(&payment_hash.0), payment_failed_permanently, short_channel_id)
		},
		Event::PaymentPathSuccessful { payment_hash, .. } => format!("ev{} PaymentPathSuccessful {:?}", i, payment_hash.map(|h| h8(&h.0))),
		Event::PaymentForwarded { total_fee_earned_msat, claim_from_onchain_tx, outbound_amount_forwarded_msat, .. } => {
			format!("ev{} PaymentForwarded fee={:?} onchain={} out={:?}", i, total_fee_earned_msat, claim_from_onchain_tx, outbound_amount_forwarded_msat)
		},
		Event::HTLCHandlingFailed { failure_type, .. } => {
			let s = format!("{:?}", failure_type);
			format!("ev{} HTLCHandlingFailed {}", i, s.split(|c| c == ' ' || c == '{' || c == '(').next().unwrap_or(""))
		},
		Event::ChannelClosed { reason, channel_id, .. } => {
			let s = format!("{:?}", reason);
			format!("ev{} ChannelClosed {} {}", i, h8(&channel_id.0), s.split(|c| c == ' ' || c == '{' || c == '(').next().unwrap_or(""))
		},
		Event::SpendableOutputs { outputs, .. } => format!("ev{} SpendableOutputs {}", i, outputs.len()),
		other => {
			let s = format!("{:?}", other);
			format!("ev{} {}", i, s.split(|c| c == ' ' || c == '{' || c == '(').next().unwrap_or(""))
		},
	}
}

fn msg_line(from: usize, to: Option<usize>, ev: &MessageSendEvent) -> String {
	let t = to.map(|x| x.to_string()).unwrap_or("*".to_string());
	match ev {
		MessageSendEvent::UpdateHTLCs { updates, .. } => {
			let mut adds: Vec<String> = updates.update_add_htlcs.iter().map(|m| format!("{}:{}:{}:{}", m.htlc_id, m.amount_msat, m.cltv_expiry, h8(&m.payment_hash.0))).collect();
			adds.sort();
			let mut ful: Vec<u64> = updates.update_fulfill_htlcs.iter().map(|m| m.htlc_id).collect();
			ful.sort();
			let mut fl: Vec<u64> = updates.update_fail_htlcs.iter().map(|m| m.htlc_id).collect();
			fl.sort();
			let nsig: usize = updates.commitment_signed.iter().map(|c| c.htlc_signatures.len()).sum();
			format!("msg {}->{} UpdateHTLCs adds={:?} fulfills={:?} fails={:?} malformed={} fee={:?} cs={} htlc_sigs={}", from, t, adds, ful, fl,
				updates.update_fail_malformed_htlcs.len(), updates.update_fee.as_ref().map(|f| f.feerate_per_kw), updates.commitment_signed.len(), nsig)
		},
		MessageSendEvent::SendRevokeAndACK { msg, .. } => format!("msg {}->{} RevokeAndACK {}", from, t, h8(&msg.channel_id.0)),
		MessageSendEvent::SendChannelReestablish { msg, .. } => {
			format!("msg {}->{} ChannelReestablish {} local={} remote={}", from, t, h8(&msg.channel_id.0), msg.next_local_commitment_number, msg.next_remote_commitment_number)
		},
		MessageSendEvent::SendChannelReady { msg, .. } => format!("msg {}->{} ChannelReady {}", from, t, h8(&msg.channel_id.0)),
		MessageSendEvent::SendAnnouncementSignatures { msg, .. } => format!("msg {}->{} AnnouncementSignatures {}", from, t, msg.short_channel_id),
		MessageSendEvent::SendChannelUpdate { msg, .. } => {
			format!("msg {}->{} ChannelUpdate scid={} flags={}", from, t, msg.contents.short_channel_id, msg.contents.channel_flags)
		},
		MessageSendEvent::BroadcastChannelUpdate { msg, .. } => {
			format!("gossip {} BroadcastChannelUpdate scid={} dir={} disabled={}", from, msg.contents.short_channel_id, msg.contents.channel_flags & 1, (msg.contents.channel_flags >> 1) & 1)
		},
		MessageSendEvent::BroadcastChannelAnnouncement { msg, .. } => format!("gossip {} BroadcastChannelAnnouncement scid={}", from, msg.contents.short_channel_id),
		MessageSendEvent::HandleError { action, .. } => {
			let a = match action {
				ErrorAction::DisconnectPeer { .. } => "DisconnectPeer",
				ErrorAction::DisconnectPeerWithWarning { .. } => "DisconnectPeerWithWarning",
				ErrorAction::IgnoreError => "IgnoreError",
				ErrorAction::IgnoreAndLog(_) => "IgnoreAndLog",
				ErrorAction::IgnoreDuplicateGossip => "IgnoreDuplicateGossip",
				ErrorAction::SendErrorMessage { .. } => "SendErrorMessage",
				ErrorAction::SendWarningMessage { .. } => "SendWarningMessage",
			};
			format!("msg {}->{} HandleError {}", from, t, a)
		},
		other => {
			let s = format!("{:?}", other);
			format!("msg {}->{} {}", from, t, s.split(|c| c == ' ' || c == '{' || c == '(').next().unwrap_or(""))
		},
	}
}

/// Delivers every pending peer message until quiescence; returns the canonical log (sorted) and the
/// PaymentClaimable hashes seen. `connected(a, b)`: whether a message between a and b can be delivered.
fn pump(nodes: &[Node], connected: &dyn Fn(usize, usize) -> bool, log: &mut Vec<String>) {
	let mut lines: Vec<String> = Vec::new();
	let mut idle = 0;
	for _round in 0..200 {
		let mut progressed = false;
		for i in 0..nodes.len() {
			let msgs = nodes[i].node.get_and_clear_pending_msg_events();
			let from = nodes[i].node.get_our_node_id();
			for ev in msgs {
				let to_pk = match &ev {
					MessageSendEvent::UpdateHTLCs { node_id, .. }
					| MessageSendEvent::SendRevokeAndACK { node_id, .. }
					| MessageSendEvent::SendChannelReestablish { node_id, .. }
					| MessageSendEvent::SendChannelReady { node_id, .. }
					| MessageSendEvent::SendAnnouncementSignatures { node_id, .. }
					| MessageSendEvent::SendChannelUpdate { node_id, .. }
					| MessageSendEvent::HandleError { node_id, .. } => Some(*node_id),
					_ => None,
				};
				let to = to_pk.and_then(|pk| idx_of(nodes, &pk));
				lines.push(msg_line(i, to, &ev));
				let to = match to {
					Some(t) if connected(i, t) => t,
					_ => continue,
				};
				progressed = true;
				let n = &nodes[to].node;
				match ev {
					MessageSendEvent::UpdateHTLCs { updates, .. } => {
						for m in updates.update_add_htlcs.iter() {
							n.handle_update_add_htlc(from, m);
						}
						for m in updates.update_fulfill_htlcs.iter() {
							n.handle_update_fulfill_htlc(from, m.clone());
						}
						for m in updates.update_fail_htlcs.iter() {
							n.handle_update_fail_htlc(from, m);
						}
						for m in updates.update_fail_malformed_htlcs.iter() {
							n.handle_update_fail_malformed_htlc(from, m);
						}
						if let Some(m) = updates.update_fee.as_ref() {
							n.handle_update_fee(from, m);
						}
						n.handle_commitment_signed_batch_test(from, &updates.commitment_signed);
					},
					MessageSendEvent::SendRevokeAndACK { msg, .. } => n.handle_revoke_and_ack(from, &msg),
					MessageSendEvent::SendChannelReestablish { msg, .. } => n.handle_channel_reestablish(from, &msg),
					MessageSendEvent::SendChannelReady { msg, .. } => n.handle_channel_ready(from, &msg),
					MessageSendEvent::SendAnnouncementSignatures { msg, .. } => n.handle_announcement_signatures(from, &msg),
					MessageSendEvent::SendChannelUpdate { msg, .. } => n.handle_channel_update(from, &msg),
					_ => {},
				}
			}
		}
		for i in 0..nodes.len() {
			nodes[i].node.process_pending_htlc_forwards();
			let evs = nodes[i].node.get_and_clear_pending_events();
			if !evs.is_empty() {
				progressed = true;
			}
			for e in evs.iter() {
				lines.push(ev_line(i, e));
			}
			nodes[i].chain_monitor.added_monitors.lock().unwrap().clear();
			let txn: Vec<bitcoin::Transaction> = nodes[i].tx_broadcaster.txn_broadcasted.lock().unwrap().split_off(0);
			for tx in txn {
				lines.push(format!("tx{} inputs={} outputs={} value={}", i, tx.input.len(), tx.output.len(), tx.output.iter().map(|o| o.value.to_sat()).sum::<u64>()));
			}
		}
		idle = if progressed { 0 } else { idle + 1 };
		if idle >= 3 {
			break;
		}
	}
	lines.sort();
	log.extend(lines);
}

fn disconnect(nodes: &[Node], a: usize, b: usize) {
	nodes[a].node.peer_disconnected(nodes[b].node.get_our_node_id());
	nodes[b].node.peer_disconnected(nodes[a].node.get_our_node_id());
}
fn reconnect(nodes: &[Node], a: usize, b: usize) {
	let init_a = Init { features: nodes[a].node.init_features(), networks: None, remote_network_address: None };
	let init_b = Init { features: nodes[b].node.init_features(), networks: None, remote_network_address: None };
	nodes[a].node.peer_connected(nodes[b].node.get_our_node_id(), &init_b, true).unwrap();
	nodes[b].node.peer_connected(nodes[a].node.get_our_node_id(), &init_a, false).unwrap();
}

fn route_params(nodes: &[Node], to: usize, amt: u64) -> RouteParameters {
	let pp = PaymentParameters::from_node_id(nodes[to].node.get_our_node_id(), TEST_FINAL_CLTV)
		.with_bolt11_features(nodes[to].node.bolt11_invoice_features())
		.unwrap();
	RouteParameters::from_payment_params_and_value(pp, amt)
}

fn state_lines(nodes: &[Node], log: &mut Vec<String>) {
	for (i, n) in nodes.iter().enumerate() {
		let mut ch: Vec<String> = n
			.node
			.list_channels()
			.iter()
			.map(|c| {
				format!(
					"chan{} {} val={} out={} in={} next_out={} ready={} usable={} pending_in={} pending_out={}",
					i, h8(&c.channel_id.0), c.channel_value_satoshis, c.outbound_capacity_msat, c.inbound_capacity_msat, c.next_outbound_htlc_limit_msat,
					c.is_channel_ready, c.is_usable, c.pending_inbound_htlcs.len(), c.pending_outbound_htlcs.len()
				)
			})
			.collect();
		ch.sort();
		log.extend(ch);
		let mut rp: Vec<String> = n.node.list_recent_payments().iter().map(|p| format!("recent{} {:?}", i, p)).collect();
		rp.sort();
		log.extend(rp);
		let mut bal: Vec<String> = Vec::new();
		for cid in n.chain_monitor.chain_monitor.list_monitors() {
			if let Ok(m) = n.chain_monitor.chain_monitor.get_monitor(cid) {
				for b in m.get_claimable_balances() {
					bal.push(format!("bal{} {} {:?}", i, h8(&cid.0), b));
				}
			}
		}
		bal.sort();
		log.extend(bal);
	}
}

struct RunOut {
	log: Vec<String>,
	desc: String,
}

fn run(seed: u64, round_trip: bool) -> RunOut {
	let mut rng = Rng(seed);
	let chanmon_cfgs = create_chanmon_cfgs(3);
	let node_cfgs = create_node_cfgs(3, &chanmon_cfgs);
	let persister;
	let new_chain_monitor;
	let legacy = test_legacy_channel_config();
	let node_chanmgrs = create_node_chanmgrs(3, &node_cfgs, &[Some(legacy.clone()), Some(legacy.clone()), Some(legacy)]);
	let node_reloaded;
	let mut nodes = create_network(3, &node_cfgs, &node_chanmgrs);
	for n in nodes.iter() {
		*n.connect_style.borrow_mut() = ConnectStyle::BestBlockFirst;
	}
	let chan_01 = create_announced_chan_between_nodes(&nodes, 0, 1);
	let _chan_12 = create_announced_chan_between_nodes(&nodes, 1, 2);
	let ids: Vec<PublicKey> = nodes.iter().map(|n| n.node.get_our_node_id()).collect();
	let mut desc = String::new();
	// ---- prefix (identical in both runs)
	let mut pending: Vec<(PaymentPreimage, PaymentHash, usize)> = Vec::new(); // (.., destination)
	let mut resolved_before: Vec<String> = Vec::new();
	let nprefix = 2 + rng.below(4);
	for _ in 0..nprefix {
		match rng.below(5) {
			0 | 1 => {
				let amt = 1_000_000 + rng.below(2_000_000);
				let (pre, hash, _, _) = route_payment(&nodes[0], &[&nodes[1], &nodes[2]], amt);
				pending.push((pre, hash, 2));
				desc.push_str("route2,");
			},
			2 => {
				let amt = 1_000_000 + rng.below(2_000_000);
				let (pre, hash, _, _) = route_payment(&nodes[0], &[&nodes[1]], amt);
				pending.push((pre, hash, 1));
				desc.push_str("route1,");
			},
			3 if !pending.is_empty() => {
				let (pre, hash_done, d) = pending.remove(0);
				resolved_before.push(h8(&hash_done.0));
				if d == 2 {
					claim_payment(&nodes[0], &[&nodes[1], &nodes[2]], pre);
				} else {
					claim_payment(&nodes[0], &[&nodes[1]], pre);
				}
				desc.push_str("claim,");
			},
			_ => {
				for n in nodes.iter() {
					connect_blocks(n, 1);
				}
				desc.push_str("block,");
			},
		}
	}
	for n in nodes.iter() {
		n.tx_broadcaster.txn_broadcasted.lock().unwrap().clear();
	}
	// ---- situation at the cut
	let mode = rng.below(5);
	let x = rng.below(2) as usize;
	// 0..=10 ticks: from the 11th tick on the disabling channel_update is already queued for broadcast; with no
	// peer connected it sits in an in-memory queue that is not part of the serialized state (in-flight gossip)
	let t1 = rng.below(11);
	desc.push_str(&format!("|mode{} cut@{} t1={}", mode, x, t1));
	let mut extra: Vec<(PaymentPreimage, PaymentHash, usize)> = Vec::new();
	let send = |nodes: &Vec<Node>, to: usize, amt: u64, log: &mut Vec<String>| -> Option<(PaymentPreimage, PaymentHash, usize)> {
		let (pre, hash, secret) = get_payment_preimage_hash(&nodes[to], Some(amt), None);
		let onion = RecipientOnionFields::secret_only(secret, amt);
		let r = nodes[0].node.send_payment(hash, onion, PaymentId(hash.0), route_params(nodes, to, amt), Retry::Attempts(0));
		log.push(format!("send 0->{} {} {}", to, amt, if r.is_ok() { "ok".to_string() } else { format!("{:?}", r) }));
		nodes[0].chain_monitor.added_monitors.lock().unwrap().clear();
		if r.is_ok() { Some((pre, hash, to)) } else { None }
	};
	let mut scratch: Vec<String> = Vec::new();
	match mode {
		1 | 2 => {
			// a payment 0 -> 1 whose update_add + commitment_signed reach node 1; node 1's answer is never delivered
			if let Some(p) = send(&nodes, 1, 1_500_000, &mut scratch) {
				extra.push(p);
			}
			let evs = nodes[0].node.get_and_clear_pending_msg_events();
			for ev in evs {
				if let MessageSendEvent::UpdateHTLCs { updates, .. } = ev {
					for m in updates.update_add_htlcs.iter() {
						nodes[1].node.handle_update_add_htlc(ids[0], m);
					}
					nodes[1].node.handle_commitment_signed_batch_test(ids[0], &updates.commitment_signed);
				}
			}
			nodes[1].chain_monitor.added_monitors.lock().unwrap().clear();
			if mode == 1 {
				// node 0 still awaits the revoke_and_ack: this one goes to its holding cell
				if let Some(p) = send(&nodes, 1, 1_700_000, &mut scratch) {
					extra.push(p);
				}
			}
		},
		4 => {
			let closer = x;
			let _ = nodes[closer].node.force_close_broadcasting_latest_txn(&chan_01.2, &ids[1 - closer], "closing".to_string());
			nodes[closer].chain_monitor.added_monitors.lock().unwrap().clear();
		},
		_ => {},
	}
	// ---- the cut: node x loses its peers; in-flight messages are lost
	// reading a manager implies that ALL its peers are gone, so the run without round trip loses them too
	let chan_peers: Vec<usize> = if x == 0 { vec![1] } else { vec![0, 2] };
	let other_peers: Vec<usize> = (0..3).filter(|p| *p != x && !chan_peers.contains(p)).collect();
	// (gossip already queued for broadcast is flushed first: it is in flight, not state)
	for n in nodes.iter() {
		n.node.get_and_clear_pending_msg_events();
	}
	// The persisted state is the one written while the peers were still connected (a crash, not a clean
	// shutdown) -- except in the disconnect-timer situation, where the ticks come after the disconnect.
	let snap = |nodes: &Vec<Node>| -> (Vec<u8>, Vec<Vec<u8>>) {
		let mgr_bytes = nodes[x].node.encode();
		let mut mons: Vec<Vec<u8>> = Vec::new();
		for cid in nodes[x].chain_monitor.chain_monitor.list_monitors() {
			mons.push(nodes[x].chain_monitor.chain_monitor.get_monitor(cid).unwrap().encode());
		}
		(mgr_bytes, mons)
	};
	let early_snapshot = if round_trip && mode != 3 { Some(snap(&nodes)) } else { None };
	for p in (0..3).filter(|p| *p != x) {
		disconnect(&nodes, x, p);
	}
	for n in nodes.iter() {
		n.node.get_and_clear_pending_msg_events();
	}
	let connected_away = |a: usize, b: usize| -> bool { a != x && b != x };
	if mode == 3 {
		for _ in 0..t1 {
			for n in nodes.iter() {
				n.node.timer_tick_occurred();
			}
			pump(&nodes, &connected_away, &mut scratch);
		}
	}
	if round_trip {
		let (mgr_bytes, mons) = match early_snapshot {
			Some(s) => s,
			None => snap(&nodes),
		};
		let refs: Vec<&[u8]> = mons.iter().map(|m| &m[..]).collect();
		reload_node!(nodes[x], &mgr_bytes, &refs, persister, new_chain_monitor, node_reloaded);
	}
	// ---- everything from here on is observed
	let mut log: Vec<String> = Vec::new();
	log.push("== away".to_string());
	{
		// 12 timer ticks with the peers still away: gossip about the channels' availability
		let mut phase: Vec<String> = Vec::new();
		for _ in 0..12 {
			for n in nodes.iter() {
				n.node.timer_tick_occurred();
			}
			pump(&nodes, &connected_away, &mut phase);
		}
		phase.sort();
		log.extend(phase);
	}
	log.push("== a peer without channel reconnects (the channel peers stay away)".to_string());
	for p in other_peers.iter() {
		reconnect(&nodes, x, *p);
	}
	{
		let chan_peers = chan_peers.clone();
		let conn = move |a: usize, b: usize| -> bool { !((a == x && chan_peers.contains(&b)) || (b == x && chan_peers.contains(&a))) };
		let mut phase: Vec<String> = Vec::new();
		pump(&nodes, &conn, &mut phase);
		for _ in 0..2 {
			for n in nodes.iter() {
				n.node.timer_tick_occurred();
			}
			pump(&nodes, &conn, &mut phase);
		}
		phase.sort();
		log.extend(phase);
	}
	log.push("== reconnect".to_string());
	for p in chan_peers.iter() {
		reconnect(&nodes, x, *p);
	}
	let all = |_: usize, _: usize| true;
	pump(&nodes, &all, &mut log);
	log.push("== resolve".to_string());
	let mut all_pending = pending.clone();
	all_pending.extend(extra.iter().cloned());
	for (pre, hash, d) in all_pending.iter() {
		if rng.below(3) == 0 {
			nodes[*d].node.fail_htlc_backwards(hash);
			log.push(format!("fail {}", h8(&hash.0)));
		} else {
			nodes[*d].node.claim_funds(*pre);
			log.push(format!("claim {}", h8(&hash.0)));
		}
		pump(&nodes, &all, &mut log);
	}
	log.push("== new payments".to_string());
	for to in [2usize, 1] {
		if let Some((pre, _, d)) = send(&nodes, to, 900_000 + rng.below(500_000), &mut log) {
			pump(&nodes, &all, &mut log);
			nodes[d].node.claim_funds(pre);
			pump(&nodes, &all, &mut log);
		}
	}
	log.push("== blocks and ticks".to_string());
	for _ in 0..3 {
		for n in nodes.iter() {
			connect_blocks(n, 1);
		}
		pump(&nodes, &all, &mut log);
	}
	{
		let mut phase: Vec<String> = Vec::new();
		for _ in 0..3 {
			for n in nodes.iter() {
				n.node.timer_tick_occurred();
			}
			pump(&nodes, &all, &mut phase);
		}
		phase.sort();
		log.extend(phase);
	}
	log.push("== final state".to_string());
	state_lines(&nodes, &mut log);
	for n in nodes.iter() {
		n.node.get_and_clear_pending_events();
		n.node.get_and_clear_pending_msg_events();
		n.chain_monitor.added_monitors.lock().unwrap().clear();
	}
	std::mem::forget(nodes);
	// Events are delivered at least once: after a restart LDK replays the claim of a payment that was
	// already resolved (and reported) before the cut. Such re-deliveries are not a behavioural difference.
	let log = log
		.into_iter()
		.filter(|l| {
			!(l.starts_with("ev") && (l.contains(" PaymentClaimed ") || l.contains(" PaymentSent ") || l.contains(" PaymentPathSuccessful ")) && resolved_before.iter().any(|h| l.contains(h.as_str())))
		})
		.collect();
	RunOut { log, desc }
}

static LAST_PANIC: std::sync::Mutex<String> = std::sync::Mutex::new(String::new());

fn main() {
	let args: Vec<String> = std::env::args().collect();
	let n: u64 = args.get(1).and_then(|s| s.parse().ok()).unwrap_or(4);
	let seed: u64 = args.get(2).and_then(|s| s.parse().ok()).unwrap_or(1);
	let dump = std::env::var("H_LOCKSTEP_DUMP").is_ok();
	panic::set_hook(Box::new(|info| {
		let loc = info.location().map(|l| format!("{}:{}", l.file(), l.line())).unwrap_or_default();
		let msg = if let Some(s) = info.payload().downcast_ref::<&str>() {
			s.to_string()
		} else if let Some(s) = info.payload().downcast_ref::<String>() {
			s.clone()
		} else {
			String::new()
		};
		let mut g = LAST_PANIC.lock().unwrap();
		if g.is_empty() {
			*g = format!("{} at {}", msg.chars().take(160).collect::<String>(), loc);
		}
	}));
	let mut rng = Rng(seed ^ 0x10c_57e9);
	let esc = |s: &str| s.replace('\\', "/").replace('"', "'").replace('\n', " ");
	for i in 0..n {
		let s = rng.next();
		let a = panic::catch_unwind(AssertUnwindSafe(|| run(s, false)));
		let pa = std::mem::take(&mut *LAST_PANIC.lock().unwrap());
		let b = panic::catch_unwind(AssertUnwindSafe(|| run(s, true)));
		let pb = std::mem::take(&mut *LAST_PANIC.lock().unwrap());
		match (a, b) {
			(Ok(a), Ok(b)) => {
				let mut diff = String::new();
				let mut phase = String::new();
				for k in 0..a.log.len().max(b.log.len()) {
					let la = a.log.get(k).map(|s| s.as_str()).unwrap_or("<end>");
					let lb = b.log.get(k).map(|s| s.as_str()).unwrap_or("<end>");
					if la.starts_with("== ") {
						phase = la.to_string();
					}
					if la != lb {
						diff = format!("phase '{}' line {}: without round trip `{}` / after round trip `{}`", phase, k, la, lb);
						break;
					}
				}
				if dump {
					for l in a.log.iter() {
						println!("A {}", l);
					}
					for l in b.log.iter() {
						println!("B {}", l);
					}
				}
				println!(
					"R {{\"kind\": \"lockstep\", \"scenario\": {}, \"seed\": {}, \"ok\": {}, \"desc\": \"{}\", \"observations\": {}, \"fails\": [{}]}}",
					i, s, if diff.is_empty() { "true" } else { "false" }, esc(&a.desc), a.log.len(),
					if diff.is_empty() { String::new() } else { format!("\"the reloaded node behaves differently: {}\"", esc(&diff)) }
				);
			},
			(ra, rb) => {
				let which = if ra.is_err() && rb.is_err() { "both runs" } else if rb.is_err() { "the run WITH the round trip" } else { "the run without round trip" };
				println!(
					"R {{\"kind\": \"lockstep\", \"scenario\": {}, \"seed\": {}, \"ok\": false, \"desc\": \"\", \"observations\": 0, \"fails\": [\"{} panicked: {} {}\"]}}",
					i, s, which, esc(&pa), esc(&pb)
				);
			},
		}
	}
}
