//! C12 persistence round trips on real nodes (lightning::ln::functional_test_utils).
//!
//! usage: h_persist <n_scenarios> <seed> [steps]
//! prints one line `R {json}` per scenario (other stdout lines are TestLogger noise).
//!
//! A scenario drives three nodes (channels 0-1 and 1-2) through a seeded sequence of operations
//! (multi-hop and single-hop payments left pending, claims, fails, blocks, one payment delivered
//! message by message, a final force close that is mined and buried). After EVERY step, for every
//! node:
//!   * each ChannelMonitor is written, read back and compared with `==`; the copy is written and read
//!     again; update-then-roundtrip == roundtrip-then-update for the ChannelMonitorUpdates of the step
//!     (on copies, so nothing else touches them);
//!   * each new ChannelMonitorUpdate is written, read back, compared with `==` and re-encoded
//!     byte-identically;
//!   * the NetworkGraph is written, read back and compared with `==`;
//!   * the ChannelManager is written and read back (with the re-read monitors); the static channel
//!     facts and the recent-payment list of the copy equal the original's; the copy is written and
//!     read again;
//!   * sampled truncations and single-byte corruptions of all of those encodings are read under
//!     `catch_unwind`: a panic is a failure; an accepted object must be writable and readable again.
use std::collections::HashMap;
use std::panic::{self, AssertUnwindSafe};
use std::sync::{Arc, Mutex, RwLock};

use lightning::chain::channelmonitor::{ChannelMonitor, ChannelMonitorUpdate};
use lightning::chain::BlockLocator;
use lightning::ln::channelmanager::{ChannelManager, ChannelManagerReadArgs, PaymentId};
use lightning::ln::functional_test_utils::*;
use lightning::ln::msgs::{BaseMessageHandler, ChannelMessageHandler, MessageSendEvent};
use lightning::ln::outbound_payment::RecipientOnionFields;
use lightning::ln::types::ChannelId;
use lightning::routing::gossip::NetworkGraph;
use lightning::types::payment::{PaymentHash, PaymentPreimage};
use lightning::util::ser::{Readable, ReadableArgs, Writeable};
use lightning::util::test_channel_signer::TestChannelSigner;
use lightning::util::test_utils;
use lightning::{get_event_msg, get_route_and_payment_hash};
use verif_harness::Rng;

static LAST_PANIC: Mutex<String> = Mutex::new(String::new());

type Mon = ChannelMonitor<TestChannelSigner>;
type Mgr<'a> = ChannelManager<
	&'a test_utils::TestChainMonitor<'a>,
	&'a test_utils::TestBroadcaster,
	&'a test_utils::TestKeysInterface,
	&'a test_utils::TestKeysInterface,
	&'a test_utils::TestKeysInterface,
	&'a test_utils::TestFeeEstimator,
	&'a test_utils::TestRouter<'a>,
	&'a test_utils::TestMessageRouter<'a>,
	&'a test_utils::TestLogger,
>;

#[derive(Default)]
struct Stats {
	steps: usize,
	mon: usize,
	mon_bytes_identical: usize,
	upd: usize,
	upd_commute: usize,
	mgr: usize,
	mgr_bytes_identical: usize,
	graph: usize,
	graph_bytes_identical: usize,
	mutated: usize,
	mutated_accepted: usize,
	corrupt_panics: usize,
	corrupt_unstable: usize,
	corrupt_notes: Vec<String>,
	max_mon_len: usize,
	max_mgr_len: usize,
	fails: Vec<String>,
}
impl Stats {
	fn fail(&mut self, step: &str, what: String) {
		if self.fails.len() < 5 {
			self.fails.push(format!("[{}] {}", step, what));
		}
	}
}

fn read_mon(node: &Node, bytes: &[u8]) -> Result<Mon, String> {
	<(BlockLocator, Mon)>::read(&mut &bytes[..], (node.keys_manager, node.keys_manager))
		.map(|x| x.1)
		.map_err(|e| format!("{:?}", e))
}

/// positions to cut / corrupt: dense at both ends, sparse in between
fn positions(rng: &mut Rng, n: usize, k: usize) -> Vec<usize> {
	let mut v = Vec::new();
	if n == 0 {
		return v;
	}
	for i in 0..k.min(n) {
		v.push(i);
		v.push(n - 1 - i);
	}
	for _ in 0..k {
		v.push(rng.below(n as u64) as usize);
	}
	v.sort();
	v.dedup();
	v
}

/// Runs `f` on truncations and single-byte corruptions of `bytes`. `f` returns Ok(true) if the bytes
/// were accepted and the accepted object survived a further write/read, Ok(false) if rejected,
/// Err(why) if the accepted object could not be written/read again.
fn mutate<F: FnMut(&[u8]) -> Result<bool, String>>(
	st: &mut Stats, rng: &mut Rng, step: &str, what: &str, bytes: &[u8], k: usize, mut f: F,
) {
	let mut cases: Vec<Vec<u8>> = Vec::new();
	if std::env::var("H_PERSIST_NO_CORRUPT").is_ok() {
		return;
	}
	for p in positions(rng, bytes.len(), k) {
		cases.push(bytes[..p].to_vec());
		if what == "NetworkGraph" {
			// truncations only: a corrupted element count makes NetworkGraph::read pre-allocate up to
			// 100M channel entries (~150 GB), which aborts the process instead of returning an error
			continue;
		}
		let mut b = bytes.to_vec();
		b[p] ^= 1 << rng.below(8);
		cases.push(b);
		let mut b = bytes.to_vec();
		b[p] = rng.next() as u8;
		if b[p] != bytes[p] {
			cases.push(b);
		}
	}
	for c in cases {
		st.mutated += 1;
		let r = panic::catch_unwind(AssertUnwindSafe(|| f(&c)));
		match r {
			Ok(Ok(true)) => st.mutated_accepted += 1,
			Ok(Ok(false)) => {},
			Ok(Err(why)) => {
				st.corrupt_unstable += 1;
				if st.corrupt_notes.len() < 4 {
					st.corrupt_notes.push(format!("[{}] {}: corrupted bytes accepted but {} (len {}, first diff at {:?})", step, what, why, c.len(), first_diff(bytes, &c)));
				}
			},
			Err(_) => {
				LAST_PANIC.lock().unwrap().clear();
				st.corrupt_panics += 1;
				if st.corrupt_notes.len() < 4 {
					st.corrupt_notes.push(format!("[{}] {}: reading corrupted bytes PANICKED (len {}, first diff at {:?})", step, what, c.len(), first_diff(bytes, &c)));
				}
			},
		}
	}
}
fn first_diff(a: &[u8], b: &[u8]) -> Option<usize> {
	(0..a.len().min(b.len())).find(|&i| a[i] != b[i]).or(if a.len() != b.len() { Some(a.len().min(b.len())) } else { None })
}

struct Tracker {
	upd_seen: Vec<HashMap<ChannelId, usize>>,
	prev_mon: Vec<HashMap<ChannelId, Vec<u8>>>,
	blocks_since: bool,
}

fn snapshot(nodes: &Vec<Node>, st: &mut Stats, rng: &mut Rng, tr: &mut Tracker, step: &str, heavy: bool) {
	st.steps += 1;
	let kmut = if heavy { 6 } else { 2 };
	for (ni, node) in nodes.iter().enumerate() {
		// ---- monitors
		let mut deser_mons: Vec<Mon> = Vec::new();
		let mut cur_mon_bytes: HashMap<ChannelId, Vec<u8>> = HashMap::new();
		for channel_id in node.chain_monitor.chain_monitor.list_monitors() {
			let mon = node.chain_monitor.chain_monitor.get_monitor(channel_id).unwrap();
			let bytes = mon.encode();
			st.max_mon_len = st.max_mon_len.max(bytes.len());
			match read_mon(node, &bytes) {
				Err(e) => st.fail(step, format!("node {} monitor does not read back: {}", ni, e)),
				Ok(copy) => {
					st.mon += 1;
					if !(copy == *mon) {
						st.fail(step, format!("node {} monitor != its round-tripped copy", ni));
					}
					let bytes2 = copy.encode();
					if bytes2 == bytes {
						st.mon_bytes_identical += 1;
					}
					match read_mon(node, &bytes2) {
						Ok(copy2) => {
							if !(copy2 == copy) {
								st.fail(step, format!("node {} monitor: second round trip differs", ni));
							}
						},
						Err(e) => st.fail(step, format!("node {} re-encoded monitor does not read: {}", ni, e)),
					}
					deser_mons.push(copy);
				},
			}
			mutate(st, rng, step, "ChannelMonitor", &bytes, kmut, |b| match read_mon(node, b) {
				Err(_) => Ok(false),
				Ok(m) => {
					let again = m.encode();
					read_mon(node, &again).map(|_| true).map_err(|e| format!("its re-encoding does not read: {}", e))
				},
			});
			cur_mon_bytes.insert(channel_id, bytes);
		}
		// ---- monitor updates of this step
		let new_updates: Vec<(ChannelId, Vec<ChannelMonitorUpdate>)> = {
			let all = node.chain_monitor.monitor_updates.lock().unwrap();
			all.iter()
				.map(|(cid, v)| {
					let seen = *tr.upd_seen[ni].get(cid).unwrap_or(&0);
					(*cid, v[seen.min(v.len())..].to_vec())
				})
				.collect()
		};
		for (cid, ups) in new_updates.iter() {
			*tr.upd_seen[ni].entry(*cid).or_insert(0) += ups.len();
			for u in ups.iter() {
				st.upd += 1;
				let enc = u.encode();
				match <ChannelMonitorUpdate as Readable>::read(&mut &enc[..]) {
					Err(e) => st.fail(step, format!("node {} ChannelMonitorUpdate {} does not read back: {:?}", ni, u.update_id, e)),
					Ok(u2) => {
						if u2 != *u {
							st.fail(step, format!("node {} ChannelMonitorUpdate {} != its round-tripped copy", ni, u.update_id));
						}
						if u2.encode() != enc {
							st.fail(step, format!("node {} ChannelMonitorUpdate {} re-encodes differently", ni, u.update_id));
						}
					},
				}
				mutate(st, rng, step, "ChannelMonitorUpdate", &enc, kmut, |b| {
					match <ChannelMonitorUpdate as Readable>::read(&mut &b[..]) {
						Err(_) => Ok(false),
						Ok(x) => {
							let again = x.encode();
							match <ChannelMonitorUpdate as Readable>::read(&mut &again[..]) {
								Ok(y) => if y == x { Ok(true) } else { Err("its re-encoding reads as a different update".to_string()) },
								Err(e) => Err(format!("its re-encoding does not read: {:?}", e)),
							}
						},
					}
				});
			}
			// update-then-roundtrip == roundtrip-then-update, on copies of the monitor as it was before the step
			if !tr.blocks_since && !ups.is_empty() {
				if let Some(prev) = tr.prev_mon[ni].get(cid) {
					if let (Ok(c1), Ok(c2)) = (read_mon(node, prev), read_mon(node, prev)) {
						let bc = test_utils::TestBroadcaster::new(bitcoin::Network::Testnet);
						let fe = test_utils::TestFeeEstimator::new(253);
						let mut ok = true;
						for u in ups.iter() {
							ok &= c1.update_monitor(u, &&bc, &&fe, &node.logger).is_ok();
						}
						let r1 = read_mon(node, &c1.encode());
						let r2 = read_mon(node, &c2.encode());
						if let (Ok(r1), Ok(r2)) = (r1, r2) {
							for u in ups.iter() {
								ok &= r2.update_monitor(u, &&bc, &&fe, &node.logger).is_ok();
							}
							if ok {
								st.upd_commute += 1;
								if !(r1 == r2) {
									st.fail(step, format!("node {} monitor: update-then-roundtrip != roundtrip-then-update ({} updates)", ni, ups.len()));
								}
							}
						} else {
							st.fail(step, format!("node {} updated monitor copy does not read back", ni));
						}
					}
				}
			}
		}
		tr.prev_mon[ni] = cur_mon_bytes;
		// ---- network graph
		{
			let bytes = node.network_graph.encode();
			match <NetworkGraph<&test_utils::TestLogger>>::read(&mut &bytes[..], node.logger) {
				Err(e) => st.fail(step, format!("node {} network graph does not read back: {:?}", ni, e)),
				Ok(g) => {
					st.graph += 1;
					if !(g == *node.network_graph) {
						st.fail(step, format!("node {} network graph != its round-tripped copy", ni));
					}
					if g.encode() == bytes {
						st.graph_bytes_identical += 1;
					}
				},
			}
			if heavy {
				mutate(st, rng, step, "NetworkGraph", &bytes, 3, |b| {
					match <NetworkGraph<&test_utils::TestLogger>>::read(&mut &b[..], node.logger) {
						Err(_) => Ok(false),
						Ok(g) => {
							let again = g.encode();
							<NetworkGraph<&test_utils::TestLogger>>::read(&mut &again[..], node.logger)
								.map(|_| true)
								.map_err(|e| format!("its re-encoding does not read: {:?}", e))
						},
					}
				});
			}
		}
		// ---- channel manager
		{
			let bytes = node.node.encode();
			st.max_mgr_len = st.max_mgr_len.max(bytes.len());
			let network_graph = Arc::new(
				<NetworkGraph<&test_utils::TestLogger>>::read(&mut &node.network_graph.encode()[..], node.logger).unwrap(),
			);
			let scorer = RwLock::new(test_utils::TestScorer::new());
			let fee_est = test_utils::TestFeeEstimator::new(253);
			let router = test_utils::TestRouter::new(Arc::clone(&network_graph), &node.logger, &scorer);
			let msg_router = test_utils::TestMessageRouter::new_default(Arc::clone(&network_graph), node.keys_manager);
			let broadcaster = test_utils::TestBroadcaster {
				txn_broadcasted: Mutex::new(Vec::new()),
				txn_types: Mutex::new(Vec::new()),
				blocks: Arc::new(Mutex::new(node.tx_broadcaster.blocks.lock().unwrap().clone())),
			};
			let read_mgr = |b: &[u8]| -> Result<Vec<u8>, String> {
				let mut channel_monitors = lightning::util::hash_tables::new_hash_map();
				for m in deser_mons.iter() {
					channel_monitors.insert(m.channel_id(), m);
				}
				let r = <(BlockLocator, Mgr)>::read(
					&mut &b[..],
					ChannelManagerReadArgs {
						config: node.node.get_current_config(),
						entropy_source: node.keys_manager,
						node_signer: node.keys_manager,
						signer_provider: node.keys_manager,
						fee_estimator: &fee_est,
						router: &router,
						message_router: &msg_router,
						chain_monitor: node.chain_monitor,
						tx_broadcaster: &broadcaster,
						logger: node.logger,
						channel_monitors,
					},
				);
				match r {
					Err(e) => Err(format!("{:?}", e)),
					Ok((_, m)) => {
						// static channel facts and recent payments must survive
						let key = |c: &lightning::ln::channel_state::ChannelDetails| {
							format!(
								"{} {} {:?} {} {} {:?} {} {:?}",
								c.channel_id, c.counterparty.node_id, c.funding_txo, c.channel_value_satoshis, c.user_channel_id,
								c.channel_type, c.is_outbound, c.unspendable_punishment_reserve
							)
						};
						let mut a: Vec<String> = node.node.list_channels().iter().map(key).collect();
						let mut bb: Vec<String> = m.list_channels().iter().map(key).collect();
						a.sort();
						bb.sort();
						let mut pa: Vec<String> = node.node.list_recent_payments().iter().map(|p| format!("{:?}", p)).collect();
						let mut pb: Vec<String> = m.list_recent_payments().iter().map(|p| format!("{:?}", p)).collect();
						pa.sort();
						pb.sort();
						if b == &bytes[..] && a != bb {
							return Err(format!("MISMATCH channels: {:?} vs {:?}", a, bb));
						}
						if b == &bytes[..] && pa != pb {
							return Err(format!("MISMATCH recent payments: {:?} vs {:?}", pa, pb));
						}
						Ok(m.encode())
					},
				}
			};
			match read_mgr(&bytes) {
				Err(e) => st.fail(step, format!("node {} ChannelManager round trip: {}", ni, e)),
				Ok(bytes2) => {
					st.mgr += 1;
					if bytes2 == bytes {
						st.mgr_bytes_identical += 1;
					}
					if let Err(e) = read_mgr(&bytes2) {
						if !e.starts_with("MISMATCH") {
							st.fail(step, format!("node {} re-encoded ChannelManager does not read: {}", ni, e));
						}
					}
				},
			}
			if heavy {
				mutate(st, rng, step, "ChannelManager", &bytes, 3, |b| match read_mgr(b) {
					Err(_) => Ok(false),
					Ok(again) => match read_mgr(&again) {
						Ok(_) => Ok(true),
						Err(e) => if e.starts_with("MISMATCH") { Ok(true) } else { Err(format!("its re-encoding does not read: {}", e)) },
					},
				});
			}
		}
	}
	tr.blocks_since = false;
}

fn drain(nodes: &Vec<Node>) {
	for n in nodes.iter() {
		n.node.get_and_clear_pending_events();
		n.node.get_and_clear_pending_msg_events();
		n.chain_monitor.added_monitors.lock().unwrap().clear();
	}
}

fn scenario(seed: u64, nsteps: usize) -> (Stats, Vec<String>) {
	let mut rng = Rng(seed);
	let mut st = Stats::default();
	let mut ops_done: Vec<String> = Vec::new();
	let chanmon_cfgs = create_chanmon_cfgs(3);
	let node_cfgs = create_node_cfgs(3, &chanmon_cfgs);
	// legacy (non-anchor) channels: a force close then broadcasts the commitment directly
	let legacy = test_legacy_channel_config();
	let node_chanmgrs = create_node_chanmgrs(3, &node_cfgs, &[Some(legacy.clone()), Some(legacy.clone()), Some(legacy)]);
	let nodes = create_network(3, &node_cfgs, &node_chanmgrs);
	for n in nodes.iter() {
		*n.connect_style.borrow_mut() = match rng.below(3) {
			0 => ConnectStyle::BestBlockFirst,
			1 => ConnectStyle::TransactionsFirst,
			_ => ConnectStyle::FullBlockViaListen,
		};
	}
	let mut tr = Tracker { upd_seen: vec![HashMap::new(); 3], prev_mon: vec![HashMap::new(); 3], blocks_since: true };
	snapshot(&nodes, &mut st, &mut rng, &mut tr, "fresh", false);
	let chan_01 = create_announced_chan_between_nodes(&nodes, 0, 1);
	tr.blocks_since = true;
	snapshot(&nodes, &mut st, &mut rng, &mut tr, "chan01", true);
	let _chan_12 = create_announced_chan_between_nodes(&nodes, 1, 2);
	tr.blocks_since = true;
	snapshot(&nodes, &mut st, &mut rng, &mut tr, "chan12", false);
	let ids: Vec<_> = nodes.iter().map(|n| n.node.get_our_node_id()).collect();

	// pending payments: (preimage, hash, two_hop)
	let mut pending: Vec<(PaymentPreimage, PaymentHash, bool)> = Vec::new();
	let mut blocks_used = 0u32;
	for step in 0..nsteps {
		let heavy = step % 4 == 1;
		let op = rng.below(7);
		let name;
		match op {
			0 | 1 if pending.len() < 5 => {
				let amt = 1_000_000 + rng.below(3_000_000);
				let two = op == 0;
				let (pre, hash, _, _) = if two {
					route_payment(&nodes[0], &[&nodes[1], &nodes[2]], amt)
				} else {
					route_payment(&nodes[0], &[&nodes[1]], amt)
				};
				pending.push((pre, hash, two));
				name = format!("route{}", if two { 2 } else { 1 });
			},
			2 if !pending.is_empty() => {
				let i = rng.below(pending.len() as u64) as usize;
				let (pre, _, two) = pending.remove(i);
				if two {
					claim_payment(&nodes[0], &[&nodes[1], &nodes[2]], pre);
				} else {
					claim_payment(&nodes[0], &[&nodes[1]], pre);
				}
				name = "claim".to_string();
			},
			3 if !pending.is_empty() => {
				let i = rng.below(pending.len() as u64) as usize;
				let (_, hash, two) = pending.remove(i);
				if two {
					fail_payment(&nodes[0], &[&nodes[1], &nodes[2]], hash);
				} else {
					fail_payment(&nodes[0], &[&nodes[1]], hash);
				}
				name = "fail".to_string();
			},
			4 if blocks_used < 10 => {
				let k = 1 + rng.below(3) as u32;
				blocks_used += k;
				for n in nodes.iter() {
					connect_blocks(n, k);
				}
				tr.blocks_since = true;
				name = format!("blocks{}", k);
			},
			5 if pending.len() < 5 => {
				// one payment 0 -> 1 delivered message by message, with a snapshot after every message
				let amt = 2_000_000 + rng.below(1_000_000);
				let (route, hash, pre, secret) = get_route_and_payment_hash!(nodes[0], nodes[1], amt);
				let onion = RecipientOnionFields::secret_only(secret, amt);
				nodes[0].node.send_payment_with_route(route, hash, onion, PaymentId(hash.0)).unwrap();
				check_added_monitors(&nodes[0], 1);
				let ev = SendEvent::from_node(&nodes[0]);
				snapshot(&nodes, &mut st, &mut rng, &mut tr, "slow:sent", false);
				nodes[1].node.handle_update_add_htlc(ids[0], &ev.msgs[0]);
				snapshot(&nodes, &mut st, &mut rng, &mut tr, "slow:add", false);
				nodes[1].node.handle_commitment_signed_batch_test(ids[0], &ev.commitment_msg);
				check_added_monitors(&nodes[1], 1);
				snapshot(&nodes, &mut st, &mut rng, &mut tr, "slow:cs1", true);
				let (raa, cs) = get_revoke_commit_msgs(&nodes[1], &ids[0]);
				nodes[0].node.handle_revoke_and_ack(ids[1], &raa);
				check_added_monitors(&nodes[0], 1);
				snapshot(&nodes, &mut st, &mut rng, &mut tr, "slow:raa1", false);
				nodes[0].node.handle_commitment_signed_batch_test(ids[1], &cs);
				check_added_monitors(&nodes[0], 1);
				snapshot(&nodes, &mut st, &mut rng, &mut tr, "slow:cs2", false);
				let raa2 = get_event_msg!(nodes[0], MessageSendEvent::SendRevokeAndACK, ids[1]);
				nodes[1].node.handle_revoke_and_ack(ids[0], &raa2);
				check_added_monitors(&nodes[1], 1);
				snapshot(&nodes, &mut st, &mut rng, &mut tr, "slow:raa2", false);
				nodes[1].node.process_pending_htlc_forwards();
				let evs = nodes[1].node.get_and_clear_pending_events();
				if evs.len() != 1 {
					st.fail("slow", format!("harness: expected PaymentClaimable, got {} events", evs.len()));
				}
				pending.push((pre, hash, false));
				name = "slow".to_string();
			},
			_ => {
				name = "noop".to_string();
			},
		}
		ops_done.push(name.clone());
		if name != "noop" {
			snapshot(&nodes, &mut st, &mut rng, &mut tr, &format!("{}:{}", step, name), heavy);
		}
	}
	// ---- final phase: node 0 force-closes channel 0-1 (with whatever is still pending), the
	// commitment is mined and buried on both nodes
	let r = panic::catch_unwind(AssertUnwindSafe(|| {
		nodes[0].node.force_close_broadcasting_latest_txn(&chan_01.2, &ids[1], "closing".to_string()).unwrap();
		let txn: Vec<bitcoin::Transaction> = nodes[0].tx_broadcaster.txn_broadcasted.lock().unwrap().clone();
		drain(&nodes);
		txn
	}));
	match r {
		Err(_) => st.fail("close", "harness or implementation panicked while force-closing".to_string()),
		Ok(txn) => {
			ops_done.push("force_close".to_string());
			snapshot(&nodes, &mut st, &mut rng, &mut tr, "close:broadcast", true);
			if let Some(commitment) = txn.first() {
				let r2 = panic::catch_unwind(AssertUnwindSafe(|| {
					for n in nodes.iter().take(2) {
						mine_transaction_without_consistency_checks(n, commitment);
					}
					drain(&nodes);
				}));
				tr.blocks_since = true;
				if r2.is_err() {
					st.fail("close", "panicked while mining the commitment transaction".to_string());
				} else {
					ops_done.push("mined".to_string());
					snapshot(&nodes, &mut st, &mut rng, &mut tr, "close:mined", true);
					let r3 = panic::catch_unwind(AssertUnwindSafe(|| {
						for n in nodes.iter().take(2) {
							connect_blocks(n, 6);
						}
						drain(&nodes);
					}));
					tr.blocks_since = true;
					if r3.is_ok() {
						ops_done.push("buried".to_string());
						snapshot(&nodes, &mut st, &mut rng, &mut tr, "close:buried", true);
					}
				}
			}
		},
	}
	drain(&nodes);
	std::mem::forget(nodes);
	(st, ops_done)
}

fn main() {
	let args: Vec<String> = std::env::args().collect();
	let n: u64 = args.get(1).and_then(|s| s.parse().ok()).unwrap_or(2);
	let seed: u64 = args.get(2).and_then(|s| s.parse().ok()).unwrap_or(1);
	let steps: usize = args.get(3).and_then(|s| s.parse().ok()).unwrap_or(10);
	if std::env::var("H_PERSIST_TRACE").is_err() {
		panic::set_hook(Box::new(|info| {
			let loc = info.location().map(|l| format!("{}:{}", l.file(), l.line())).unwrap_or_default();
			let msg = if let Some(s) = info.payload().downcast_ref::<&str>() {
				s.to_string()
			} else if let Some(s) = info.payload().downcast_ref::<String>() {
				s.clone()
			} else {
				String::new()
			};
			let mut g = LAST_PANIC.lock().unwrap();
			if g.is_empty() {
				*g = format!("{} at {}", msg.chars().take(160).collect::<String>(), loc);
			}
		}));
	}
	let mut rng = Rng(seed ^ 0x5eed_c12);
	for i in 0..n {
		let s = rng.next();
		let r = panic::catch_unwind(AssertUnwindSafe(|| scenario(s, steps)));
		let first_panic = std::mem::take(&mut *LAST_PANIC.lock().unwrap());
		match r {
			Ok((st, ops)) => {
				let fails: Vec<String> = st.fails.iter().map(|f| format!("\"{}\"", f.replace('\\', "/").replace('"', "'"))).collect();
				println!(
					"R {{\"scenario\": {}, \"seed\": {}, \"ok\": {}, \"steps\": {}, \"mon\": {}, \"mon_bytes_identical\": {}, \"upd\": {}, \"upd_commute\": {}, \"mgr\": {}, \"mgr_bytes_identical\": {}, \"graph\": {}, \"graph_bytes_identical\": {}, \"mutated\": {}, \"mutated_accepted\": {}, \"corrupt_panics\": {}, \"corrupt_unstable\": {}, \"corrupt_notes\": [{}], \"max_mon_len\": {}, \"max_mgr_len\": {}, \"ops\": \"{}\", \"fails\": [{}]}}",
					i, s, if st.fails.is_empty() { "true" } else { "false" }, st.steps, st.mon, st.mon_bytes_identical, st.upd, st.upd_commute,
					st.mgr, st.mgr_bytes_identical, st.graph, st.graph_bytes_identical, st.mutated, st.mutated_accepted, st.corrupt_panics, st.corrupt_unstable, st.corrupt_notes.iter().map(|f| format!("\"{}\"", f.replace('\\', "/").replace('"', "'"))).collect::<Vec<_>>().join(", "), st.max_mon_len, st.max_mgr_len, ops.join(","), fails.join(", ")
				);
			},
			Err(_) => println!(
				"R {{\"scenario\": {}, \"seed\": {}, \"ok\": false, \"fails\": [\"scenario panicked outside of a guarded read (LDK test-utility assertion or implementation panic): {}\"]}}",
				i,
				s,
				first_panic.replace('\\', "/").replace('"', "'").replace('\n', " ")
			),
		}
	}
}
