//! C15 back-pressure with the REAL socket driver: two `PeerManager`s connected through
//! `lightning_net_tokio::{setup_inbound, setup_outbound}` over a localhost TCP socket pair.
//!
//! `pause <seed> <n>`: A (outbound) and B (inbound) handshake and exchange Inits; A sends custom
//! messages; then B's routing handler reports `processing_queue_high()`, A sends a
//! channel_announcement, B writes something to A while backlogged, which makes the PeerManager call
//! `send_data(data, continue_read = false)`: the driver stops reading. A keeps sending. Then the
//! backlog clears and `process_events` runs, which resumes reading with `send_data(&[], true)`
//! (nothing is queued). Judge (implementation only, bounded waits): everything A sent, before,
//! during and after the pause, reaches B's handlers, in order, within the time limit.
//!
//! One JSON line per case. If no localhost socket can be opened the case reports `"skipped"`.
#[path = "../c15_common.rs"]
mod c15_common;
use bitcoin::secp256k1::{PublicKey, Secp256k1, SecretKey};
use c15_common::*;
use lightning::ln::msgs::{self, MessageSendEvent};
use lightning::ln::peer_handler::{IgnoringMessageHandler, MessageHandler, PeerManager};
use lightning::types::features::ChannelFeatures;
use lightning::util::test_utils::TestNodeSigner;
use lightning_net_tokio::SocketDescriptor;
use std::sync::atomic::Ordering;
use std::sync::{Arc, Mutex};
use std::time::{Duration, Instant};
use verif_harness::*;

type PM = PeerManager<
	SocketDescriptor,
	Arc<RecChan>,
	Arc<RecRoute>,
	Arc<RecOnion>,
	Arc<NullLogger>,
	Arc<RecCustom>,
	Arc<TestNodeSigner>,
	IgnoringMessageHandler,
>;

struct Node {
	pm: Arc<PM>,
	log: Log,
	chan: Arc<RecChan>,
	route: Arc<RecRoute>,
	custom: Arc<RecCustom>,
	id: PublicKey,
}
fn mk_node(secret: SecretKey, eph: u8) -> Node {
	let log: Log = Arc::new(Mutex::new(Vec::new()));
	let chan = Arc::new(RecChan { log: log.clone(), pending: Mutex::new(Vec::new()) });
	let custom = Arc::new(RecCustom { log: log.clone(), pending: Mutex::new(Vec::new()) });
	let route = Arc::new(RecRoute::new(log.clone(), false));
	let mh = MessageHandler {
		chan_handler: chan.clone(),
		route_handler: route.clone(),
		onion_message_handler: Arc::new(RecOnion { log: log.clone() }),
		custom_message_handler: custom.clone(),
		send_only_message_handler: IgnoringMessageHandler {},
	};
	let pm = Arc::new(PeerManager::new(mh, 0, &[eph; 32], Arc::new(NullLogger), Arc::new(TestNodeSigner::new(secret))));
	let id = PublicKey::from_secret_key(&Secp256k1::signing_only(), &secret);
	Node { pm, log, chan, route, custom, id }
}
fn key(r: &mut Rng) -> SecretKey {
	loop {
		let mut b = [0u8; 32];
		for i in 0..4 {
			b[i * 8..i * 8 + 8].copy_from_slice(&r.next().to_le_bytes());
		}
		if let Ok(k) = SecretKey::from_slice(&b) {
			return k;
		}
	}
}
fn msgs_in(log: &Log) -> Vec<String> {
	// custom messages only (the channel_update that comes with the announcement also reaches the channel handler)
	log.lock().unwrap().iter().filter(|l| l.len() >= 5 && l.starts_with('M') && u16::from_str_radix(&l[1..5], 16).map(|t| custom_known(t)).unwrap_or(false)).cloned().collect()
}
async fn wait_until<F: Fn() -> bool>(f: F, limit: Duration) -> bool {
	let t0 = Instant::now();
	while t0.elapsed() < limit {
		if f() {
			return true;
		}
		tokio::time::sleep(Duration::from_millis(5)).await;
	}
	f()
}

fn pause_case(seed: u64, n: usize, limit_ms: u64) -> String {
	let rt = match tokio::runtime::Builder::new_multi_thread().worker_threads(2).enable_all().build() {
		Ok(rt) => rt,
		Err(e) => return format!("{{\"mode\":\"tokio\",\"skipped\":\"no runtime: {}\"}}", e),
	};
	let limit = Duration::from_millis(limit_ms);
	rt.block_on(async move {
		let mut r = Rng(seed);
		let a = mk_node(key(&mut r), 1);
		let b = mk_node(key(&mut r), 2);
		let listener = match std::net::TcpListener::bind("127.0.0.1:0") {
			Ok(l) => l,
			Err(e) => return format!("{{\"mode\":\"tokio\",\"skipped\":\"cannot bind a localhost socket: {}\"}}", e),
		};
		let addr = listener.local_addr().unwrap();
		let out = match std::net::TcpStream::connect(addr) {
			Ok(s) => s,
			Err(e) => return format!("{{\"mode\":\"tokio\",\"skipped\":\"cannot connect to localhost: {}\"}}", e),
		};
		let (inc, _) = match listener.accept() {
			Ok(x) => x,
			Err(e) => return format!("{{\"mode\":\"tokio\",\"skipped\":\"cannot accept: {}\"}}", e),
		};
		let ha = tokio::spawn(lightning_net_tokio::setup_outbound(a.pm.clone(), b.id, out));
		let hb = tokio::spawn(lightning_net_tokio::setup_inbound(b.pm.clone(), inc));
		let mut why: Vec<String> = vec![];
		let mut sent: Vec<String> = vec![];
		let mut pause_engaged = false;
		let t_start = Instant::now();
		let (apm, bpm, aid, bid) = (a.pm.clone(), b.pm.clone(), a.id, b.id);
		if !wait_until(|| apm.peer_by_node_id(&bid).is_some() && bpm.peer_by_node_id(&aid).is_some(), limit).await {
			why.push("handshake / Init exchange did not complete in time".to_string());
		}
		let send_customs = |k: usize, r: &mut Rng, sent: &mut Vec<String>| {
			for _ in 0..k {
				let ty = 32768 + (r.below(27000) as u16 | 1);
				let len = match r.below(8) {
					0 => 0,
					1 => 3000 + r.below(20000) as usize,
					_ => 1 + r.below(200) as usize,
				};
				let payload: Vec<u8> = (0..len).map(|_| r.next() as u8).collect();
				sent.push(format!("M{}", hex(&encoded(ty, &payload))));
				a.custom.pending.lock().unwrap().push((b.id, RawMsg { ty, payload }));
			}
			a.pm.process_events();
		};
		if why.is_empty() {
			// phase 1: plain traffic
			send_customs(n, &mut r, &mut sent);
			let (blog, want) = (b.log.clone(), sent.len());
			if !wait_until(|| msgs_in(&blog).len() >= want, limit).await {
				why.push(format!("phase 1: {} of {} messages delivered in time", msgs_in(&b.log).len(), want));
			}
		}
		if why.is_empty() {
			// phase 2: B becomes gossip-backlogged, A announces a channel, B writes to A: reads get paused
			b.route.queue_high.store(true, Ordering::Release);
			let ann = msgs::ChannelAnnouncement {
				node_signature_1: sig(),
				node_signature_2: sig(),
				bitcoin_signature_1: sig(),
				bitcoin_signature_2: sig(),
				contents: msgs::UnsignedChannelAnnouncement {
					features: ChannelFeatures::empty(),
					chain_hash: bitcoin::constants::ChainHash::using_genesis_block(bitcoin::Network::Testnet),
					short_channel_id: 42,
					node_id_1: lightning::routing::gossip::NodeId::from_pubkey(&a.id),
					node_id_2: lightning::routing::gossip::NodeId::from_pubkey(&b.id),
					bitcoin_key_1: lightning::routing::gossip::NodeId::from_pubkey(&a.id),
					bitcoin_key_2: lightning::routing::gossip::NodeId::from_pubkey(&b.id),
					excess_data: Vec::new(),
				},
			};
			a.chan.pending.lock().unwrap().push(MessageSendEvent::SendChannelAnnouncement {
				node_id: b.id,
				msg: ann,
				update_msg: msgs::ChannelUpdate {
					signature: sig(),
					contents: msgs::UnsignedChannelUpdate {
						chain_hash: bitcoin::constants::ChainHash::using_genesis_block(bitcoin::Network::Testnet),
						short_channel_id: 42,
						timestamp: 1,
						message_flags: 1,
						channel_flags: 0,
						cltv_expiry_delta: 40,
						htlc_minimum_msat: 1,
						htlc_maximum_msat: 100_000,
						fee_base_msat: 1,
						fee_proportional_millionths: 1,
						excess_data: Vec::new(),
					},
				},
			});
			a.pm.process_events();
			let blog = b.log.clone();
			if !wait_until(|| blog.lock().unwrap().iter().any(|l| l == "H:channel_announcement"), limit).await {
				why.push("phase 2: the channel_announcement did not reach B's routing handler in time".to_string());
			}
		}
		if why.is_empty() {
			// B answers something while backlogged: send_data(data, continue_read = false)
			b.custom.pending.lock().unwrap().push((a.id, RawMsg { ty: 32769, payload: vec![7; 10] }));
			b.pm.process_events();
			let alog = a.log.clone();
			if !wait_until(|| msgs_in(&alog).len() >= 1, limit).await {
				why.push("phase 2: B's message did not reach A in time".to_string());
			}
			// A keeps sending while B does not read
			let before = msgs_in(&b.log).len();
			send_customs(n, &mut r, &mut sent);
			tokio::time::sleep(Duration::from_millis(250)).await;
			pause_engaged = msgs_in(&b.log).len() == before;
		}
		if why.is_empty() {
			// phase 3: the backlog clears; process_events must resume reading, with nothing queued
			b.route.queue_high.store(false, Ordering::Release);
			b.pm.process_events();
			send_customs(n, &mut r, &mut sent);
			let (blog, want) = (b.log.clone(), sent.len());
			if !wait_until(|| msgs_in(&blog).len() >= want, limit).await {
				why.push(format!(
					"after the gossip backlog cleared and process_events ran, only {} of the {} messages the peer sent were delivered within {} ms (reads stayed paused)",
					msgs_in(&b.log).len(),
					want,
					limit_ms
				));
			}
		}
		let got = msgs_in(&b.log);
		if why.is_empty() && got != sent {
			let first = got.iter().zip(sent.iter()).position(|(x, y)| x != y).unwrap_or(core::cmp::min(got.len(), sent.len()));
			why.push(format!("B received {} messages for {} sent; first difference at index {}", got.len(), sent.len(), first));
		}
		if b.log.lock().unwrap().iter().any(|l| l == "X") || a.log.lock().unwrap().iter().any(|l| l == "X") {
			why.push("a peer disconnected".to_string());
		}
		a.pm.disconnect_all_peers();
		b.pm.disconnect_all_peers();
		ha.abort();
		hb.abort();
		format!(
			"{{\"mode\":\"tokio\",\"seed\":{},\"ok\":{},\"why\":[{}],\"sent\":{},\"delivered\":{},\"pause_engaged\":{},\"ms\":{}}}",
			seed,
			why.is_empty(),
			why.iter().map(|w| format!("\"{}\"", w.replace('"', "'"))).collect::<Vec<_>>().join(","),
			sent.len(),
			got.len(),
			pause_engaged,
			t_start.elapsed().as_millis()
		)
	})
}
fn sig() -> bitcoin::secp256k1::ecdsa::Signature {
	bitcoin::secp256k1::ecdsa::Signature::from_compact(&[1u8; 64]).unwrap()
}

fn main() {
	for_each_case(|l| {
		let t: Vec<&str> = l.split_whitespace().collect();
		match t[0] {
			"pause" => pause_case(t[1].parse().unwrap(), t[2].parse().unwrap(), t.get(3).map(|x| x.parse().unwrap()).unwrap_or(5000)),
			_ => "BADCMD".to_string(),
		}
	});
}
