//! C20 functional correspondence: lightning-block-sync's `SpvClient` and `init::synchronize_listeners`
//! driven over a generated tree of REAL regtest headers by a scripted, fault-injecting `BlockSource`.
//!
//! Input (stdin), line oriented:
//!   tree <tid>
//!   b <id> <parent|-1> <bitsvar 0..2> <txkind 0..2> <salt>   block with real header, nonce grinded
//!   bad <id> <of>                                             same header as <of>, nonce FAILING PoW
//!   endtree           -> "tree <tid> <id>:<parent>:<height>:<work>:<chainwork>:<pow> ..."
//!   spv <sid> <full|hdr> <start_id> [shape]   SpvClient with empty HeaderCache at <start_id>; shape = how the
//!                                             listener is composed (0 leaf, 1 (A,B), 2 ((A,B),C), 3 (A,(B,C)), 4 (dyn Deref,B),
//!                                             5 Box<(A,B)>, 6 Arc<(&A,&B)>, 7 &((&A,&B),&C)); one log per LEAF is printed
//!   init <sid> <full|hdr>                 init::synchronize_listeners, then SpvClient on its result
//!   l <block_id> <height> <p1> .. <p12> [shape]   listener locator (0 = None) and composition (shapes 0-4); init only
//!   f <idx> <fault>                       fault at global request index <idx> of this scenario:
//!        T | P                   transient / persistent source error
//!        S:<y>:<dh>:<dw>         answer as for block <y>, claimed height + dh, claimed chainwork + dw
//!        F:<dh>:<dw>             answer for the requested block itself with shifted height / chainwork claims
//!        M                       (get_block) full block with corrupted transaction list
//!        H                       (get_block) flip full block <-> header only
//!   sync <best_id> <hint 0|1>             -> "S <rc> <nreq> | <log l0> | <log l1> ..."
//!   poll <best_id> <hint 0|1>             -> "P <rc> <nreq> | <log>"   (init: "| <log l0> | <log l1>")
//!   end
//! rc: C | B<id>+ | B<id>- | W<id>- | ET:<msg> | EP:<msg> | Ok<id> (sync) | X (skipped after failed sync)
//! log events: D<id>@<h> (blocks_disconnected fork point), C<id>@<h> (block_connected),
//!             c<id>@<h> (filtered_block_connected)
use std::collections::HashMap;
use std::future::Future;
use std::io::{self, BufRead, Write};
use std::panic::{self, AssertUnwindSafe};
use std::pin::Pin;
use std::sync::{Arc, Mutex};
use std::task::{Context, Poll as TaskPoll, RawWaker, RawWakerVTable, Waker};

use bitcoin::absolute::LockTime;
use bitcoin::block::{Block, Header, Version};
use bitcoin::hash_types::{BlockHash, TxMerkleNode};
use bitcoin::hashes::Hash;
use bitcoin::network::Network;
use bitcoin::pow::{CompactTarget, Work};
use bitcoin::script::Builder;
use bitcoin::transaction;
use bitcoin::{Amount, OutPoint, ScriptBuf, Sequence, Transaction, TxIn, TxOut, Witness};

use lightning::chain::transaction::TransactionData;
use lightning::chain::{BlockLocator, Listen};
use lightning_block_sync::init::synchronize_listeners;
use lightning_block_sync::poll::{ChainPoller, ChainTip, Validate, ValidatedBlockHeader};
use lightning_block_sync::{
	BlockData, BlockHeaderData, BlockSource, BlockSourceError, BlockSourceErrorKind, BlockSourceResult,
	HeaderCache, SpvClient,
};

// ---------------------------------------------------------------- minimal executor
fn rw_clone(_: *const ()) -> RawWaker {
	RawWaker::new(core::ptr::null(), &VT)
}
fn rw_nop(_: *const ()) {}
static VT: RawWakerVTable = RawWakerVTable::new(rw_clone, rw_nop, rw_nop, rw_nop);
fn block_on<F: Future>(f: F) -> F::Output {
	let mut f: Pin<Box<F>> = Box::pin(f);
	let waker = unsafe { Waker::from_raw(RawWaker::new(core::ptr::null(), &VT)) };
	let mut cx = Context::from_waker(&waker);
	loop {
		if let TaskPoll::Ready(v) = f.as_mut().poll(&mut cx) {
			return v;
		}
	}
}

// ---------------------------------------------------------------- block tree
#[derive(Clone)]
struct Blk {
	id: u32,
	parent: i64,
	header: Header,
	txdata: Vec<Transaction>,
	height: u32,
	work: u128,
	chainwork: u128,
	pow_ok: bool,
}

fn work_u128(w: Work) -> u128 {
	let b = w.to_be_bytes();
	let mut lo = [0u8; 16];
	lo.copy_from_slice(&b[16..]);
	u128::from_be_bytes(lo)
}
fn work_from(v: i128) -> Work {
	let v = if v < 0 { 0u128 } else { v as u128 };
	let mut b = [0u8; 32];
	b[16..].copy_from_slice(&v.to_be_bytes());
	Work::from_be_bytes(b)
}

fn coinbase(height: u32, salt: u32) -> Transaction {
	let script_sig = Builder::new().push_int(height as i64).push_int(salt as i64 + 17).into_script();
	Transaction {
		version: transaction::Version(2),
		lock_time: LockTime::ZERO,
		input: vec![TxIn {
			previous_output: OutPoint::null(),
			script_sig,
			sequence: Sequence::MAX,
			witness: Witness::new(),
		}],
		output: vec![TxOut { value: Amount::from_sat(50_0000_0000), script_pubkey: ScriptBuf::new() }],
	}
}
fn plain_tx(salt: u32, with_witness: bool) -> Transaction {
	let mut witness = Witness::new();
	if with_witness {
		witness.push(vec![1u8, 2, 3]);
	}
	let mut txid_bytes = [7u8; 32];
	txid_bytes[..4].copy_from_slice(&salt.to_le_bytes());
	Transaction {
		version: transaction::Version(2),
		lock_time: LockTime::ZERO,
		input: vec![TxIn {
			previous_output: OutPoint { txid: bitcoin::Txid::from_byte_array(txid_bytes), vout: 0 },
			script_sig: ScriptBuf::new(),
			sequence: Sequence::MAX,
			witness,
		}],
		output: vec![TxOut { value: Amount::from_sat(1000), script_pubkey: ScriptBuf::new() }],
	}
}

struct Tree {
	blocks: Vec<Blk>,
	by_id: HashMap<u32, usize>,
	by_hash: HashMap<BlockHash, usize>,
}

impl Tree {
	fn new() -> Self {
		Tree { blocks: Vec::new(), by_id: HashMap::new(), by_hash: HashMap::new() }
	}
	fn add(&mut self, id: u32, parent: i64, bitsvar: u32, txkind: u32, salt: u32) {
		let (prev_blockhash, height, prev_cw, prev_time) = if parent < 0 {
			(BlockHash::all_zeros(), 0u32, 0u128, 1_600_000_000u32)
		} else {
			let p = &self.blocks[self.by_id[&(parent as u32)]];
			(p.header.block_hash(), p.height + 1, p.chainwork, p.header.time)
		};
		let bits = match bitsvar {
			0 => 0x207fffffu32,
			1 => 0x203fffffu32,
			_ => 0x201fffffu32,
		};
		let mut txdata = vec![coinbase(height, salt)];
		if txkind == 1 {
			txdata.push(plain_tx(salt, false));
		} else if txkind == 2 {
			txdata.push(plain_tx(salt, true));
		}
		let mut block = Block {
			header: Header {
				version: Version::NO_SOFT_FORK_SIGNALLING,
				prev_blockhash,
				merkle_root: TxMerkleNode::all_zeros(),
				time: prev_time + 600,
				bits: CompactTarget::from_consensus(bits),
				nonce: 0,
			},
			txdata,
		};
		block.header.merkle_root = block.compute_merkle_root().unwrap();
		while block.header.validate_pow(block.header.target()).is_err() {
			block.header.nonce += 1;
		}
		let work = work_u128(block.header.work());
		let b = Blk {
			id,
			parent,
			header: block.header,
			txdata: block.txdata,
			height,
			work,
			chainwork: prev_cw + work,
			pow_ok: true,
		};
		self.push(b);
	}
	fn add_bad(&mut self, id: u32, of: u32) {
		let mut b = self.blocks[self.by_id[&of]].clone();
		b.id = id;
		b.header.nonce = 0;
		while b.header.validate_pow(b.header.target()).is_ok() {
			b.header.nonce += 1;
		}
		b.pow_ok = false;
		self.push(b);
	}
	fn push(&mut self, b: Blk) {
		self.by_id.insert(b.id, self.blocks.len());
		self.by_hash.insert(b.header.block_hash(), self.blocks.len());
		self.blocks.push(b);
	}
	fn get(&self, id: u32) -> &Blk {
		&self.blocks[self.by_id[&id]]
	}
	fn name(&self, h: &BlockHash) -> String {
		match self.by_hash.get(h) {
			Some(i) => format!("{}", self.blocks[*i].id),
			None => "?".to_string(),
		}
	}
	fn validated(&self, id: u32) -> ValidatedBlockHeader {
		let b = self.get(id);
		BlockHeaderData { header: b.header, height: b.height, chainwork: work_from(b.chainwork as i128) }
			.validate(b.header.block_hash())
			.unwrap()
	}
}

// ---------------------------------------------------------------- scripted source
#[derive(Clone, Debug)]
enum Fault {
	T,
	P,
	S(u32, i64, i128),
	F(i64, i128),
	M,
	H,
}

struct SrcState {
	best: u32,
	hint: bool,
	n: usize,
	faults: HashMap<usize, Fault>,
	full: bool,
}
struct Src {
	tree: Arc<Tree>,
	st: Mutex<SrcState>,
}

impl Src {
	fn next(&self) -> (usize, Option<Fault>) {
		let mut st = self.st.lock().unwrap();
		let i = st.n;
		st.n += 1;
		(i, st.faults.get(&i).cloned())
	}
}

impl BlockSource for Src {
	fn get_header<'a>(
		&'a self, header_hash: &'a BlockHash, _height_hint: Option<u32>,
	) -> impl Future<Output = BlockSourceResult<BlockHeaderData>> + Send + 'a {
		async move {
			let (_, fault) = self.next();
			let (mut idx, mut dh, mut dw) = (self.tree.by_hash.get(header_hash).copied(), 0i64, 0i128);
			match fault {
				Some(Fault::T) => return Err(BlockSourceError::transient("scripted transient")),
				Some(Fault::P) => return Err(BlockSourceError::persistent("scripted persistent")),
				Some(Fault::S(y, a, b)) => {
					idx = self.tree.by_id.get(&y).copied();
					dh = a;
					dw = b;
				},
				Some(Fault::F(a, b)) => {
					dh = a;
					dw = b;
				},
				_ => {},
			}
			match idx {
				None => Err(BlockSourceError::transient("header not found")),
				Some(i) => {
					let b = &self.tree.blocks[i];
					Ok(BlockHeaderData {
						header: b.header,
						height: (b.height as i64 + dh).max(0) as u32,
						chainwork: work_from(b.chainwork as i128 + dw),
					})
				},
			}
		}
	}

	fn get_block<'a>(
		&'a self, header_hash: &'a BlockHash,
	) -> impl Future<Output = BlockSourceResult<BlockData>> + Send + 'a {
		async move {
			let (_, fault) = self.next();
			let mut idx = self.tree.by_hash.get(header_hash).copied();
			let mut full = self.st.lock().unwrap().full;
			let mut corrupt = false;
			match fault {
				Some(Fault::T) => return Err(BlockSourceError::transient("scripted transient")),
				Some(Fault::P) => return Err(BlockSourceError::persistent("scripted persistent")),
				Some(Fault::S(y, _, _)) => idx = self.tree.by_id.get(&y).copied(),
				Some(Fault::M) => corrupt = true,
				Some(Fault::H) => full = !full,
				Some(Fault::F(_, _)) | None => {},
			}
			match idx {
				None => Err(BlockSourceError::transient("block not found")),
				Some(i) => {
					let b = &self.tree.blocks[i];
					if full {
						let mut txdata = b.txdata.clone();
						if corrupt {
							txdata.push(plain_tx(0xfeed, false));
						}
						Ok(BlockData::FullBlock(Block { header: b.header, txdata }))
					} else {
						Ok(BlockData::HeaderOnly(b.header))
					}
				},
			}
		}
	}

	fn get_best_block<'a>(
		&'a self,
	) -> impl Future<Output = BlockSourceResult<(BlockHash, Option<u32>)>> + Send + 'a {
		async move {
			let (_, fault) = self.next();
			let (mut best, hint) = {
				let st = self.st.lock().unwrap();
				(st.best, st.hint)
			};
			let mut dh = 0i64;
			match fault {
				Some(Fault::T) => return Err(BlockSourceError::transient("scripted transient")),
				Some(Fault::P) => return Err(BlockSourceError::persistent("scripted persistent")),
				Some(Fault::S(y, a, _)) => {
					best = y;
					dh = a;
				},
				Some(Fault::F(a, _)) => dh = a,
				_ => {},
			}
			let b = self.tree.get(best);
			let h = if hint { Some((b.height as i64 + dh).max(0) as u32) } else { None };
			Ok((b.header.block_hash(), h))
		}
	}
}

// ---------------------------------------------------------------- recording listener
struct Rec {
	tree: Arc<Tree>,
	ev: Mutex<Vec<String>>,
}
impl Rec {
	fn new(tree: Arc<Tree>) -> Self {
		Rec { tree, ev: Mutex::new(Vec::new()) }
	}
	fn take(&self) -> String {
		let v: Vec<String> = self.ev.lock().unwrap().drain(..).collect();
		v.join(" ")
	}
}
impl Listen for Rec {
	fn filtered_block_connected(&self, header: &Header, txdata: &TransactionData, height: u32) {
		// a full block reaches the leaves of a tuple combinator through the default `block_connected`,
		// i.e. as `filtered_block_connected` with the block's complete transaction list
		let kind = if txdata.is_empty() { "c" } else { "C" };
		self.ev.lock().unwrap().push(format!("{}{}@{}", kind, self.tree.name(&header.block_hash()), height));
	}
	fn block_connected(&self, block: &Block, height: u32) {
		self.ev.lock().unwrap().push(format!("C{}@{}", self.tree.name(&block.header.block_hash()), height));
	}
	fn blocks_disconnected(&self, fork_point: BlockLocator) {
		let extra = if fork_point.previous_blocks.iter().any(|p| p.is_some()) { "!prev" } else { "" };
		self.ev.lock().unwrap().push(format!("D{}@{}{}", self.tree.name(&fork_point.block_hash), fork_point.height, extra));
	}
}
struct Fan<'a>(Vec<&'a dyn Listen>);
impl<'a> Listen for Fan<'a> {
	fn filtered_block_connected(&self, header: &Header, txdata: &TransactionData, height: u32) {
		for l in self.0.iter() {
			l.filtered_block_connected(header, txdata, height);
		}
	}
	fn block_connected(&self, block: &Block, height: u32) {
		for l in self.0.iter() {
			l.block_connected(block, height);
		}
	}
	fn blocks_disconnected(&self, fork_point: BlockLocator) {
		for l in self.0.iter() {
			l.blocks_disconnected(fork_point);
		}
	}
}

/// Composed listeners built only from the blanket impls of lightning/src/chain/mod.rs:
/// `impl Listen for (T, U)` (T, U: Deref, Target: Listen) and `impl Listen for dyn Deref<Target = T>`.
enum Comp {
	S0(Arc<Rec>),
	S1((Arc<Rec>, Arc<Rec>)),
	S2((Box<(Arc<Rec>, Arc<Rec>)>, Arc<Rec>)),
	S3((Arc<Rec>, Box<(Arc<Rec>, Arc<Rec>)>)),
	S4((Box<dyn std::ops::Deref<Target = Rec>>, Arc<Rec>)),
}
fn shape_leaves(shape: u32) -> usize {
	match shape {
		0 => 1,
		2 | 3 => 3,
		_ => 2,
	}
}
impl Comp {
	fn new(shape: u32, tree: &Arc<Tree>) -> (Comp, Vec<Arc<Rec>>) {
		let l: Vec<Arc<Rec>> = (0..shape_leaves(shape)).map(|_| Arc::new(Rec::new(tree.clone()))).collect();
		let c = match shape {
			0 => Comp::S0(l[0].clone()),
			2 => Comp::S2((Box::new((l[0].clone(), l[1].clone())), l[2].clone())),
			3 => Comp::S3((l[0].clone(), Box::new((l[1].clone(), l[2].clone())))),
			4 => Comp::S4((Box::new(l[0].clone()), l[1].clone())),
			_ => Comp::S1((l[0].clone(), l[1].clone())),
		};
		(c, l)
	}
	fn as_listen(&self) -> &dyn Listen {
		match self {
			Comp::S0(a) => &**a,
			Comp::S1(t) => t,
			Comp::S2(t) => t,
			Comp::S3(t) => t,
			Comp::S4(t) => t,
		}
	}
}

// ---------------------------------------------------------------- scenarios
fn err_str(e: BlockSourceError) -> String {
	let k = match e.kind() {
		BlockSourceErrorKind::Transient => "T",
		BlockSourceErrorKind::Persistent => "P",
	};
	format!("E{}:{}", k, e.into_inner().to_string().replace(' ', "_"))
}

fn parse_fault(s: &str) -> Fault {
	let p: Vec<&str> = s.split(':').collect();
	match p[0] {
		"T" => Fault::T,
		"P" => Fault::P,
		"M" => Fault::M,
		"H" => Fault::H,
		"S" => Fault::S(p[1].parse().unwrap(), p[2].parse().unwrap(), p[3].parse().unwrap()),
		"F" => Fault::F(p[1].parse().unwrap(), p[2].parse().unwrap()),
		_ => panic!("bad fault {}", s),
	}
}

fn poll_rc(tree: &Tree, r: BlockSourceResult<(ChainTip, bool)>) -> String {
	match r {
		Err(e) => err_str(e),
		Ok((tip, conn)) => {
			let c = if conn { "+" } else { "-" };
			match tip {
				ChainTip::Common => format!("C{}", if conn { "+" } else { "" }),
				ChainTip::Better(h) => format!("B{}@{}w{}{}", tree.name(&h.header.block_hash()), h.height, work_u128(h.chainwork), c),
				ChainTip::Worse(h) => format!("W{}@{}w{}{}", tree.name(&h.header.block_hash()), h.height, work_u128(h.chainwork), c),
			}
		},
	}
}

fn run_scenario(tree: &Arc<Tree>, lines: &[String], out: &mut Vec<String>) {
	let head: Vec<&str> = lines[0].split_whitespace().collect();
	let kind = head[0];
	let full = head[2] == "full";
	let src = Src {
		tree: tree.clone(),
		st: Mutex::new(SrcState { best: 0, hint: true, n: 0, faults: HashMap::new(), full }),
	};
	let mut locs: Vec<BlockLocator> = Vec::new();
	let mut shapes: Vec<u32> = Vec::new();
	let mut rest: Vec<Vec<&str>> = Vec::new();
	for l in &lines[1..] {
		let t: Vec<&str> = l.split_whitespace().collect();
		match t[0] {
			"f" => {
				src.st.lock().unwrap().faults.insert(t[1].parse().unwrap(), parse_fault(t[2]));
			},
			"l" => {
				let b = tree.get(t[1].parse().unwrap());
				let mut loc = BlockLocator::new(b.header.block_hash(), t[2].parse().unwrap());
				for (i, p) in t[3..15.min(t.len())].iter().enumerate() {
					let pid: u32 = p.parse().unwrap();
					if pid != 0 && i < loc.previous_blocks.len() {
						loc.previous_blocks[i] = Some(tree.get(pid).header.block_hash());
					}
				}
				locs.push(loc);
				shapes.push(t.get(15).and_then(|x| x.parse().ok()).unwrap_or(0));
			},
			_ => rest.push(t),
		}
	}
	let set_best = |t: &Vec<&str>| {
		let mut st = src.st.lock().unwrap();
		st.best = t[1].parse().unwrap();
		st.hint = t[2] == "1";
	};
	let nreq = || src.st.lock().unwrap().n;
	if kind == "spv" {
		let start: u32 = head[3].parse().unwrap();
		let shape: u32 = head.get(4).and_then(|x| x.parse().ok()).unwrap_or(0);
		let polls: Vec<Vec<&str>> = rest.iter().filter(|t| t[0] == "poll").cloned().collect();
		let tip = tree.validated(start);
		// the way the composed listener is handed to SpvClient (L: Deref, L::Target: Listen)
		match shape {
			5 => {
				let l: Vec<Arc<Rec>> = (0..2).map(|_| Arc::new(Rec::new(tree.clone()))).collect();
				drive(tree, &src, tip, Box::new((l[0].clone(), l[1].clone())), &l, &polls, out);
			},
			6 => {
				let l: Vec<Arc<Rec>> = (0..2).map(|_| Arc::new(Rec::new(tree.clone()))).collect();
				let inner = (&*l[0], &*l[1]);
				drive(tree, &src, tip, Arc::new(inner), &l, &polls, out);
			},
			7 => {
				// plain references all the way: &((&A, &B), &C)
				let l: Vec<Arc<Rec>> = (0..3).map(|_| Arc::new(Rec::new(tree.clone()))).collect();
				let inner = (&*l[0], &*l[1]);
				let outer = (&inner, &*l[2]);
				drive(tree, &src, tip, &outer, &l, &polls, out);
			},
			_ => {
				let (comp, l) = Comp::new(shape, tree);
				drive(tree, &src, tip, comp.as_listen(), &l, &polls, out);
			},
		}
	} else {
		let mut comps: Vec<Comp> = Vec::new();
		let mut leaves: Vec<Arc<Rec>> = Vec::new();
		for sh in shapes.iter() {
			let (c, l) = Comp::new(*sh, tree);
			comps.push(c);
			leaves.extend(l);
		}
		let mut it = rest.iter();
		let mut state: Option<(HeaderCache, ValidatedBlockHeader)> = None;
		let mut synced = false;
		let mut client = None;
		let fan = Fan(comps.iter().map(|c| c.as_listen()).collect());
		for t in &mut it {
			if t[0] == "sync" {
				set_best(t);
				let listeners: Vec<(BlockLocator, &dyn Listen)> =
					locs.iter().cloned().zip(comps.iter().map(|c| c.as_listen())).collect();
				let r = block_on(synchronize_listeners(&src, Network::Regtest, listeners));
				let rc = match r {
					Err(e) => err_str(e),
					Ok((cache, tip)) => {
						let s = format!("Ok{}@{}w{}", tree.name(&tip.header.block_hash()), tip.height, work_u128(tip.chainwork));
						state = Some((cache, tip));
						s
					},
				};
				let logs: Vec<String> = leaves.iter().map(|r| r.take()).collect();
				out.push(format!("S {} {} | {}", rc, nreq(), logs.join(" | ")));
				synced = true;
			} else if t[0] == "poll" {
				if !synced || (state.is_none() && client.is_none()) {
					out.push("P X".to_string());
					continue;
				}
				if client.is_none() {
					let (cache, tip) = state.take().unwrap();
					client = Some(SpvClient::new(tip, ChainPoller::new(&src, Network::Regtest), cache, &fan));
				}
				set_best(t);
				let r = block_on(client.as_mut().unwrap().poll_best_tip());
				let logs: Vec<String> = leaves.iter().map(|r| r.take()).collect();
				out.push(format!("P {} {} | {}", poll_rc(tree, r), nreq(), logs.join(" | ")));
			}
		}
	}
}

fn drive<L: std::ops::Deref>(
	tree: &Arc<Tree>, src: &Src, tip: ValidatedBlockHeader, listener: L, leaves: &[Arc<Rec>], polls: &[Vec<&str>],
	out: &mut Vec<String>,
) where
	L::Target: Listen,
{
	let poller = ChainPoller::new(src, Network::Regtest);
	let mut client = SpvClient::new(tip, poller, HeaderCache::new(), listener);
	for t in polls.iter() {
		{
			let mut st = src.st.lock().unwrap();
			st.best = t[1].parse().unwrap();
			st.hint = t[2] == "1";
		}
		let r = block_on(client.poll_best_tip());
		let n = src.st.lock().unwrap().n;
		let logs: Vec<String> = leaves.iter().map(|r| r.take()).collect();
		out.push(format!("P {} {} | {}", poll_rc(tree, r), n, logs.join(" | ")));
	}
}

thread_local! { static LAST_PANIC: std::cell::RefCell<String> = std::cell::RefCell::new(String::new()); }

fn main() {
	panic::set_hook(Box::new(|info| {
		let msg = format!("{}", info).replace('\n', " ");
		LAST_PANIC.with(|p| *p.borrow_mut() = msg);
	}));
	let stdin = io::stdin();
	let stdout = io::stdout();
	let mut w = io::BufWriter::new(stdout.lock());
	let mut tree = Tree::new();
	let mut tree_arc: Arc<Tree> = Arc::new(Tree::new());
	let mut tid = String::new();
	let mut scen: Vec<String> = Vec::new();
	for line in stdin.lock().lines() {
		let line = line.unwrap();
		let l = line.trim();
		if l.is_empty() || l.starts_with('#') {
			continue;
		}
		let t: Vec<&str> = l.split_whitespace().collect();
		match t[0] {
			"tree" => {
				tree = Tree::new();
				tid = t[1].to_string();
			},
			"b" => tree.add(
				t[1].parse().unwrap(),
				t[2].parse().unwrap(),
				t[3].parse().unwrap(),
				t[4].parse().unwrap(),
				t[5].parse().unwrap(),
			),
			"bad" => tree.add_bad(t[1].parse().unwrap(), t[2].parse().unwrap()),
			"endtree" => {
				let infos: Vec<String> = tree
					.blocks
					.iter()
					.map(|b| format!("{}:{}:{}:{}:{}:{}", b.id, b.parent, b.height, b.work, b.chainwork, if b.pow_ok { 1 } else { 0 }))
					.collect();
				writeln!(w, "tree {} {}", tid, infos.join(" ")).unwrap();
				tree_arc = Arc::new(std::mem::replace(&mut tree, Tree::new()));
			},
			"spv" | "init" => {
				scen.clear();
				scen.push(l.to_string());
			},
			"end" => {
				let mut out = Vec::new();
				let r = panic::catch_unwind(AssertUnwindSafe(|| run_scenario(&tree_arc, &scen, &mut out)));
				writeln!(w, "scenario {}", scen[0]).unwrap();
				for o in out {
					writeln!(w, "{}", o).unwrap();
				}
				if r.is_err() {
					let msg = LAST_PANIC.with(|p| p.borrow().clone());
					writeln!(w, "PANIC {}", msg).unwrap();
				}
				writeln!(w, "endscenario").unwrap();
			},
			_ => scen.push(l.to_string()),
		}
	}
	w.flush().unwrap();
}
