//! C18 harness: BOLT 11 / BOLT 12 payment requests.
//!
//!   h_invoice eval                 line-oriented functional interface (stdin -> stdout), used for
//!                                  model-vs-implementation comparison and for replays
//!   h_invoice gen <tier> <seed>    seeded generation of objects over the builders' field grid,
//!                                  round-trip judge, mutation streams; prints JSON lines
//!
//! Every call into the library is wrapped in catch_unwind; a panic is reported, never swallowed.
#![allow(clippy::all)]
use std::panic::{self, AssertUnwindSafe};
use std::time::Duration;

use bitcoin::bech32::primitives::decode::CheckedHrpstring;
use bitcoin::bech32::{Bech32, ByteIterExt, Fe32, Fe32IterExt, Hrp};
use bitcoin::hashes::{sha256, Hash};
use bitcoin::secp256k1::{Keypair, PublicKey, Secp256k1, SecretKey};
use bitcoin::{Network, PubkeyHash, ScriptHash, WitnessVersion};

use lightning::blinded_path::message::BlindedMessagePath;
use lightning::blinded_path::payment::{BlindedPayInfo, BlindedPaymentPath};
use lightning::blinded_path::BlindedHop;
use lightning::ln::channelmanager::PaymentId;
use lightning::ln::inbound_payment::ExpandedKey;
use lightning::offers::invoice::Bolt12Invoice;
use lightning::offers::invoice_request::{InvoiceRequest, InvoiceRequestVerifiedFromOffer};
use lightning::offers::merkle::verif_hooks_offers_merkle as mh;
use lightning::offers::nonce::Nonce;
use lightning::offers::offer::{Amount, Offer, OfferBuilder, Quantity};
use lightning::offers::refund::{Refund, RefundBuilder};
use lightning::offers::static_invoice::{StaticInvoice, StaticInvoiceBuilder};
use lightning::types::features::BlindedHopFeatures;
use lightning::util::ser::Writeable;
use lightning_invoice::{
	Bolt11Bech32, Bolt11Invoice, Bolt11InvoiceDescriptionRef, Currency, Fallback, InvoiceBuilder,
	PaymentHash, PaymentSecret, RawBolt11Invoice, RouteHint, RouteHintHop, RoutingFees,
	SignedRawBolt11Invoice,
};
use verif_harness::*;

const CHARSET: &[u8; 32] = b"qpzry9x8gf2tvdw0s3jn54khce6mua7l";

fn fe_of_char(c: u8) -> Option<u8> {
	let l = c.to_ascii_lowercase();
	CHARSET.iter().position(|&x| x == l).map(|p| p as u8)
}

fn guard<T, F: FnOnce() -> T>(f: F) -> Result<T, ()> {
	panic::catch_unwind(AssertUnwindSafe(f)).map_err(|_| ())
}

fn jstr(s: &str) -> String {
	let mut o = String::from("\"");
	for c in s.chars() {
		match c {
			'"' => o.push_str("\\\""),
			'\\' => o.push_str("\\\\"),
			c if (c as u32) < 0x20 => o.push_str(&format!("\\u{:04x}", c as u32)),
			c => o.push(c),
		}
	}
	o.push('"');
	o
}

/// Minimal JSON object writer.
struct J(Vec<String>);
impl J {
	fn new(kind: &str) -> J {
		J(vec![format!("\"k\":{}", jstr(kind))])
	}
	fn s(mut self, k: &str, v: &str) -> J {
		self.0.push(format!("{}:{}", jstr(k), jstr(v)));
		self
	}
	fn n<T: std::fmt::Display>(mut self, k: &str, v: T) -> J {
		self.0.push(format!("{}:{}", jstr(k), v));
		self
	}
	fn b(mut self, k: &str, v: bool) -> J {
		self.0.push(format!("{}:{}", jstr(k), v));
		self
	}
	fn raw(mut self, k: &str, v: String) -> J {
		self.0.push(format!("{}:{}", jstr(k), v));
		self
	}
	fn strs(self, k: &str, v: &[String]) -> J {
		let inner = v.iter().map(|x| jstr(x)).collect::<Vec<_>>().join(",");
		self.raw(k, format!("[{}]", inner))
	}
	fn emit(self) {
		println!("{{{}}}", self.0.join(","));
	}
}

// ------------------------------------------------------------------------------------------------
// bech32 helpers on the real crate
// ------------------------------------------------------------------------------------------------

/// hrp and data symbols (with checksum) of a BOLT 11 string produced by the library.
fn split_b11(s: &str) -> (String, Vec<u8>) {
	let p = s.rfind('1').unwrap();
	(s[..p].to_string(), s[p + 1..].bytes().map(|c| fe_of_char(c).unwrap()).collect())
}

/// hrp ‖ '1' ‖ data ‖ checksum, checksum computed by the bech32 crate.
fn encode_checked(hrp: &str, data: &[u8]) -> Option<String> {
	let h = Hrp::parse(hrp).ok()?;
	Some(data.iter().map(|&v| Fe32::try_from(v).unwrap()).with_checksum::<Bech32>(&h).chars().collect())
}

fn b11_err_class(e: &lightning_invoice::ParseOrSemanticError) -> String {
	let d = format!("{:?}", e);
	// keep constructor names only
	let mut out = String::new();
	for c in d.chars() {
		if c.is_alphanumeric() || c == '(' {
			out.push(c)
		} else {
			break;
		}
	}
	let inner = d.splitn(2, '(').nth(1).unwrap_or("");
	let inner: String = inner.chars().take_while(|c| c.is_alphanumeric()).collect();
	format!("{}{}", out, inner)
}

fn describe_b11(inv: &Bolt11Invoice) -> String {
	let tags: Vec<String> = inv
		.clone()
		.into_signed_raw()
		.raw_invoice()
		.data
		.tagged_fields
		.iter()
		.map(|f| match f {
			lightning_invoice::RawTaggedField::KnownSemantics(t) => format!("{}", t.tag().to_u8()),
			lightning_invoice::RawTaggedField::UnknownSemantics(v) => {
				format!("u{}", v.first().map(|x| x.to_u8()).unwrap_or(255))
			},
		})
		.collect();
	format!(
		"payee={} explicit={} hash={} amt={} ts={} expiry={} cltv={} tags={}",
		hex(&inv.get_payee_pub_key().serialize()),
		inv.payee_pub_key().is_some(),
		hex(&inv.signable_hash()),
		inv.amount_milli_satoshis().map(|a| a.to_string()).unwrap_or("none".into()),
		inv.duration_since_epoch().as_secs(),
		inv.expiry_time().as_secs(),
		inv.min_final_cltv_expiry_delta(),
		tags.join(",")
	)
}

const B12_TAGS: [&str; 2] = [
	lightning::offers::invoice_request::SIGNATURE_TAG,
	lightning::offers::invoice::SIGNATURE_TAG,
];

fn parse_b12(kind: &str, bytes: Vec<u8>) -> String {
	let r = guard(|| match kind {
		"offer" => Offer::try_from(bytes).map(|_| ()).map_err(|e| format!("{:?}", e)),
		"invreq" => InvoiceRequest::try_from(bytes).map(|_| ()).map_err(|e| format!("{:?}", e)),
		"invoice" => Bolt12Invoice::try_from(bytes).map(|_| ()).map_err(|e| format!("{:?}", e)),
		"refund" => Refund::try_from(bytes).map(|_| ()).map_err(|e| format!("{:?}", e)),
		"static" => StaticInvoice::try_from(bytes).map(|_| ()).map_err(|e| format!("{:?}", e)),
		_ => Err("badkind".to_string()),
	});
	match r {
		Err(()) => "PANIC".into(),
		Ok(Ok(())) => "Ok".into(),
		Ok(Err(e)) => format!("Err {}", e.chars().take(60).collect::<String>().replace(' ', "_")),
	}
}

fn eval_line(l: &str) -> String {
	let mut it = l.splitn(3, ' ');
	let cmd = it.next().unwrap_or("");
	let a = it.next().unwrap_or("");
	let b = it.next().unwrap_or("");
	match cmd {
		// CheckedHrpstring::new::<Bolt11Bech32>
		"dec" => {
			let s = String::from_utf8_lossy(&unhex(a)).to_string();
			match CheckedHrpstring::new::<Bolt11Bech32>(&s) {
				Ok(p) => {
					let fes: String = p
						.fe32_iter::<&mut dyn Iterator<Item = u8>>()
						.map(|f| CHARSET[f.to_u8() as usize] as char)
						.collect();
					format!("Ok {} {}", hex(p.hrp().to_string().as_bytes()), fes)
				},
				Err(_) => "Err".into(),
			}
		},
		// BOLT 12 string layer as the library runs it (Bech32Encode::from_bech32_str via Offer::from_str):
		// NoChecksum decode, hrp comparison, padding validation, regrouping; the TLV/semantic layers
		// behind it only matter for telling "string layer passed" from the string-layer errors
		"decn" => {
			use lightning::offers::parse::Bolt12ParseError as E;
			let s = String::from_utf8_lossy(&unhex(a)).to_string();
			match s.parse::<Offer>() {
				Ok(o) => format!("Ok {}", hex(&wbytes(&o))),
				Err(E::Decode(_)) | Err(E::InvalidSemantics(_)) | Err(E::InvalidSignature(_)) => "OkLayer".into(),
				Err(E::InvalidPadding(_)) => "ErrPadding".into(),
				Err(E::InvalidBech32Hrp) => "ErrHrp".into(),
				Err(_) => "Err".into(),
			}
		},
		"b11" => {
			let s = String::from_utf8_lossy(&unhex(a)).to_string();
			match s.parse::<Bolt11Invoice>() {
				Ok(inv) => format!("Ok {}", describe_b11(&inv)),
				Err(e) => format!("Err {}", b11_err_class(&e)),
			}
		},
		// checksummed string from an hrp and data symbols (charset characters)
		"enc" => {
			let d: Vec<u8> = b.bytes().filter_map(|c| fe_of_char(c)).collect();
			match encode_checked(a, &d) { Some(x) => format!("Ok {}", hex(x.as_bytes())), None => "Err".into() }
		},
		"to5" => unhex(a)
			.iter()
			.copied()
			.bytes_to_fes()
			.map(|f| CHARSET[f.to_u8() as usize] as char)
			.collect::<String>()
			+ ".",
		"from5" => {
			let fes: Vec<Fe32> =
				a.bytes().filter_map(|c| fe_of_char(c)).map(|v| Fe32::try_from(v).unwrap()).collect();
			hex(&fes.into_iter().fes_to_bytes().collect::<Vec<u8>>()) + "."
		},
		// RawHrp::from_str through RawBolt11Invoice::from_raw with a 7-symbol zero timestamp
		"hrp" => {
			let z: Vec<Fe32> = (0..7).map(|_| Fe32::try_from(0u8).unwrap()).collect();
			match RawBolt11Invoice::from_raw(a, &z) {
				Ok(r) => format!(
					"Ok {:?} {} {} pico={}",
					r.hrp.currency,
					r.hrp.raw_amount.map(|x| x.to_string()).unwrap_or("none".into()),
					r.hrp.si_prefix.map(|x| format!("{:?}", x)).unwrap_or("none".into()),
					r.amount_pico_btc().map(|x| x.to_string()).unwrap_or("none".into())
				),
				Err(e) => format!("Err {}", format!("{:?}", e).split('(').next().unwrap()),
			}
		},
		// Bolt11Invoice::from_signed on a freshly signed raw invoice carrying the given hrp: the
		// semantic amount check (sub-millisatoshi amounts are refused)
		"amtchk" => {
			let secp = Secp256k1::new();
			let sk = SecretKey::from_slice(&[41; 32]).unwrap();
			let base = InvoiceBuilder::new(Currency::Bitcoin)
				.description("x".into())
				.payment_hash(PaymentHash([1; 32]))
				.payment_secret(PaymentSecret([2; 32]))
				.duration_since_epoch(Duration::from_secs(1000))
				.min_final_cltv_expiry_delta(18)
				.build_raw()
				.unwrap();
			let (_, data) = base.to_raw();
			match RawBolt11Invoice::from_raw(a, &data) {
				Err(_) => "RawErr".into(),
				Ok(raw) => {
					let signed = raw.sign::<_, ()>(|h| Ok(secp.sign_ecdsa_recoverable(h, &sk))).unwrap();
					match Bolt11Invoice::from_signed(signed) {
						Ok(i) => format!("Ok {}", i.amount_milli_satoshis().map(|x| x.to_string()).unwrap_or("none".into())),
						Err(e) => format!("Err {:?}", e),
					}
				},
			}
		},
		// InvoiceBuilder::amount_milli_satoshis -> hrp string
		"amt" => {
			let cur = match a {
				"bc" => Currency::Bitcoin,
				"tb" => Currency::BitcoinTestnet,
				"bcrt" => Currency::Regtest,
				"sb" => Currency::Simnet,
				_ => Currency::Signet,
			};
			let m: u64 = b.parse().unwrap();
			match InvoiceBuilder::new(cur)
				.duration_since_epoch(Duration::from_secs(0))
				.amount_milli_satoshis(m)
				.build_raw()
			{
				Ok(r) => format!("Ok {}", r.hrp.to_string()),
				Err(e) => format!("Err {:?}", e),
			}
		},
		// merkle root / digest through the hook (panics on malformed input like the library)
		"root" => {
			let tag = B12_TAGS[a.parse::<usize>().unwrap()];
			let th = mh::tagged_hash_from_tlv_stream_bytes(tag, &unhex(b));
			format!("{} {}", hex(th.merkle_root().as_ref()), hex(th.as_digest().as_ref()))
		},
		"sigtypes" => {
			let (lo, hi) = mh::signature_types();
			format!("{} {}", lo, hi)
		},
		"pk" => {
			let secp = Secp256k1::new();
			match SecretKey::from_slice(&unhex(a)) {
				Ok(sk) => hex(&PublicKey::from_secret_key(&secp, &sk).serialize()),
				Err(_) => "Err".into(),
			}
		},
		"b12" => parse_b12(a, unhex(b)),
		// metadata verification of an invoice request under a key
		"vreq" => {
			let secp = Secp256k1::new();
			let mut k = [0u8; 32];
			k.copy_from_slice(&unhex(a));
			match InvoiceRequest::try_from(unhex(b)) {
				Err(e) => format!("ParseErr {:?}", e).replace(' ', "_"),
				Ok(r) => match r.verify_using_metadata(&ExpandedKey::new(k), &secp) {
					Ok(InvoiceRequestVerifiedFromOffer::DerivedKeys(_)) => "DerivedKeys".into(),
					Ok(InvoiceRequestVerifiedFromOffer::ExplicitKeys(_)) => "Ok".into(),
					Err(()) => "Err".into(),
				},
			}
		},
		"vinv" => {
			let secp = Secp256k1::new();
			let mut k = [0u8; 32];
			k.copy_from_slice(&unhex(a));
			match Bolt12Invoice::try_from(unhex(b)) {
				Err(e) => format!("ParseErr {:?}", e).replace(' ', "_"),
				Ok(i) => match i.verify_using_metadata(&ExpandedKey::new(k), &secp) {
					Ok(pid) => format!("Ok {}", hex(&pid.0)),
					Err(()) => "Err".into(),
				},
			}
		},
		_ => "BADCMD".into(),
	}
}

// ------------------------------------------------------------------------------------------------
// BOLT 11 generation, round trip judge, mutation streams
// ------------------------------------------------------------------------------------------------

/// splitmix64 (the harness crate's `Rng`) behind a `Cell`, so generators can be nested freely.
struct R(std::cell::Cell<u64>);
impl R {
	fn new(seed: u64) -> R { R(std::cell::Cell::new(seed)) }
	fn next(&self) -> u64 { let mut g = Rng(self.0.get()); let v = g.next(); self.0.set(g.0); v }
	fn below(&self, n: u64) -> u64 { if n == 0 { 0 } else { self.next() % n } }
}

fn rbytes(r: &R, n: usize) -> Vec<u8> {
	(0..n).map(|_| r.next() as u8).collect()
}
fn r32(r: &R) -> [u8; 32] {
	let mut a = [0u8; 32];
	a.copy_from_slice(&rbytes(r, 32));
	a
}
fn pick<T: Clone>(r: &R, xs: &[T]) -> T {
	xs[r.below(xs.len() as u64) as usize].clone()
}
fn some_sk(r: &R) -> SecretKey {
	loop {
		if let Ok(k) = SecretKey::from_slice(&r32(r)) {
			return k;
		}
	}
}
fn some_pk(r: &R) -> PublicKey {
	PublicKey::from_secret_key(&Secp256k1::new(), &some_sk(r))
}

fn rand_text(r: &R, max_bytes: usize) -> String {
	let alphabet = ["a", "Z", " ", "0", "\"", "\\", "é", "ß", "日", "本", "🍕", "\n", "1", "l", "n", "coffee", "~"];
	let target = r.below(max_bytes as u64 + 1) as usize;
	let mut s = String::new();
	loop {
		let p = pick(r, &alphabet);
		if s.len() + p.len() > target {
			break;
		}
		s.push_str(p);
	}
	s
}

struct B11Spec {
	currency: Currency,
	amount_msat: Option<u64>,
	ts: u64,
	expiry: Option<u64>,
	desc: Result<String, [u8; 32]>,
	payment_hash: [u8; 32],
	payment_secret: [u8; 32],
	cltv: u64,
	fallbacks: Vec<Fallback>,
	routes: Vec<RouteHint>,
	mpp: bool,
	metadata: Option<(Vec<u8>, bool)>,
	explicit_payee: bool,
	sk: SecretKey,
}

fn gen_spec(r: &R, idx: usize) -> B11Spec {
	let currency = pick(r, &[Currency::Bitcoin, Currency::BitcoinTestnet, Currency::Regtest, Currency::Simnet, Currency::Signet]);
	let max_msat = u64::MAX / 10;
	let amounts: [Option<u64>; 16] = [
		None, Some(0), Some(1), Some(9), Some(10), Some(100), Some(1000), Some(100_000), Some(100_000_000),
		Some(100_000_000_000), Some(2_100_000_000_000_000_000), Some(max_msat), Some(max_msat - 1),
		Some(max_msat + 1), Some(250_000_000), Some(123_456_789),
	];
	let amount_msat = if idx < amounts.len() { amounts[idx] } else if r.below(4) == 0 { Some(r.next() % (max_msat + 1)) } else { Some(r.next() % 10u64.pow(1 + r.below(17) as u32)) };
	let max_ts = lightning_invoice::MAX_TIMESTAMP;
	let ts = match idx % 7 { 0 => 0, 1 => 1, 2 => max_ts, 3 => max_ts + 1, 4 => 1_700_000_000, _ => r.next() % (max_ts + 1) };
	let expiry = match r.below(7) { 0 => None, 1 => Some(0), 2 => Some(1), 3 => Some(3600), 4 => Some(u64::MAX), 5 => Some(31), _ => Some(r.next() >> r.below(64)) };
	let desc = match r.below(5) { 0 => Err(r32(r)), 1 => Ok(String::new()), 2 => Ok(rand_text(r, 639)), 3 => Ok("x".repeat(639 + (idx % 2))), _ => Ok(rand_text(r, 40)) };
	let cltv = match r.below(6) { 0 => 0, 1 => 18, 2 => 144, 3 => u64::MAX, 4 => 31, _ => r.next() >> r.below(64) };
	let mut fallbacks = vec![];
	for _ in 0..r.below(4) {
		fallbacks.push(match r.below(3) {
			0 => {
				let v = r.below(17) as u8;
				let n = pick(r, &[2usize, 20, 32, 40, 1 + r.below(40) as usize]);
				Fallback::SegWitProgram { version: WitnessVersion::try_from(v).unwrap(), program: rbytes(r, n.max(2)) }
			},
			1 => Fallback::PubKeyHash(PubkeyHash::from_slice(&rbytes(r, 20)).unwrap()),
			_ => Fallback::ScriptHash(ScriptHash::from_slice(&rbytes(r, 20)).unwrap()),
		});
	}
	let mut routes = vec![];
	for _ in 0..r.below(3) {
		let nh = pick(r, &[1usize, 2, 12, 13, 1 + r.below(12) as usize]);
		let hops = (0..nh)
			.map(|_| RouteHintHop {
				src_node_id: some_pk(r),
				short_channel_id: r.next(),
				fees: RoutingFees { base_msat: r.next() as u32, proportional_millionths: r.next() as u32 },
				cltv_expiry_delta: r.next() as u16,
				htlc_minimum_msat: None,
				htlc_maximum_msat: None,
			})
			.collect();
		routes.push(RouteHint(hops));
	}
	let metadata = match r.below(4) { 0 => Some((rbytes(r, r.below(60) as usize), false)), 1 => Some((rbytes(r, pick(r, &[0usize, 639, 640])), true)), _ => None };
	B11Spec {
		currency, amount_msat, ts, expiry, desc, payment_hash: r32(r), payment_secret: r32(r), cltv, fallbacks, routes,
		mpp: r.below(2) == 0, metadata, explicit_payee: r.below(2) == 0, sk: some_sk(r),
	}
}

fn build_b11(sp: &B11Spec) -> Result<Bolt11Invoice, String> {
	let secp = Secp256k1::new();
	let b = InvoiceBuilder::new(sp.currency.clone());
	let b = match &sp.desc {
		Ok(d) => b.description(d.clone()),
		Err(h) => b.description_hash(sha256::Hash::from_slice(h).unwrap()),
	};
	let mut b = b
		.payment_hash(PaymentHash(sp.payment_hash))
		.duration_since_epoch(Duration::from_secs(sp.ts))
		.min_final_cltv_expiry_delta(sp.cltv)
		.payment_secret(PaymentSecret(sp.payment_secret));
	if let Some(a) = sp.amount_msat {
		b = b.amount_milli_satoshis(a);
	}
	if let Some(e) = sp.expiry {
		b = b.expiry_time(Duration::from_secs(e));
	}
	for f in sp.fallbacks.iter() {
		b = b.fallback(f.clone());
	}
	for rt in sp.routes.iter() {
		b = b.private_route(rt.clone());
	}
	if sp.explicit_payee {
		b = b.payee_pub_key(PublicKey::from_secret_key(&secp, &sp.sk));
	}
	if sp.mpp {
		b = b.basic_mpp();
	}
	let sk = sp.sk;
	macro_rules! finish {
		($b: expr) => {
			$b.build_signed(|h| secp.sign_ecdsa_recoverable(h, &sk)).map_err(|e| format!("{:?}", e))
		};
	}
	match &sp.metadata {
		None => finish!(b),
		Some((m, false)) => finish!(b.optional_payment_metadata(m.clone())),
		Some((m, true)) => finish!(b.payment_metadata(m.clone())),
	}
}

/// Whether the builder is expected to refuse this spec (limits documented by the library).
fn spec_expect_err(sp: &B11Spec) -> bool {
	sp.amount_msat.map(|a| a > u64::MAX / 10).unwrap_or(false)
		|| sp.ts > lightning_invoice::MAX_TIMESTAMP
		|| sp.desc.as_ref().map(|d| d.len() > 639).unwrap_or(false)
		|| sp.routes.iter().any(|r| r.0.len() > 12)
		|| sp.metadata.as_ref().map(|m| m.0.len() > 639).unwrap_or(false)
}

/// The C18 round-trip statement on one built invoice. Returns the reasons it fails (empty = holds).
fn judge_roundtrip_b11(sp: &B11Spec, inv: &Bolt11Invoice) -> Vec<String> {
	let mut bad = vec![];
	let s = inv.to_string();
	match guard(|| s.parse::<Bolt11Invoice>()) {
		Err(()) => bad.push("parse panicked".into()),
		Ok(Err(e)) => bad.push(format!("own string does not parse: {:?}", e)),
		Ok(Ok(p)) => {
			if &p != inv {
				bad.push("parsed object differs".into());
			}
			if p.to_string() != s {
				bad.push("re-serialisation differs".into());
			}
			let secp = Secp256k1::new();
			let pk = PublicKey::from_secret_key(&secp, &sp.sk);
			if p.amount_milli_satoshis() != sp.amount_msat { bad.push(format!("amount {:?} != {:?}", p.amount_milli_satoshis(), sp.amount_msat)); }
			if p.duration_since_epoch() != Duration::from_secs(sp.ts) { bad.push("timestamp".into()); }
			if p.expiry_time() != Duration::from_secs(sp.expiry.unwrap_or(lightning_invoice::DEFAULT_EXPIRY_TIME)) { bad.push("expiry".into()); }
			if p.payment_hash() != PaymentHash(sp.payment_hash) { bad.push("payment hash".into()); }
			if p.payment_secret() != &PaymentSecret(sp.payment_secret) { bad.push("payment secret".into()); }
			if p.min_final_cltv_expiry_delta() != sp.cltv { bad.push("cltv".into()); }
			match (&sp.desc, p.description()) {
				(Ok(d), Bolt11InvoiceDescriptionRef::Direct(x)) => { if &x.to_string() != d && x.as_inner().0 != *d { bad.push("description".into()); } },
				(Err(h), Bolt11InvoiceDescriptionRef::Hash(x)) => { if x.0.as_byte_array() != h { bad.push("description hash".into()); } },
				_ => bad.push("description kind".into()),
			}
			if p.fallbacks().into_iter().cloned().collect::<Vec<_>>() != sp.fallbacks { bad.push("fallbacks".into()); }
			if p.route_hints() != sp.routes { bad.push("route hints".into()); }
			if p.payment_metadata().cloned() != sp.metadata.as_ref().map(|m| m.0.clone()) { bad.push("payment metadata".into()); }
			if p.features() != inv.features() { bad.push("features".into()); }
			if let Some(f) = p.features() {
				if f.supports_basic_mpp() != sp.mpp { bad.push("mpp feature".into()); }
				if !f.supports_payment_secret() { bad.push("payment secret feature".into()); }
			} else { bad.push("no features".into()); }
			if p.currency() != sp.currency { bad.push("currency".into()); }
			if p.payee_pub_key().cloned() != if sp.explicit_payee { Some(pk) } else { None } { bad.push("explicit payee".into()); }
			if p.get_payee_pub_key() != pk { bad.push("payee key".into()); }
			if p.recover_payee_pub_key() != Some(pk) { bad.push("recovered key".into()); }
		},
	}
	// all-uppercase form is the same invoice
	match guard(|| s.to_uppercase().parse::<Bolt11Invoice>()) {
		Ok(Ok(p)) => { if &p != inv { bad.push("uppercase form parses to a different object".into()); } },
		_ => bad.push("uppercase form does not parse".into()),
	}
	// data-level: the library's own re-serialisation of the parsed raw invoice is the string's data part
	let (hrp, data) = split_b11(&s);
	if let Ok(Ok(sr)) = guard(|| s.parse::<SignedRawBolt11Invoice>()) {
		let (h2, d2) = sr.raw_invoice().to_raw();
		let d2: Vec<u8> = d2.iter().map(|f| f.to_u8()).collect();
		if h2 != hrp || data.len() < 110 || d2[..] != data[..data.len() - 110] {
			bad.push("to_raw() is not hrp / data-without-signature of the string".into());
		}
	}
	bad
}

enum Mo { Err, Same, OtherKey, Violation(String) }

/// What must hold for ANY string that parses, whatever was done to it: the key the public accessors
/// report verifies the signature over exactly the parsed content; the accessors agree with each other;
/// and if the original signer's key is still reported, the signed content is the original content.
fn judge_parsed(orig: &Bolt11Invoice, p: &Bolt11Invoice) -> Result<bool, String> {
	let secp = Secp256k1::new();
	let sr = p.clone().into_signed_raw();
	let reported = p.get_payee_pub_key();
	if sr.raw_invoice().signable_hash() != p.signable_hash() { return Err("signable_hash is not the hash of the parsed content".into()); }
	match p.payee_pub_key() {
		Some(k) => if *k != reported { return Err("get_payee_pub_key differs from the explicit payee key".into()); },
		None => if p.recover_payee_pub_key() != Some(reported) { return Err("get_payee_pub_key differs from the recovered key".into()); },
	}
	let msg = bitcoin::secp256k1::Message::from_digest(p.signable_hash());
	// recovery also succeeds for high-S signatures, which libsecp's verifier refuses unless normalised
	let mut std_sig = sr.signature().0.to_standard();
	std_sig.normalize_s();
	if secp.verify_ecdsa(&msg, &std_sig, &reported).is_err() {
		return Err("the reported payee key does not verify the signature over the parsed content".into());
	}
	let same = p == orig || p.signable_hash() == orig.signable_hash();
	if !same && reported == orig.get_payee_pub_key() { return Err("altered content accepted under the signer's key".into()); }
	Ok(same)
}

/// The C18 alteration statement on one mutated string with a valid checksum.
fn judge_altered(orig: &Bolt11Invoice, s: &str) -> Mo {
	match guard(|| s.parse::<Bolt11Invoice>()) {
		Err(()) => Mo::Violation("parse panicked".into()),
		Ok(Err(_)) => Mo::Err,
		Ok(Ok(p)) => match guard(|| judge_parsed(orig, &p)) {
			Err(()) => Mo::Violation("accessor panicked on a parsed invoice".into()),
			Ok(Err(w)) => Mo::Violation(w),
			Ok(Ok(true)) => Mo::Same,
			Ok(Ok(false)) => Mo::OtherKey,
		},
	}
}

// ---- structural mutations of the tagged-field list ------------------------------------------------

type Fld = (u8, Vec<u8>);

fn split_fields(d: &[u8]) -> Option<(Vec<u8>, Vec<Fld>)> {
	if d.len() < 7 { return None; }
	let mut out = vec![];
	let mut p = 7;
	while p < d.len() {
		if p + 3 > d.len() { return None; }
		let len = d[p + 1] as usize * 32 + d[p + 2] as usize;
		if p + 3 + len > d.len() { return None; }
		out.push((d[p], d[p + 3..p + 3 + len].to_vec()));
		p += 3 + len;
	}
	Some((d[..7].to_vec(), out))
}
fn join_fields(ts: &[u8], fs: &[Fld]) -> Vec<u8> {
	let mut d = ts.to_vec();
	for (t, v) in fs { d.push(*t); d.push((v.len() / 32) as u8); d.push((v.len() % 32) as u8); d.extend_from_slice(v); }
	d
}
fn to5(b: &[u8]) -> Vec<u8> { b.iter().copied().bytes_to_fes().map(|f| f.to_u8()).collect() }
fn int5(mut x: u64) -> Vec<u8> { let mut o = vec![]; while x != 0 { o.push((x % 32) as u8); x /= 32; } o.reverse(); o }

fn structural_variants(r: &R, fs: &[Fld], attacker_n: &Fld) -> Vec<(String, Vec<Fld>)> {
	let mut out: Vec<(String, Vec<Fld>)> = vec![];
	let n = fs.len();
	for i in 0..n {
		let (t, v) = fs[i].clone();
		// duplicates: same content / different content, adjacent / at the end / at the front
		let mut diff = v.clone();
		if !diff.is_empty() { let k = r.below(diff.len() as u64) as usize; diff[k] ^= 1 + r.below(31) as u8; }
		for (what, copy) in [("same", v.clone()), ("different", diff)] {
			let mut a = fs.to_vec(); a.insert(i + 1, (t, copy.clone())); out.push((format!("duplicate tag {} ({} content) after the original", t, what), a));
			let mut a = fs.to_vec(); a.push((t, copy.clone())); out.push((format!("duplicate tag {} ({} content) at the end", t, what), a));
			let mut a = fs.to_vec(); a.insert(0, (t, copy)); out.push((format!("duplicate tag {} ({} content) at the front", t, what), a));
		}
		let mut a = fs.to_vec(); a.remove(i); out.push((format!("delete tag {}", t), a));
		if i + 1 < n { let mut a = fs.to_vec(); a.swap(i, i + 1); out.push((format!("swap tags {} and {}", t, fs[i + 1].0), a)); }
		// wrong length for the tag
		if !v.is_empty() { let mut a = fs.to_vec(); a[i].1.pop(); out.push((format!("tag {} one symbol shorter", t), a)); }
		let mut a = fs.to_vec(); a[i].1.push(0); out.push((format!("tag {} one symbol longer", t), a));
		// re-tag: same data under another tag
		let mut a = fs.to_vec(); a[i].0 = pick(r, &[0u8, 2, 19, 1, 16, 23, 31]); out.push((format!("tag {} re-tagged as {}", t, a[i].0), a));
	}
	let mut a = fs.to_vec(); a.reverse(); out.push(("reverse field order".into(), a));
	// insertions of every field kind (front, middle, end)
	let inserts: Vec<Fld> = vec![
		(1, to5(&r32(r))), (16, to5(&r32(r))), (13, to5(b"attacker description")), (23, to5(&r32(r))),
		attacker_n.clone(), (19, attacker_n.1[..52].to_vec()), (19, { let mut x = attacker_n.1.clone(); x.push(0); x }),
		(6, int5(1 + r.below(100000))), (6, vec![]), (24, int5(r.below(3000))), (9, { let mut x = vec![17u8]; x.extend(to5(&rbytes(r, 20))); x }),
		(3, to5(&{ let mut h = some_pk(r).serialize().to_vec(); h.extend(rbytes(r, 18)); h })), (5, vec![16, 8, 0]), (5, vec![]), (27, to5(&rbytes(r, 9))),
		(0, rbytes(r, 5).iter().map(|x| x % 32).collect()), (2, vec![]), (31, vec![1, 2, 3]), (1, to5(&rbytes(r, 31))), (16, vec![0; 53]), (23, vec![0; 51]),
	];
	for f in inserts {
		for pos in [0usize, n / 2, n] {
			let mut a = fs.to_vec(); a.insert(pos.min(n), f.clone());
			out.push((format!("insert tag {} ({} symbols) at position {}", f.0, f.1.len(), pos), a));
		}
	}
	// several n fields, both orders, with and without the original one
	let victim_n: Vec<Fld> = fs.iter().filter(|f| f.0 == 19).cloned().collect();
	let mut without_n: Vec<Fld> = fs.iter().filter(|f| f.0 != 19).cloned().collect();
	let mut a = without_n.clone(); a.push(attacker_n.clone()); a.push(attacker_n.clone()); out.push(("two attacker n fields".into(), a));
	if let Some(vn) = victim_n.first() {
		let mut a = without_n.clone(); a.insert(0, attacker_n.clone()); a.push(vn.clone()); out.push(("attacker n first, victim n last".into(), a));
		let mut a = without_n.clone(); a.insert(0, vn.clone()); a.push(attacker_n.clone()); out.push(("victim n first, attacker n last".into(), a));
		let mut a = without_n.clone(); a.push(vn.clone()); a.push(attacker_n.clone()); a.push(vn.clone()); out.push(("victim, attacker, victim n fields".into(), a));
	}
	without_n.push(attacker_n.clone());
	out.push(("victim n removed, attacker n added".into(), without_n));
	out
}

/// Structural mutation stream: every variant once with the original signature (checksum recomputed) and
/// once signed by an attacker key over the content the verifier will hash, also with a changed amount.
fn mut_structural(r: &R, inv: &Bolt11Invoice, sp: &B11Spec, st: &mut MutStats, samples: &mut Vec<String>) {
	let secp = Secp256k1::new();
	let s = inv.to_string();
	let (hrp, data) = split_b11(&s);
	let payload = &data[..data.len() - 6];
	let (body, sig) = payload.split_at(payload.len() - 104);
	let (ts, fs) = match split_fields(body) { Some(x) => x, None => return };
	let attacker = SecretKey::from_slice(&[0x77; 32]).unwrap();
	let attacker_n: Fld = (19, to5(&PublicKey::from_secret_key(&secp, &attacker).serialize()));
	let cur = match sp.currency { Currency::Bitcoin => "bc", Currency::BitcoinTestnet => "tb", Currency::Regtest => "bcrt", Currency::Simnet => "sb", Currency::Signet => "tbs" };
	let hrps = [hrp.clone(), format!("ln{}1m", cur), format!("ln{}", cur)];
	for (what, fields) in structural_variants(r, &fs, &attacker_n) {
		if fields.iter().any(|f| f.1.len() > 1023) { continue; } // not representable in the 10-bit length
		let d = join_fields(&ts, &fields);
		// (a) original signature kept
		let mut with_sig = d.clone();
		with_sig.extend_from_slice(sig);
		if let Some(m) = encode_checked(&hrp, &with_sig) {
			let o = judge_altered(inv, &m);
			if matches!(o, Mo::Same | Mo::OtherKey) && samples.len() < 40 && what.contains("tag 19") { samples.push(m.clone()); }
			st.add(o, &format!("{} | original signature | {}", what, m));
		}
		// (b) attacker signs what the verifier will hash; same and changed amount
		let fes: Vec<Fe32> = d.iter().map(|&v| Fe32::try_from(v).unwrap()).collect();
		for h2 in hrps.iter() {
			let signed = guard(|| RawBolt11Invoice::from_raw(h2, &fes).ok().map(|raw| raw.sign::<_, ()>(|h| Ok(secp.sign_ecdsa_recoverable(h, &attacker))).unwrap().to_string()));
			match signed {
				Err(()) => st.add(Mo::Violation("from_raw / sign panicked".into()), &what),
				Ok(None) => {},
				Ok(Some(m)) => {
					let o = judge_altered(inv, &m);
					if matches!(o, Mo::Same | Mo::OtherKey) && samples.len() < 40 && (what.contains("n field") || what.contains("tag 19") || samples.len() < 12) { samples.push(m.clone()); }
					st.add(o, &format!("{} | signed by attacker, hrp {} | {}", what, h2, m));
				},
			}
		}
	}
}

struct MutStats { total: u64, err: u64, same: u64, other: u64, viol: Vec<(String, String)> }
impl MutStats {
	fn new() -> Self { MutStats { total: 0, err: 0, same: 0, other: 0, viol: vec![] } }
	fn add(&mut self, m: Mo, s: &str) {
		self.total += 1;
		match m { Mo::Err => self.err += 1, Mo::Same => self.same += 1, Mo::OtherKey => self.other += 1,
			Mo::Violation(w) => if self.viol.len() < 3 { self.viol.push((w, s.to_string())) } else { } }
	}
	fn json(&self) -> String {
		let v: Vec<String> = self.viol.iter().map(|(w, s)| format!("{{\"why\":{},\"input\":{}}}", jstr(w), jstr(s))).collect();
		format!("{{\"total\":{},\"err\":{},\"same_content\":{},\"other_key\":{},\"violations\":[{}]}}", self.total, self.err, self.same, self.other, v.join(","))
	}
}

/// Every single-character change without touching the checksum: must fail to parse.
fn mut_single_char(r: &R, s: &str, thorough: bool, st: &mut MutStats) {
	let chars: Vec<char> = s.chars().collect();
	let sep = s.rfind('1').unwrap();
	for i in 0..chars.len() {
		let mut alts: Vec<char> = vec![];
		if i <= sep {
			if thorough { alts.extend((33u8..=126).map(|c| c as char)); } else {
				alts.extend(['1', '2', 'm', 'u', 'n', 'p', 'b', 'c', 't', 'l', 'q', 'B', ' ']);
				for _ in 0..3 { alts.push((33 + r.below(94)) as u8 as char); }
			}
		} else {
			if thorough { alts.extend(CHARSET.iter().map(|&c| c as char)); alts.extend(['1', 'b', 'i', 'o', ' ', 'é', 'Q']); } else {
				for _ in 0..3 { alts.push(CHARSET[r.below(32) as usize] as char); }
				let cur = fe_of_char(chars[i] as u8).unwrap_or(0);
				alts.push(CHARSET[(cur ^ 1) as usize] as char);
				if r.below(8) == 0 { alts.push(pick(r, &['1', 'b', 'i', 'o', ' ', 'é'])); }
			}
		}
		alts.push(if chars[i].is_ascii_lowercase() { chars[i].to_ascii_uppercase() } else { chars[i].to_ascii_lowercase() });
		for a in alts {
			if a == chars[i] { continue; }
			let mut c2 = chars.clone();
			c2[i] = a;
			let m: String = c2.into_iter().collect();
			let out = match guard(|| m.parse::<Bolt11Invoice>()) {
				Err(()) => Mo::Violation("parse panicked".into()),
				Ok(Err(_)) => Mo::Err,
				Ok(Ok(_)) => Mo::Violation("single-character change accepted".into()),
			};
			st.add(out, &m);
		}
	}
}

fn gen_b11(r: &R, thorough: bool) {
	let n = if thorough { 400 } else { 60 };
	let n_mut = if thorough { 60 } else { 8 };
	let mut kept: Vec<(B11Spec, Bolt11Invoice)> = vec![];
	for idx in 0..n {
		let sp = gen_spec(r, idx);
		let res = guard(|| build_b11(&sp));
		let exp_err = spec_expect_err(&sp);
		match res {
			Err(()) => J::new("b11").n("id", idx).b("ok", false).s("why", "builder panicked").s("spec", &format!("amt={:?} ts={} desc_len={:?} routes={:?}", sp.amount_msat, sp.ts, sp.desc.as_ref().map(|d| d.len()).ok(), sp.routes.iter().map(|x| x.0.len()).collect::<Vec<_>>())).emit(),
			Ok(Err(e)) => J::new("b11").n("id", idx).b("ok", exp_err).b("built", false).s("why", &format!("builder error {} (expected error: {})", e, exp_err)).emit(),
			Ok(Ok(inv)) => {
				let bad = judge_roundtrip_b11(&sp, &inv);
				let s = inv.to_string();
				let mut bad = bad;
				if exp_err { bad.push("builder accepted an out-of-range field".into()); }
				J::new("b11").n("id", idx).b("ok", bad.is_empty()).b("built", true).strs("why", &bad).s("s", &s)
					.s("desc", &describe_b11(&inv)).n("len", s.len()).emit();
				kept.push((sp, inv));
			},
		}
	}
	// mutation streams on a spread of the built invoices (short and long, explicit and recovered key)
	kept.sort_by_key(|(_, i)| i.to_string().len());
	let step = (kept.len() / n_mut).max(1);
	let mut chosen: Vec<&(B11Spec, Bolt11Invoice)> = kept.iter().step_by(step).take(n_mut).collect();
	for want in [true, false] {
		if !chosen.iter().any(|c| c.0.explicit_payee == want) { if let Some(x) = kept.iter().find(|c| c.0.explicit_payee == want) { chosen.push(x); } }
	}
	for (mi, (sp, inv)) in chosen.iter().enumerate() {
		let s = inv.to_string();
		let (hrp, data) = split_b11(&s);
		let payload = &data[..data.len() - 6];
		// M1
		let mut m1 = MutStats::new();
		mut_single_char(r, &s, thorough && mi % 6 == 0, &mut m1);
		// M2: single data symbol, checksum recomputed
		let mut m2 = MutStats::new();
		for i in 0..payload.len() {
			let vals: Vec<u8> = if thorough && mi % 6 == 0 { (0..32).collect() } else { vec![payload[i] ^ 1, payload[i] ^ 16, r.below(32) as u8] };
			for v in vals {
				if v == payload[i] { continue; }
				let mut d = payload.to_vec();
				d[i] = v;
				if let Some(m) = encode_checked(&hrp, &d) { m2.add(judge_altered(inv, &m), &m); }
			}
		}
		// M3: amount / currency / prefix changes in the hrp, checksum recomputed
		let mut m3 = MutStats::new();
		let cur = match sp.currency { Currency::Bitcoin => "bc", Currency::BitcoinTestnet => "tb", Currency::Regtest => "bcrt", Currency::Simnet => "sb", Currency::Signet => "tbs" };
		let amt_part = &hrp[2 + cur.len()..];
		let mut hrps: Vec<String> = vec![];
		for c2 in ["bc", "tb", "bcrt", "sb", "tbs"] { hrps.push(format!("ln{}{}", c2, amt_part)); }
		for a in ["", "1", "10", "2500", "1m", "1u", "1n", "10p", "1p", "11p", "0m", "20m", "18446744073709551615p", "18446744073709551616p", "1844674407370955162m", "00001u", "9999999999m"] { hrps.push(format!("ln{}{}", cur, a)); }
		if !amt_part.is_empty() {
			let (digits, si) = amt_part.split_at(amt_part.len() - 1);
			for s2 in ["m", "u", "n", "p", ""] { hrps.push(format!("ln{}{}{}", cur, digits, s2)); }
			hrps.push(format!("ln{}{}0{}", cur, digits, si));
			hrps.push(format!("ln{}0{}{}", cur, digits, si));
			if let Ok(v) = digits.parse::<u64>() { hrps.push(format!("ln{}{}{}", cur, v.wrapping_add(1), si)); if v > 0 { hrps.push(format!("ln{}{}{}", cur, v - 1, si)); } }
		}
		for h2 in hrps {
			if h2 == hrp { continue; }
			if let Some(m) = encode_checked(&h2, payload) { m3.add(judge_altered(inv, &m), &m); }
		}
		// M4: timestamp changes
		let mut m4 = MutStats::new();
		let ts = sp.ts;
		let mut tss: Vec<u64> = vec![ts ^ 1, ts.wrapping_add(1) & lightning_invoice::MAX_TIMESTAMP, ts.wrapping_sub(1) & lightning_invoice::MAX_TIMESTAMP, 0, lightning_invoice::MAX_TIMESTAMP];
		for k in 0..35 { tss.push(ts ^ (1 << k)); }
		for t2 in tss {
			if t2 == ts { continue; }
			let mut d = payload.to_vec();
			for j in 0..7 { d[j] = ((t2 >> (5 * (6 - j))) & 31) as u8; }
			if let Some(m) = encode_checked(&hrp, &d) { m4.add(judge_altered(inv, &m), &m); }
		}
		// M5: truncations (plain, and of the data part with the checksum recomputed), insert/delete one symbol
		let mut m5 = MutStats::new();
		for cut in 0..s.len() {
			if !s.is_char_boundary(cut) { continue; }
			let m = &s[..cut];
			let out = match guard(|| m.parse::<Bolt11Invoice>()) { Err(()) => Mo::Violation("parse panicked".into()), Ok(Err(_)) => Mo::Err, Ok(Ok(_)) => Mo::Violation("truncated string accepted".into()) };
			m5.add(out, m);
		}
		for cut in 0..payload.len() {
			if !(thorough || cut % 3 == 0 || cut + 120 > payload.len()) { continue; }
			if let Some(m) = encode_checked(&hrp, &payload[..cut]) { m5.add(judge_altered(inv, &m), &m); }
		}
		for i in (0..payload.len()).step_by(if thorough { 1 } else { 5 }) {
			let mut d = payload.to_vec();
			d.remove(i);
			if let Some(m) = encode_checked(&hrp, &d) { m5.add(judge_altered(inv, &m), &m); }
			let mut d = payload.to_vec();
			d.insert(i, r.below(32) as u8);
			if let Some(m) = encode_checked(&hrp, &d) { m5.add(judge_altered(inv, &m), &m); }
		}
		// M6: structural changes of the field list (duplicates, insertions, deletions, reorderings, wrong lengths, several n fields)
		let mut m6 = MutStats::new();
		let mut samples: Vec<String> = vec![];
		mut_structural(r, inv, sp, &mut m6, &mut samples);
		J::new("b11struct").n("id", mi).b("explicit_payee", sp.explicit_payee).s("s", &s).raw("structural", m6.json()).strs("parsed_samples", &samples).b("ok", m6.viol.is_empty()).emit();
		J::new("b11mut").n("id", mi).n("len", s.len()).b("explicit_payee", sp.explicit_payee).s("s", &s)
			.raw("single_char", m1.json()).raw("symbol", m2.json()).raw("amount", m3.json()).raw("timestamp", m4.json()).raw("truncation", m5.json())
			.b("ok", m1.viol.is_empty() && m2.viol.is_empty() && m3.viol.is_empty() && m4.viol.is_empty() && m5.viol.is_empty()).emit();
	}
	// random strings: arbitrary bytes, charset noise, and well-checksummed random symbol strings under an "ln.." hrp
	let mut st = MutStats::new();
	let mut roundtrip_bad: Vec<String> = vec![];
	let n_rand = if thorough { 200_000 } else { 12_000 };
	for i in 0..n_rand {
		let m: String = match i % 4 {
			0 => String::from_utf8_lossy(&rbytes(r, r.below(200) as usize)).to_string(),
			1 => { let n = r.below(400) as usize; let mut x = String::from(pick(r, &["lnbc1", "lntb20m1", "ln1", "lnbcrt1", "LNBC1", "lnbc2500u1"])); for _ in 0..n { x.push(CHARSET[r.below(32) as usize] as char); } x },
			_ => {
				// valid checksum, random / semi-structured symbols: exercises every tagged-field parser
				let h = pick(r, &["lnbc", "lntb1u", "lnbcrt2500n", "lnsb10p", "lntbs", "lnbc9999999999m", "lnbc1", "lnxx", "lnbc1x"]);
				let mut d: Vec<u8> = (0..7).map(|_| r.below(32) as u8).collect();
				let nf = r.below(6);
				for _ in 0..nf {
					let tag = pick(r, &[1u8, 3, 5, 6, 9, 13, 16, 19, 23, 24, 27, 0, 31, r.below(32) as u8]);
					let len = pick(r, &[0usize, 1, 2, 7, 13, 14, 33, 52, 53, 54, 82, 104, r.below(120) as usize]);
					d.push(tag); d.push((len / 32) as u8); d.push((len % 32) as u8);
					let real = if r.below(10) == 0 { len.saturating_sub(r.below(3) as usize) } else { len };
					for _ in 0..real { d.push(r.below(32) as u8); }
				}
				for _ in 0..pick(r, &[104usize, 104, 104, 103, 105, 0]) { d.push(r.below(32) as u8); }
				encode_checked(h, &d).unwrap_or_default()
			},
		};
		match guard(|| m.parse::<Bolt11Invoice>()) {
			Err(()) => st.add(Mo::Violation("parse panicked".into()), &m),
			Ok(Err(_)) => st.add(Mo::Err, &m),
			Ok(Ok(p)) => {
				st.add(Mo::Same, &m);
				// anything that parses re-serialises to something that parses to the same object
				let s2 = p.to_string();
				match guard(|| s2.parse::<Bolt11Invoice>()) { Ok(Ok(p2)) if p2 == p => {}, _ => if roundtrip_bad.len() < 3 { roundtrip_bad.push(m.clone()) } }
			},
		}
		// the signature-less raw layer too (does not need a valid signature, so gets deeper)
		if i % 4 >= 2 {
			if guard(|| m.parse::<SignedRawBolt11Invoice>().map(|sr| { let _ = sr.check_signature(); let _ = sr.recover_payee_pub_key(); sr.to_string() })).is_err() {
				st.add(Mo::Violation("raw parse panicked".into()), &m);
			}
		}
	}
	J::new("b11rand").raw("stats", st.json()).strs("roundtrip_bad", &roundtrip_bad).b("ok", st.viol.is_empty() && roundtrip_bad.is_empty()).emit();
}

// ------------------------------------------------------------------------------------------------
// BOLT 12
// ------------------------------------------------------------------------------------------------

/// (type, start, value_start, end) of every record of a well-formed TLV stream.
fn tlv_records(b: &[u8]) -> Option<Vec<(u64, usize, usize, usize)>> {
	fn bigsize(b: &[u8], p: &mut usize) -> Option<u64> {
		let n = *b.get(*p)?;
		*p += 1;
		let k = match n { 0xff => 8, 0xfe => 4, 0xfd => 2, _ => return Some(n as u64) };
		if *p + k > b.len() { return None; }
		let mut v = 0u64;
		for i in 0..k { v = (v << 8) | b[*p + i] as u64; }
		*p += k;
		Some(v)
	}
	let mut out = vec![];
	let mut p = 0usize;
	while p < b.len() {
		let start = p;
		let t = bigsize(b, &mut p)?;
		let l = bigsize(b, &mut p)? as usize;
		if p + l > b.len() { return None; }
		out.push((t, start, p, p + l));
		p += l;
	}
	Some(out)
}

fn bigsize_enc(v: u64) -> Vec<u8> {
	if v < 0xfd { vec![v as u8] } else if v < 0x10000 { let mut o = vec![0xfd]; o.extend_from_slice(&(v as u16).to_be_bytes()); o }
	else if v < 0x1_0000_0000 { let mut o = vec![0xfe]; o.extend_from_slice(&(v as u32).to_be_bytes()); o }
	else { let mut o = vec![0xff]; o.extend_from_slice(&v.to_be_bytes()); o }
}
fn tlv_rec(t: u64, v: &[u8]) -> Vec<u8> {
	let mut o = bigsize_enc(t);
	o.extend(bigsize_enc(v.len() as u64));
	o.extend_from_slice(v);
	o
}

fn wbytes<W: Writeable>(w: &W) -> Vec<u8> {
	let mut v = Vec::new();
	w.write(&mut v).unwrap();
	v
}

fn msg_path(r: &R) -> BlindedMessagePath {
	let n = 1 + r.below(3) as usize;
	let hops = (0..n).map(|_| BlindedHop { blinded_node_id: some_pk(r), encrypted_payload: rbytes(r, 20 + r.below(40) as usize) }).collect();
	BlindedMessagePath::from_blinded_path(some_pk(r), some_pk(r), hops)
}
fn pay_path(r: &R) -> BlindedPaymentPath {
	let n = 1 + r.below(3) as usize;
	let hops = (0..n).map(|_| BlindedHop { blinded_node_id: some_pk(r), encrypted_payload: rbytes(r, 20 + r.below(40) as usize) }).collect();
	BlindedPaymentPath::from_blinded_path_and_payinfo(some_pk(r), some_pk(r), hops, BlindedPayInfo {
		fee_base_msat: r.next() as u32, fee_proportional_millionths: r.next() as u32, cltv_expiry_delta: r.next() as u16,
		htlc_minimum_msat: r.below(1000), htlc_maximum_msat: 1_000_000_000_000 + r.below(1000), features: BlindedHopFeatures::empty(),
	})
}

const MAX_MSAT: u64 = 21_000_000 * 100_000_000 * 1000;
const FAR_FUTURE: u64 = 4_000_000_000;

#[derive(Clone, Copy, PartialEq, Debug)]
enum OfferKind { Explicit, ExplicitWithMeta, DerivedMeta, DerivedPaths }

struct OfferOut { offer: Offer, kind: OfferKind, key: [u8; 32], nonce: Nonce, spec: String, expect: Vec<(String, String)> }

fn gen_offer(r: &R, idx: usize, recipient: &Keypair, secp: &Secp256k1<bitcoin::secp256k1::All>) -> Result<OfferOut, String> {
	let kind = [OfferKind::Explicit, OfferKind::ExplicitWithMeta, OfferKind::DerivedMeta, OfferKind::DerivedPaths][idx % 4];
	let key = r32(r);
	let ek = ExpandedKey::new(key);
	let nonce = Nonce::try_from(&rbytes(r, 16)[..]).unwrap();
	let mut expect: Vec<(String, String)> = vec![];
	let amount = match r.below(14) { 0 | 6 | 7 => None, 1 => Some(1), 2 => Some(1000), 3 => Some(MAX_MSAT), 4 => Some(MAX_MSAT + 1), 5 => Some(0), 8 | 9 => Some(1 + r.below(100_000)), _ => Some(r.next() % MAX_MSAT) };
	let desc = if amount.is_some() || r.below(2) == 0 { Some(rand_text(r, 80)) } else { None };
	let expiry = match r.below(4) { 0 => Some(FAR_FUTURE), 1 => Some(u64::MAX), 2 => Some(FAR_FUTURE + r.below(1 << 40)), _ => None };
	let issuer = if r.below(3) == 0 { Some(rand_text(r, 30)) } else { None };
	let npaths = if kind == OfferKind::DerivedPaths { 1 + r.below(2) } else { r.below(3) * (r.below(2)) };
	let qty = match r.below(4) { 0 => Quantity::Unbounded, 1 => Quantity::Bounded(std::num::NonZeroU64::new(1 + r.below(1000)).unwrap()), _ => Quantity::One };
	let chains: Vec<Network> = match r.below(5) { 0 => vec![Network::Testnet], 1 => vec![Network::Bitcoin, Network::Regtest], 2 => vec![Network::Signet], _ => vec![] };
	let user_meta = rbytes(r, pick(r, &[0usize, 1, 16, 32, 48, 100]));
	macro_rules! common {
		($b: expr) => {{
			let mut b = $b;
			for c in chains.iter() { b = b.chain(*c); }
			if let Some(a) = amount { b = b.amount_msats(a); }
			if let Some(d) = &desc { b = b.description(d.clone()); }
			if let Some(e) = expiry { b = b.absolute_expiry(Duration::from_secs(e)); }
			if let Some(i) = &issuer { b = b.issuer(i.clone()); }
			for _ in 0..npaths { b = b.path(msg_path(r)); }
			b = b.supported_quantity(qty);
			b.build().map_err(|e| format!("{:?}", e))
		}};
	}
	let offer = match kind {
		OfferKind::Explicit => common!(OfferBuilder::new(recipient.public_key())),
		OfferKind::ExplicitWithMeta => common!(OfferBuilder::new(recipient.public_key()).metadata(user_meta.clone()).unwrap()),
		_ => common!(OfferBuilder::deriving_signing_pubkey(recipient.public_key(), &ek, nonce, secp)),
	};
	let spec = format!("kind={:?} amount={:?} desc={} expiry={:?} issuer={} paths={} qty={:?} chains={}", kind, amount, desc.is_some(), expiry, issuer.is_some(), npaths, qty, chains.len());
	let offer = offer.map_err(|e| format!("{} [{}] expected_err={}", e, spec, amount.map(|a| a > MAX_MSAT || a == 0).unwrap_or(false)))?;
	expect.push(("amount".into(), format!("{:?}", amount.map(|a| Amount::Bitcoin { amount_msats: a }))));
	expect.push(("description".into(), format!("{:?}", desc)));
	expect.push(("expiry".into(), format!("{:?}", expiry.map(Duration::from_secs))));
	expect.push(("issuer".into(), format!("{:?}", issuer)));
	expect.push(("npaths".into(), format!("{}", npaths)));
	expect.push(("qty".into(), format!("{:?}", qty)));
	Ok(OfferOut { offer, kind, key, nonce, spec, expect })
}

fn judge_offer(o: &OfferOut, recipient: &Keypair) -> Vec<String> {
	let mut bad = vec![];
	let off = &o.offer;
	let got: Vec<(String, String)> = vec![
		("amount".into(), format!("{:?}", off.amount())),
		("description".into(), format!("{:?}", off.description().map(|d| d.0.to_string()))),
		("expiry".into(), format!("{:?}", off.absolute_expiry())),
		("issuer".into(), format!("{:?}", off.issuer().map(|d| d.0.to_string()))),
		("npaths".into(), format!("{}", off.paths().len())),
		("qty".into(), format!("{:?}", off.supported_quantity())),
	];
	for ((k, e), (_, g)) in o.expect.iter().zip(got.iter()) { if e != g { bad.push(format!("{}: built {} from {}", k, g, e)); } }
	match o.kind {
		OfferKind::Explicit => { if off.metadata().is_some() { bad.push("unexpected metadata".into()); } if off.issuer_signing_pubkey() != Some(recipient.public_key()) { bad.push("signing key".into()); } },
		OfferKind::ExplicitWithMeta => { if off.issuer_signing_pubkey() != Some(recipient.public_key()) { bad.push("signing key".into()); } },
		OfferKind::DerivedMeta => { if off.paths().is_empty() { if off.metadata().map(|m| m.len()) != Some(48) { bad.push("derived metadata length".into()); } if off.issuer_signing_pubkey() != Some(recipient.public_key()) { bad.push("signing key".into()); } } },
		OfferKind::DerivedPaths => { if off.metadata().is_some() { bad.push("metadata present with paths".into()); } if off.issuer_signing_pubkey() == Some(recipient.public_key()) { bad.push("signing key not derived".into()); } },
	}
	let bytes = wbytes(off);
	match guard(|| Offer::try_from(bytes.clone())) {
		Ok(Ok(p)) => {
			if &p != off { bad.push("parsed offer differs".into()); }
			if format!("{:?}", p) != format!("{:?}", off) { bad.push("parsed offer's fields differ".into()); }
			if p.amount() != off.amount() || p.absolute_expiry() != off.absolute_expiry() || p.paths() != off.paths() || p.offer_features() != off.offer_features() || p.chains() != off.chains() || p.id() != off.id() { bad.push("accessors differ".into()); }
		},
		Ok(Err(e)) => bad.push(format!("own bytes do not parse: {:?}", e)),
		Err(()) => bad.push("parse panicked".into()),
	}
	let s = off.to_string();
	match guard(|| s.parse::<Offer>()) { Ok(Ok(p)) if &p == off => {}, _ => bad.push("string form does not round trip".into()) }
	match guard(|| s.to_uppercase().parse::<Offer>()) { Ok(Ok(p)) if &p == off => {}, _ => bad.push("uppercase string form does not round trip".into()) }
	// continuation form: '+' and whitespace between chunks
	if s.len() > 20 {
		let c = format!("{}+\n  {}+ {}", &s[..7], &s[7..15], &s[15..]);
		match guard(|| c.parse::<Offer>()) { Ok(Ok(p)) if &p == off => {}, _ => bad.push("continued string form does not round trip".into()) }
	}
	bad
}

struct Signed { kind: &'static str, bytes: Vec<u8>, tag: usize, root: String, digest: String }

fn flip_all_bits(kind: &str, bytes: &[u8], every: usize) -> (u64, Vec<String>) {
	let mut n = 0u64;
	let mut viol = vec![];
	for i in (0..bytes.len() * 8).step_by(every) {
		let mut b = bytes.to_vec();
		b[i / 8] ^= 1 << (i % 8);
		n += 1;
		let res = parse_b12(kind, b.clone());
		if !res.starts_with("Err") && viol.len() < 3 { viol.push(format!("bit {} -> {}: {}", i, res, hex(&b))); }
	}
	(n, viol)
}

fn gen_b12(r: &R, thorough: bool) {
	let secp = Secp256k1::new();
	let recipient = Keypair::from_secret_key(&secp, &SecretKey::from_slice(&[43; 32]).unwrap());
	let n = if thorough { 240 } else { 40 };
	let created_at = Duration::from_secs(1_700_000_000);
	let bud = MetaBudget::new(thorough);
	let mut signed: Vec<Signed> = vec![];
	let mut unsigned_streams: Vec<(String, Vec<u8>)> = vec![];
	for idx in 0..n {
		let o = match guard(|| gen_offer(r, idx, &recipient, &secp)) {
			Err(()) => { J::new("b12").s("type", "offer").n("id", idx).b("ok", false).s("why", "builder panicked").emit(); continue; },
			Ok(Err(e)) => { let ok = e.ends_with("expected_err=true") || e.starts_with("InvalidAmount") && e.contains("expected_err=true"); J::new("b12").s("type", "offer").n("id", idx).b("ok", ok).b("built", false).s("why", &e).emit(); continue; },
			Ok(Ok(o)) => o,
		};
		let bad = judge_offer(&o, &recipient);
		let obytes = wbytes(&o.offer);
		J::new("b12").s("type", "offer").n("id", idx).b("ok", bad.is_empty()).b("built", true).strs("why", &bad).s("spec", &o.spec).s("bytes", &hex(&obytes)).s("str", &o.offer.to_string()).emit();
		unsigned_streams.push(("offer".into(), obytes.clone()));
		// --- invoice request
		let payer_key = r32(r);
		let payer_ek = ExpandedKey::new(payer_key);
		let payer_nonce = Nonce::try_from(&rbytes(r, 16)[..]).unwrap();
		let payment_id = PaymentId(r32(r));
		let offer_amt = match o.offer.amount() { Some(Amount::Bitcoin { amount_msats }) => Some(amount_msats), _ => None };
		let quantity = match o.offer.supported_quantity() { Quantity::One => None, Quantity::Unbounded => Some(1 + r.below(5)), Quantity::Bounded(n) => Some(1 + r.below(n.get().min(5))) };
		let total = offer_amt.map(|a| a.saturating_mul(quantity.unwrap_or(1)));
		let req_amt = match (total, r.below(3)) { (Some(t), 0) => Some(t), (Some(t), 1) => Some(t.saturating_add(r.below(1000)).min(MAX_MSAT)), (Some(_), _) => None, (None, _) => Some(1 + r.below(1_000_000)) };
		let note = if r.below(2) == 0 { Some(rand_text(r, 40)) } else { None };
		let req_chain = o.offer.chains().first().cloned();
		let req = guard(|| -> Result<InvoiceRequest, String> {
			let mut b = o.offer.request_invoice(&payer_ek, payer_nonce, &secp, payment_id).map_err(|e| format!("{:?}", e))?;
			if let Some(q) = quantity { b = b.quantity(q).map_err(|e| format!("quantity {:?}", e))?; }
			if let Some(a) = req_amt { b = b.amount_msats(a).map_err(|e| format!("amount {:?}", e))?; }
			if let Some(nt) = &note { b = b.payer_note(nt.clone()); }
			if o.offer.chains().len() > 0 && o.offer.chains()[0] != bitcoin::constants::ChainHash::using_genesis_block(Network::Bitcoin) {
				let net = [Network::Testnet, Network::Regtest, Network::Signet, Network::Bitcoin].into_iter().find(|n| Some(bitcoin::constants::ChainHash::using_genesis_block(*n)) == req_chain).unwrap();
				b = b.chain(net).map_err(|e| format!("chain {:?}", e))?;
			}
			b.build_and_sign().map_err(|e| format!("{:?}", e))
		});
		let req = match req {
			Err(()) => { J::new("b12").s("type", "invreq").n("id", idx).b("ok", false).s("why", "builder panicked").emit(); continue; },
			Ok(Err(e)) => { let expected = total.map(|t| t > MAX_MSAT).unwrap_or(false) || offer_amt == Some(0) && false; J::new("b12").s("type", "invreq").n("id", idx).b("ok", expected || e.contains("InvalidAmount") && total.map(|t| t > MAX_MSAT).unwrap_or(false)).b("built", false).s("why", &format!("{} total={:?}", e, total)).emit(); continue; },
			Ok(Ok(q)) => q,
		};
		let rbytes_ = wbytes(&req);
		let mut bad = vec![];
		match guard(|| InvoiceRequest::try_from(rbytes_.clone())) {
			Ok(Ok(p)) => {
				if p != req { bad.push("parsed request differs".into()); }
				if p.amount_msats() != req.amount_msats() || p.quantity() != quantity || p.payer_note().map(|x| x.0.to_string()) != note || p.payer_signing_pubkey() != req.payer_signing_pubkey() || p.payer_metadata() != req.payer_metadata() || p.amount() != o.offer.amount() || p.absolute_expiry() != o.offer.absolute_expiry() || p.paths() != o.offer.paths() || p.invoice_request_features() != req.invoice_request_features() || p.chain() != req.chain() || p.signature() != req.signature() { bad.push("request accessors differ".into()); }
				if let Some(a) = req_amt { if p.amount_msats() != Some(a) { bad.push("request amount".into()); } }
			},
			Ok(Err(e)) => bad.push(format!("own bytes do not parse: {:?}", e)),
			Err(()) => bad.push("parse panicked".into()),
		}
		let th = mh::tagged_hash_from_tlv_stream_bytes(B12_TAGS[0], &rbytes_);
		J::new("b12").s("type", "invreq").n("id", idx).b("ok", bad.is_empty()).b("built", true).strs("why", &bad).s("bytes", &hex(&rbytes_)).emit();
		signed.push(Signed { kind: "invreq", bytes: rbytes_.clone(), tag: 0, root: hex(th.merkle_root().as_ref()), digest: hex(th.as_digest().as_ref()) });

		// --- metadata: what the offer's originator accepts
		metadata_cases(r, idx, &o, &req, &payer_ek, payer_nonce, payment_id, &secp, &bud);

		// --- invoice
		let npp = 1 + r.below(2);
		let pps: Vec<BlindedPaymentPath> = (0..npp).map(|_| pay_path(r)).collect();
		let phash = lightning::types::payment::PaymentHash(r32(r));
		let rel_exp = if r.below(2) == 0 { Some(r.next() as u32) } else { None };
		let with_fallback = r.below(3) == 0;
		let inv = guard(|| -> Result<Bolt12Invoice, String> {
			macro_rules! opts { ($b: expr) => {{ let mut b = $b; if let Some(e) = rel_exp { b = b.relative_expiry(e); } if with_fallback { b = b.fallback_v0_p2wpkh(&bitcoin::WPubkeyHash::from_slice(&[7u8; 20]).unwrap()); } b }}; }
			match o.kind {
				OfferKind::DerivedMeta | OfferKind::DerivedPaths => {
					let v = if o.offer.metadata().is_none() { req.clone().verify_using_recipient_data(o.nonce, &ExpandedKey::new(o.key), &secp) } else { req.clone().verify_using_metadata(&ExpandedKey::new(o.key), &secp) };
					match v.map_err(|_| "own request refused by metadata check".to_string())? {
						InvoiceRequestVerifiedFromOffer::DerivedKeys(v) => opts!(v.respond_using_derived_keys_no_std(pps.clone(), phash, created_at).map_err(|e| format!("{:?}", e))?).build_and_sign(&secp).map_err(|e| format!("{:?}", e)),
						InvoiceRequestVerifiedFromOffer::ExplicitKeys(v) => opts!(v.respond_with_no_std(pps.clone(), phash, created_at).map_err(|e| format!("{:?}", e))?).build().map_err(|e| format!("{:?}", e))?.sign(|m: &lightning::offers::invoice::UnsignedBolt12Invoice| Ok(secp.sign_schnorr_no_aux_rand(m.as_ref().as_digest(), &recipient))).map_err(|e| format!("{:?}", e)),
					}
				},
				_ => opts!(req.respond_with_no_std(pps.clone(), phash, created_at).map_err(|e| format!("{:?}", e))?).build().map_err(|e| format!("{:?}", e))?.sign(|m: &lightning::offers::invoice::UnsignedBolt12Invoice| Ok(secp.sign_schnorr_no_aux_rand(m.as_ref().as_digest(), &recipient))).map_err(|e| format!("{:?}", e)),
			}
		});
		match inv {
			Err(()) => J::new("b12").s("type", "invoice").n("id", idx).b("ok", false).s("why", "builder panicked").emit(),
			Ok(Err(e)) => J::new("b12").s("type", "invoice").n("id", idx).b("ok", false).b("built", false).s("why", &e).emit(),
			Ok(Ok(inv)) => {
				let ib = wbytes(&inv);
				let mut bad = vec![];
				match guard(|| Bolt12Invoice::try_from(ib.clone())) {
					Ok(Ok(p)) => {
						if p != inv { bad.push("parsed invoice differs".into()); }
						if p.amount_msats() != inv.amount_msats() || p.payment_hash() != phash || p.payment_paths() != &pps[..] || p.created_at() != created_at || p.relative_expiry() != inv.relative_expiry() || p.invoice_features() != inv.invoice_features() || p.signing_pubkey() != inv.signing_pubkey() || p.fallbacks() != inv.fallbacks() || p.signable_hash() != inv.signable_hash() || p.payer_signing_pubkey() != req.payer_signing_pubkey() || p.quantity() != quantity { bad.push("invoice accessors differ".into()); }
						if let Some(e) = rel_exp { if p.relative_expiry() != Duration::from_secs(e as u64) { bad.push("relative expiry".into()); } }
						let want_amt = req_amt.or(total);
						if Some(p.amount_msats()) != want_amt { bad.push(format!("invoice amount {} != {:?}", p.amount_msats(), want_amt)); }
						match p.verify_using_metadata(&payer_ek, &secp) { Ok(pid) if pid == payment_id => {}, _ => bad.push("payer does not recognise the invoice for its own request".into()) }
					},
					Ok(Err(e)) => bad.push(format!("own bytes do not parse: {:?}", e)),
					Err(()) => bad.push("parse panicked".into()),
				}
				let th = mh::tagged_hash_from_tlv_stream_bytes(B12_TAGS[1], &ib);
				if th.as_digest().as_ref() != &inv.signable_hash() { bad.push("hook digest != signable_hash".into()); }
				J::new("b12").s("type", "invoice").n("id", idx).b("ok", bad.is_empty()).b("built", true).strs("why", &bad).s("bytes", &hex(&ib)).emit();
				signed.push(Signed { kind: "invoice", bytes: ib.clone(), tag: 1, root: hex(th.merkle_root().as_ref()), digest: hex(th.as_digest().as_ref()) });
				invoice_metadata_cases(r, idx, &ib, payer_key, &recipient, &secp, "LDK Invreq ~~~~~", "invoice for request: payer keys derived", &bud);
			},
		}
		// --- static invoice (offers with derived keys and paths only)
		if (o.kind == OfferKind::DerivedPaths || o.kind == OfferKind::DerivedMeta) && o.offer.metadata().is_none() && o.offer.chains().len() <= 1 {
			let res = guard(|| StaticInvoiceBuilder::for_offer_using_derived_keys(&o.offer, vec![pay_path(r)], vec![msg_path(r)], created_at, &ExpandedKey::new(o.key), o.nonce, &secp).and_then(|b| b.build_and_sign(&secp)).map_err(|e| format!("{:?}", e)));
			match res {
				Ok(Ok(si)) => {
					let sb = wbytes(&si);
					let mut bad = vec![];
					match guard(|| StaticInvoice::try_from(sb.clone())) {
						Ok(Ok(p)) => { if p != si { bad.push("parsed static invoice differs".into()); } if p.payment_paths() != si.payment_paths() || p.created_at() != created_at || p.amount() != o.offer.amount() || p.signing_pubkey() != si.signing_pubkey() || p.offer_message_paths() != o.offer.paths() || p.signature() != si.signature() { bad.push("static invoice accessors differ".into()); } },
						Ok(Err(e)) => bad.push(format!("own bytes do not parse: {:?}", e)),
						Err(()) => bad.push("parse panicked".into()),
					}
					let th = mh::tagged_hash_from_tlv_stream_bytes(B12_TAGS[1], &sb);
					J::new("b12").s("type", "static").n("id", idx).b("ok", bad.is_empty()).b("built", true).strs("why", &bad).s("bytes", &hex(&sb)).emit();
					signed.push(Signed { kind: "static", bytes: sb, tag: 1, root: hex(th.merkle_root().as_ref()), digest: hex(th.as_digest().as_ref()) });
				},
				Ok(Err(e)) => J::new("b12").s("type", "static").n("id", idx).b("ok", false).b("built", false).s("why", &e).emit(),
				Err(()) => J::new("b12").s("type", "static").n("id", idx).b("ok", false).s("why", "builder panicked").emit(),
			}
		}
		// --- refund and the invoice answering it
		if idx % 2 == 0 {
			let ramt = pick(r, &[0u64, 1, 1000, MAX_MSAT, r.next() % MAX_MSAT]);
			let derived = idx % 4 == 0;
			let with_path = r.below(2) == 0;
			let rkey = r32(r);
			let rek = ExpandedKey::new(rkey);
			let rnonce = Nonce::try_from(&rbytes(r, 16)[..]).unwrap();
			let rpid = PaymentId(r32(r));
			let payer_kp = Keypair::from_secret_key(&secp, &SecretKey::from_slice(&[42; 32]).unwrap());
			let rdesc = rand_text(r, 30);
			let rq = if r.below(3) == 0 { Some(1 + r.below(9)) } else { None };
			let user_meta = rbytes(r, 1 + r.below(40) as usize);
			let refund = guard(|| -> Result<Refund, String> {
				macro_rules! common { ($b: expr) => {{ let mut b = $b.description(rdesc.clone()).absolute_expiry(Duration::from_secs(FAR_FUTURE)); if with_path { b = b.path(msg_path(r)); } if let Some(q) = rq { b = b.quantity(q); } b.build().map_err(|e| format!("{:?}", e)) }}; }
				if derived { common!(RefundBuilder::deriving_signing_pubkey(payer_kp.public_key(), &rek, rnonce, &secp, ramt, rpid).map_err(|e| format!("{:?}", e))?) }
				else { common!(RefundBuilder::new(user_meta.clone(), payer_kp.public_key(), ramt).map_err(|e| format!("{:?}", e))?) }
			});
			if let Ok(Ok(refund)) = refund {
				let fb = wbytes(&refund);
				let mut bad = vec![];
				match guard(|| Refund::try_from(fb.clone())) {
					Ok(Ok(p)) => { if p != refund { bad.push("parsed refund differs".into()); } if p.amount_msats() != ramt || p.description().0 != rdesc || p.quantity() != rq || p.absolute_expiry() != Some(Duration::from_secs(FAR_FUTURE)) || p.paths() != refund.paths() || p.payer_signing_pubkey() != refund.payer_signing_pubkey() || p.payer_metadata() != refund.payer_metadata() || p.features() != refund.features() { bad.push("refund accessors differ".into()); } },
					Ok(Err(e)) => bad.push(format!("own bytes do not parse: {:?}", e)),
					Err(()) => bad.push("parse panicked".into()),
				}
				match guard(|| refund.to_string().parse::<Refund>()) { Ok(Ok(p)) if p == refund => {}, _ => bad.push("refund string form does not round trip".into()) }
				J::new("b12").s("type", "refund").n("id", idx).b("ok", bad.is_empty()).b("built", true).strs("why", &bad).s("bytes", &hex(&fb)).emit();
				unsigned_streams.push(("refund".into(), fb));
				let pps = vec![pay_path(r)];
				let rinv = guard(|| refund.respond_with_no_std(pps.clone(), phash, recipient.public_key(), created_at).map_err(|e| format!("{:?}", e)).and_then(|b| b.build().map_err(|e| format!("{:?}", e))).and_then(|u| u.sign(|m: &lightning::offers::invoice::UnsignedBolt12Invoice| Ok(secp.sign_schnorr_no_aux_rand(m.as_ref().as_digest(), &recipient))).map_err(|e| format!("{:?}", e))));
				if let Ok(Ok(rinv)) = rinv {
					let ib = wbytes(&rinv);
					let mut bad = vec![];
					match guard(|| Bolt12Invoice::try_from(ib.clone())) {
						Ok(Ok(p)) => {
							if p != rinv { bad.push("parsed refund invoice differs".into()); }
							if p.amount_msats() != ramt || p.payment_hash() != phash || p.payment_paths() != &pps[..] { bad.push("refund invoice accessors differ".into()); }
							if derived { match p.verify_using_metadata(&rek, &secp) { Ok(pid) if pid == rpid => {}, _ => bad.push("payer does not recognise the invoice for its own refund".into()) } }
							else if p.verify_using_metadata(&rek, &secp).is_ok() { bad.push("invoice for a refund with foreign metadata accepted".into()); }
						},
						Ok(Err(e)) => bad.push(format!("own bytes do not parse: {:?}", e)),
						Err(()) => bad.push("parse panicked".into()),
					}
					let th = mh::tagged_hash_from_tlv_stream_bytes(B12_TAGS[1], &ib);
					J::new("b12").s("type", "refund_invoice").n("id", idx).b("ok", bad.is_empty()).b("built", true).strs("why", &bad).s("bytes", &hex(&ib)).emit();
					signed.push(Signed { kind: "invoice", bytes: ib.clone(), tag: 1, root: hex(th.merkle_root().as_ref()), digest: hex(th.as_digest().as_ref()) });
					if derived { invoice_metadata_cases(r, idx, &ib, rkey, &recipient, &secp, if with_path { "LDK Refund v2~~~" } else { "LDK Refund ~~~~~" }, if with_path { "invoice for refund: payer keys derived (paths)" } else { "invoice for refund: explicit payer key, metadata = id+nonce+HMAC" }, &bud); }
				} else { J::new("b12").s("type", "refund_invoice").n("id", idx).b("ok", false).s("why", &format!("{:?}", rinv.map(|x| x.err()))).emit(); }
			} else {
				J::new("b12").s("type", "refund").n("id", idx).b("ok", false).s("why", &format!("{:?}", refund.map(|x| x.err()))).emit();
			}
		}
	}
	// every single-bit flip of signed streams; merkle roots for the model
	// all bits of every signed object (thorough) / of the first few objects of each kind (quick)
	let per_kind = if thorough { usize::MAX } else { 5 };
	let mut seen: std::collections::HashMap<&'static str, usize> = std::collections::HashMap::new();
	for sg in signed.iter() {
		let c = seen.entry(sg.kind).or_insert(0);
		*c += 1;
		let do_flip = *c <= per_kind;
		let (nf, viol) = if do_flip { flip_all_bits(sg.kind, &sg.bytes, 1) } else { (0, vec![]) };
		// an extra unknown odd record outside the signature range must invalidate the signature (or the parse)
		let mut viol = viol;
		if do_flip {
			if let Some(recs) = tlv_records(&sg.bytes) {
				for nt in [239u64, 1001, 159, 1_000_000_001, 2_000_000_001, 3_000_000_001] {
					if recs.iter().any(|x| x.0 == nt) { continue; }
					let pos = recs.iter().find(|x| x.0 > nt).map(|x| x.1).unwrap_or(sg.bytes.len());
					let mut b = sg.bytes[..pos].to_vec();
					b.extend(tlv_rec(nt, &[1, 2, 3]));
					b.extend_from_slice(&sg.bytes[pos..]);
					let res = parse_b12(sg.kind, b.clone());
					if !res.starts_with("Err") && viol.len() < 3 { viol.push(format!("inserted unknown record type {} -> {}: {}", nt, res, hex(&b))); }
				}
			}
		}
		// a duplicated record (signature, metadata or any other type) must be refused
		if do_flip {
			if let Some(recs) = tlv_records(&sg.bytes) {
				for &(t, s0, _, e0) in recs.iter() {
					let mut b = sg.bytes[..e0].to_vec();
					b.extend_from_slice(&sg.bytes[s0..e0]);
					b.extend_from_slice(&sg.bytes[e0..]);
					let res = parse_b12(sg.kind, b.clone());
					if !res.starts_with("Err") && viol.len() < 3 { viol.push(format!("duplicated record type {} -> {}: {}", t, res, hex(&b))); }
				}
			}
		}
		// truncations
		let mut tviol = vec![];
		if do_flip { for cut in 0..sg.bytes.len() { let res = parse_b12(sg.kind, sg.bytes[..cut].to_vec()); if !res.starts_with("Err") && tviol.len() < 3 { tviol.push(format!("prefix {} -> {}", cut, res)); } } }
		J::new("b12sig").s("type", sg.kind).n("tag", sg.tag).s("bytes", &hex(&sg.bytes)).s("root", &sg.root).s("digest", &sg.digest).n("flips", nf).strs("violations", &viol).strs("trunc_violations", &tviol).b("ok", viol.is_empty() && tviol.is_empty()).emit();
	}
	// unsigned objects: bit flips and truncations must not panic
	let mut panics = vec![];
	let mut nun = 0u64;
	for (k, b) in unsigned_streams.iter().take(if thorough { 400 } else { 12 }) {
		for i in 0..b.len() * 8 { let mut m = b.clone(); m[i / 8] ^= 1 << (i % 8); nun += 1; if parse_b12(k, m.clone()) == "PANIC" && panics.len() < 3 { panics.push(format!("{} {}", k, hex(&m))); } }
	}
	// random byte streams and random well-formed TLV streams into every parser; random strings into the string parsers
	for i in 0..(if thorough { 300_000 } else { 20_000 }) {
		let b = if i % 2 == 0 { rbytes(r, r.below(120) as usize) } else {
			let mut o = vec![]; let mut t = r.below(30);
			for _ in 0..r.below(8) { o.extend(tlv_rec(t, &rbytes(r, pick(r, &[0usize, 1, 8, 32, 33, 64, r.below(70) as usize])))); t += 1 + r.below(if r.below(4) == 0 { 2_000_000_000 } else { 60 }); }
			o
		};
		for k in ["offer", "invreq", "invoice", "refund", "static"] { nun += 1; if parse_b12(k, b.clone()) == "PANIC" && panics.len() < 3 { panics.push(format!("{} {}", k, hex(&b))); } }
		if i % 8 == 0 {
			let mut s = String::from(pick(r, &["lno1", "lnr1", "LNO1", "lni1", "lno1+ ", "ln"]));
			for _ in 0..r.below(150) { s.push(if r.below(30) == 0 { pick(r, &['+', ' ', '\n', '1', 'b', 'é']) } else { CHARSET[r.below(32) as usize] as char }); }
			if guard(|| { let _ = s.parse::<Offer>(); let _ = s.parse::<Refund>(); }).is_err() && panics.len() < 3 { panics.push(format!("str {}", s)); }
		}
	}
	J::new("b12fuzz").n("cases", nun).strs("panics", &panics).b("ok", panics.is_empty()).emit();
}

// ------------------------------------------------------------------------------------------------
// BOLT 12 stateless metadata scenarios
// ------------------------------------------------------------------------------------------------

/// How many objects per verification mode get the exhaustive (every bit of every record) treatment.
struct MetaBudget { thorough: bool, used: std::cell::RefCell<std::collections::HashMap<String, usize>> }
impl MetaBudget {
	fn new(thorough: bool) -> Self { MetaBudget { thorough, used: std::cell::RefCell::new(std::collections::HashMap::new()) } }
	fn full(&self, mode: &str) -> bool {
		let mut u = self.used.borrow_mut();
		let c = u.entry(mode.to_string()).or_insert(0);
		*c += 1;
		*c <= if self.thorough { 30 } else { 2 }
	}
}

struct Alt { what: String, bytes: Vec<u8>, key_record: bool, sparse: bool }

/// Variants of a TLV stream restricted to record types in `lo..hi`: every single bit of every record's
/// value (`full`), or for non-key records only two bits per record (`!full`); the records whose type is
/// in `key_types` (public keys that a derived-key check binds by comparison only) always get every
/// bit; every record removed; an unknown odd record inserted at the start and at the end of the range
/// and at each type in `extra_inserts`.
fn alter_stream(bytes: &[u8], lo: u64, hi: u64, extra_inserts: &[u64], full: bool, key_types: &[u64]) -> Vec<Alt> {
	let recs = match tlv_records(bytes) { Some(r) => r, None => return vec![] };
	let mut out = vec![];
	for &(t, s, vs, e) in recs.iter() {
		if t < lo || t >= hi { continue; }
		let is_key = key_types.contains(&t);
		for bit in 0..(e - vs) * 8 {
			let (byte, k) = (vs + bit / 8, bit % 8);
			let sparse = (byte == e - 1 && k == 0) || (byte == vs && k == 4) || (is_key && byte == vs && k == 0);
			if !(full || is_key || sparse) { continue; }
			let mut b = bytes.to_vec();
			b[byte] ^= 1 << k;
			out.push(Alt { what: format!("flip bit {} of byte {} of the value of type {}", k, byte - vs, t), bytes: b, key_record: is_key, sparse });
		}
		let mut b = bytes[..s].to_vec();
		b.extend_from_slice(&bytes[e..]);
		out.push(Alt { what: format!("remove type {}", t), bytes: b, key_record: is_key, sparse: true });
	}
	let mut inserts: Vec<u64> = extra_inserts.to_vec();
	if hi > lo {
		if let Some(first_odd) = (lo | 1..hi).step_by(2).find(|t| !recs.iter().any(|r| r.0 == *t)) { inserts.push(first_odd); }
		if let Some(last_odd) = (lo..hi).rev().find(|t| t % 2 == 1 && !recs.iter().any(|r| r.0 == *t)) { inserts.push(last_odd); }
	}
	inserts.sort();
	inserts.dedup();
	for nt in inserts {
		if recs.iter().any(|r| r.0 == nt) { continue; }
		let pos = recs.iter().find(|r| r.0 > nt).map(|r| r.1).unwrap_or(bytes.len());
		let mut b = bytes[..pos].to_vec();
		b.extend(tlv_rec(nt, &[1, 2, 3]));
		b.extend_from_slice(&bytes[pos..]);
		out.push(Alt { what: format!("insert unknown odd type {}", nt), bytes: b, key_record: false, sparse: true });
	}
	out
}

fn vreq(req: InvoiceRequest, key: &[u8; 32], nonce: Option<Nonce>, secp: &Secp256k1<bitcoin::secp256k1::All>) -> &'static str {
	let ek = ExpandedKey::new(*key);
	let r = match nonce { Some(n) => req.verify_using_recipient_data(n, &ek, secp), None => req.verify_using_metadata(&ek, secp) };
	match r { Ok(InvoiceRequestVerifiedFromOffer::DerivedKeys(_)) => "DerivedKeys", Ok(InvoiceRequestVerifiedFromOffer::ExplicitKeys(_)) => "Ok", Err(()) => "Err" }
}

/// Aggregated result of an exhaustive alteration sweep over one object.
struct Sweep { total: u64, refused: u64, unbuildable: u64, key_record_variants: u64, viol: Vec<String> }
impl Sweep {
	fn new() -> Self { Sweep { total: 0, refused: 0, unbuildable: 0, key_record_variants: 0, viol: vec![] } }
	fn emit(self, idx: usize, check: &str, mode: &str, full: bool) {
		let ok = self.viol.is_empty();
		J::new("metasweep").n("id", idx).s("check", check).s("mode", mode).b("full_bits", full).n("total", self.total).n("refused", self.refused)
			.n("unbuildable", self.unbuildable).n("key_record_variants", self.key_record_variants).raw("violations", format!("[{}]", self.viol.join(","))).b("ok", ok).emit();
	}
}

fn metadata_cases(r: &R, idx: usize, o: &OfferOut, req: &InvoiceRequest, payer_ek: &ExpandedKey, payer_nonce: Nonce, payment_id: PaymentId, secp: &Secp256k1<bitcoin::secp256k1::All>, bud: &MetaBudget) {
	let derived_md = o.kind == OfferKind::DerivedMeta && o.offer.metadata().is_some();
	let derived_paths = (o.kind == OfferKind::DerivedMeta || o.kind == OfferKind::DerivedPaths) && o.offer.metadata().is_none();
	let mode = if derived_md { "offer: explicit key, metadata = nonce+HMAC" } else if derived_paths { "offer: keys derived from path nonce" } else { "offer: no derived metadata" };
	let other_key = r32(r);
	let other_nonce = Nonce::try_from(&rbytes(r, 16)[..]).unwrap();
	let emit = |case: &str, check: &str, key: &[u8; 32], nonce: Option<Nonce>, rq: &InvoiceRequest, expect_accept: bool, v: &str| {
		let ok = if expect_accept { v != "Err" && v != "PANIC" } else { v == "Err" };
		J::new("meta").n("id", idx).s("check", check).s("mode", mode).s("case", case).s("key", &hex(key)).s("nonce", &nonce.map(|n| hex(n.as_slice())).unwrap_or_default())
			.s("stream", &hex(&wbytes(rq))).s("verdict", v).s("expect", if expect_accept { "accept" } else { "refuse" }).b("ok", ok).emit();
	};
	let run = |key: &[u8; 32], nonce: Option<Nonce>, rq: &InvoiceRequest| guard(|| vreq(rq.clone(), key, nonce, secp)).unwrap_or("PANIC");
	if derived_md {
		emit("own request, own key", "offer_md", &o.key, None, req, true, run(&o.key, None, req));
		emit("own request, another node's key", "offer_md", &other_key, None, req, false, run(&other_key, None, req));
		emit("own request, checked as if keys were path-derived", "offer_rd", &o.key, Some(o.nonce), req, false, run(&o.key, Some(o.nonce), req));
	} else if derived_paths {
		emit("own request, own key and path nonce", "offer_rd", &o.key, Some(o.nonce), req, true, run(&o.key, Some(o.nonce), req));
		emit("own request, another node's key", "offer_rd", &other_key, Some(o.nonce), req, false, run(&other_key, Some(o.nonce), req));
		emit("own request, wrong path nonce", "offer_rd", &o.key, Some(other_nonce), req, false, run(&o.key, Some(other_nonce), req));
		emit("own request, metadata check without nonce", "offer_md", &o.key, None, req, false, run(&o.key, None, req));
	} else {
		emit("offer without derived metadata", "offer_md", &o.key, None, req, false, run(&o.key, None, req));
		emit("offer without derived metadata, path check", "offer_rd", &o.key, Some(o.nonce), req, false, run(&o.key, Some(o.nonce), req));
	}
	if !(derived_md || derived_paths) { return; }
	// valid requests built against altered copies of the offer: every record, every bit (see alter_stream)
	let full = bud.full(mode);
	let (check, nonce) = if derived_md { ("offer_md", None) } else { ("offer_rd", Some(o.nonce)) };
	let ob = wbytes(&o.offer);
	let mut sw = Sweep::new();
	let mut individual = 0;
	let mut individual_key = 0;
	for alt_s in alter_stream(&ob, 1, 80, &[1_000_000_001, 1_999_999_999], full, &[22]) {
		let alt = match guard(|| Offer::try_from(alt_s.bytes.clone())) { Ok(Ok(a)) => a, _ => { sw.unbuildable += 1; continue } };
		if alt == o.offer { continue; }
		let rq = guard(|| -> Result<InvoiceRequest, ()> {
			let mut b = alt.request_invoice(payer_ek, payer_nonce, secp, payment_id).map_err(|_| ())?;
			if alt.expects_quantity() { b = b.quantity(1).map_err(|_| ())?; }
			if alt.amount().is_none() { b = b.amount_msats(1000).map_err(|_| ())?; }
			if let Some(c) = alt.chains().first() {
				for n in [Network::Testnet, Network::Regtest, Network::Signet] { if *c == bitcoin::constants::ChainHash::using_genesis_block(n) { b = b.chain(n).map_err(|_| ())?; } }
			}
			b.build_and_sign().map_err(|_| ())
		});
		let rq = match rq { Ok(Ok(q)) => q, _ => { sw.unbuildable += 1; continue } };
		let v = run(&o.key, nonce, &rq);
		sw.total += 1;
		if alt_s.key_record { sw.key_record_variants += 1; }
		if v == "Err" { sw.refused += 1; } else if sw.viol.len() < 3 {
			sw.viol.push(format!("{{\"case\":{},\"key\":{},\"nonce\":{},\"offer\":{},\"stream\":{},\"verdict\":{}}}", jstr(&format!("request against altered offer: {}", alt_s.what)), jstr(&hex(&o.key)), jstr(&nonce.map(|n| hex(n.as_slice())).unwrap_or_default()), jstr(&hex(&alt_s.bytes)), jstr(&hex(&wbytes(&rq))), jstr(v)));
		}
		// individual records (for the model comparison): the sparse set and some key-record variants
		let want_individual = if alt_s.key_record { individual_key < 6 } else { alt_s.sparse && individual < 10 };
		if want_individual || v != "Err" {
			if alt_s.key_record { individual_key += 1 } else { individual += 1 }
			emit(&format!("request against altered offer: {}", alt_s.what), check, &o.key, nonce, &rq, false, v);
		}
	}
	sw.emit(idx, check, mode, full);
}

/// Replace what a recipient could replace in an invoice it signs itself: strip the signature, alter,
/// recompute the tagged hash through the library, sign with the recipient key, re-insert.
fn resign(bytes_altered: &[u8], recipient: &Keypair, secp: &Secp256k1<bitcoin::secp256k1::All>) -> Option<Vec<u8>> {
	let recs = tlv_records(bytes_altered)?;
	let mut nosig = vec![];
	for &(t, s, _, e) in recs.iter() { if !(240..=1000).contains(&t) { nosig.extend_from_slice(&bytes_altered[s..e]); } }
	let th = guard(|| mh::tagged_hash_from_tlv_stream_bytes(B12_TAGS[1], &nosig)).ok()?;
	let sig = secp.sign_schnorr_no_aux_rand(th.as_digest(), recipient);
	let recs2 = tlv_records(&nosig)?;
	let pos = recs2.iter().find(|r| r.0 > 240).map(|r| r.1).unwrap_or(nosig.len());
	let mut out = nosig[..pos].to_vec();
	out.extend(tlv_rec(240, sig.as_ref()));
	out.extend_from_slice(&nosig[pos..]);
	Some(out)
}

fn invoice_metadata_cases(r: &R, idx: usize, ib: &[u8], payer_key: [u8; 32], recipient: &Keypair, secp: &Secp256k1<bitcoin::secp256k1::All>, iv: &str, mode: &str, bud: &MetaBudget) {
	let other_key = r32(r);
	let run = |key: &[u8; 32], bytes: &[u8]| guard(|| match Bolt12Invoice::try_from(bytes.to_vec()) { Ok(i) => match i.verify_using_metadata(&ExpandedKey::new(*key), secp) { Ok(_) => "Ok", Err(()) => "Err" }, Err(_) => "ParseErr" }).unwrap_or("PANIC");
	let emit = |case: &str, key: &[u8; 32], bytes: &[u8], expect: &str, v: &str| {
		let ok = match expect { "accept" => v == "Ok", "refuse" => v == "Err", _ => v != "PANIC" };
		J::new("meta").n("id", idx).s("check", "payer").s("mode", mode).s("iv", iv).s("case", case).s("key", &hex(key)).s("stream", &hex(bytes)).s("verdict", v).s("expect", expect).b("ok", ok).emit();
	};
	emit("own invoice, own key", &payer_key, ib, "accept", run(&payer_key, ib));
	emit("own invoice, another node's key", &other_key, ib, "refuse", run(&other_key, ib));
	// Only invoices the harness can re-sign (signed by `recipient`) can be altered into valid invoices.
	let resignable = match resign(ib, recipient, secp) { Some(rs) => matches!(guard(|| Bolt12Invoice::try_from(rs)), Ok(Ok(_))), None => false };
	if !resignable { return; }
	let full = bud.full(mode);
	let mut sw = Sweep::new();
	let mut individual = 0;
	let mut individual_key = 0;
	let alts = alter_stream(ib, 0, 160, &[1_000_000_001, 1_999_999_999], full, &[22, 88]).into_iter()
		.chain(alter_stream(ib, 1_000_000_000, 3_000_000_000, &[2_000_000_001], full, &[]));
	for alt_s in alts {
		let rs = match resign(&alt_s.bytes, recipient, secp) { Some(x) => x, None => { sw.unbuildable += 1; continue } };
		match guard(|| Bolt12Invoice::try_from(rs.clone())) { Ok(Ok(_)) => {}, _ => { sw.unbuildable += 1; continue } };
		let v = run(&payer_key, &rs);
		sw.total += 1;
		if alt_s.key_record { sw.key_record_variants += 1; }
		let case = format!("invoice re-signed by the recipient over altered request fields: {}", alt_s.what);
		if v == "Err" { sw.refused += 1; } else if sw.viol.len() < 3 {
			sw.viol.push(format!("{{\"case\":{},\"key\":{},\"iv\":{},\"stream\":{},\"verdict\":{}}}", jstr(&case), jstr(&hex(&payer_key)), jstr(iv), jstr(&hex(&rs)), jstr(v)));
		}
		let want_individual = if alt_s.key_record { individual_key < 6 } else { alt_s.sparse && individual < 10 };
		if want_individual || v != "Err" {
			if alt_s.key_record { individual_key += 1 } else { individual += 1 }
			emit(&case, &payer_key, &rs, "refuse", v);
		}
	}
	sw.emit(idx, "payer", mode, full);
	// the recipient's own fields (160..240) are not bound by the payer metadata: recorded for the model comparison only
	for alt_s in alter_stream(ib, 160, 240, &[3_000_000_001], false, &[]).into_iter().take(4) {
		if let Some(rs) = resign(&alt_s.bytes, recipient, secp) { if let Ok(Ok(_)) = guard(|| Bolt12Invoice::try_from(rs.clone())) { emit(&format!("recipient's own invoice field changed: {}", alt_s.what), &payer_key, &rs, "unbound", run(&payer_key, &rs)); } }
	}
}

fn main() {
	let args: Vec<String> = std::env::args().collect();
	match args.get(1).map(|s| s.as_str()) {
		Some("eval") => for_each_case(|l| eval_line(l)),
		Some("gen") => {
			panic::set_hook(Box::new(|_| {}));
			let thorough = args.get(2).map(|s| s == "thorough").unwrap_or(false);
			let seed: u64 = args.get(3).and_then(|s| s.parse().ok()).unwrap_or(1);
			let what = args.get(4).map(|s| s.as_str()).unwrap_or("all");
			let r = R::new(seed ^ 0xC18);
			if what == "all" || what == "b11" { gen_b11(&r, thorough); }
			let r = R::new(seed ^ 0xC18C18);
			if what == "all" || what == "b12" { gen_b12(&r, thorough); }
			J::new("done").emit();
		},
		_ => {
			eprintln!("usage: h_invoice eval | gen <quick|thorough> <seed> [b11|b12]");
			std::process::exit(2);
		},
	}
}
