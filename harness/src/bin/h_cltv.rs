//! C08 functional correspondence: timing constants and CLTV predicates.
//! Case lines:
//!   consts
//!   fwd <cur_height> <outgoing_cltv> <cltv_expiry> <delta>
//!   mpp <cltv_expiry> <height>
//!   thr <height> <kind> <csv|-1>
use lightning::ln::verif_hooks as vh;
use verif_harness::*;

fn main() {
	for_each_case(|l| {
		let mut it = l.split_whitespace();
		let cmd = it.next().unwrap();
		let a: Vec<i64> = it.map(|t| t.parse::<i64>().unwrap()).collect();
		match cmd {
			"consts" => vh::timing_constants()
				.iter()
				.map(|(n, v)| format!("{}={}", n, v))
				.collect::<Vec<_>>()
				.join(" "),
			"fwd" => match vh::check_incoming_htlc_cltv(a[0] as u32, a[1] as u32, a[2] as u32, a[3] as u16) {
				Ok(()) => "Ok".to_string(),
				Err(e) => format!("Err {}", e),
			},
			"mpp" => format!("{}", vh::channelmanager::mpp_part_check_onchain_timeout(a[0] as u32, a[1] as u32)),
			"thr" => {
				let csv = if a[2] < 0 { None } else { Some(a[2] as u16) };
				format!("{}", vh::channelmonitor::confirmation_threshold(a[0] as u32, a[1] as u8, csv))
			},
			_ => "BADCMD".to_string(),
		}
	});
}
