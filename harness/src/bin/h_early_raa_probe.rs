//! C05 probe: what does a node do when the peer sends the revoke_and_ack for its current commitment
//! EARLY -- after the node has built its next commitment (AWAITING_REMOTE_REVOKE is set) but before
//! that commitment_signed was even signed, because the ChannelMonitorUpdate carrying it is still in
//! flight (asynchronous persistence)?
//!
//! `h_early_raa_probe a`: TestChannelSigner with its state-policy assertions (what a validating
//!                        signer would enforce).
//! `h_early_raa_probe b`: the same with those assertions switched off (what InMemorySigner does).
//! Output: lines starting with `P `.
use std::panic::{self, AssertUnwindSafe};

use bitcoin::hashes::Hash;
use bitcoin::secp256k1::{PublicKey, Secp256k1};
use lightning::chain::ChannelMonitorUpdateStatus;
use lightning::ln::functional_test_utils::*;
use lightning::ln::msgs::{self, BaseMessageHandler, ChannelMessageHandler, MessageSendEvent};
use lightning::ln::types::ChannelId;
use lightning::ln::verif_hooks as vh;
use lightning::routing::router::{Path, PaymentParameters, Route, RouteHop, RouteParameters};
use lightning::sign::{ChannelSigner, SignerProvider};

fn view(nodes: &Vec<Node>, n: usize, ids: &[PublicKey; 2], chan: &ChannelId) -> String {
	match vh::revocation_view(nodes[n].node, &ids[1 - n], chan) {
		Some((_, v)) => format!(
			"counterparty_next={} awaiting_remote_revoke={} monitor_update_in_progress={} commitment_signed_pending_on_monitor={}",
			v.counterparty_next, v.awaiting_remote_revoke, v.monitor_update_in_progress, v.monitor_pending_commitment_signed
		),
		None => "channel gone from the manager".to_string(),
	}
}

fn dump_log(tag: &str, ids: &[usize; 2]) {
	for c in vh::signer_log::take() {
		let n = if c.state_id == ids[0] {
			0
		} else if c.state_id == ids[1] {
			1
		} else {
			9
		};
		println!("P [{}] signer of node{}: {}({})", tag, n, c.kind, c.number);
	}
}

/// counterparty commitment numbers the node's ChannelMonitor was handed since the last call
fn recorded(nodes: &Vec<Node>, chan: &ChannelId) -> Vec<u64> {
	let ups = nodes[0].chain_monitor.monitor_updates.lock().unwrap().remove(chan).unwrap_or_default();
	let mon = nodes[0].chain_monitor.chain_monitor.get_monitor(*chan).unwrap();
	let mut out = Vec::new();
	for u in ups.iter() {
		for tx in mon.counterparty_commitment_txs_from_update(u) {
			out.push(tx.commitment_number());
		}
	}
	out
}

fn main() {
	let mode = std::env::args().nth(1).unwrap_or_else(|| "a".to_string());
	panic::set_hook(Box::new(|info| {
		println!("P PANIC: {}", format!("{}", info).replace('\n', " "));
	}));
	let mut chanmon_cfgs = create_chanmon_cfgs(2);
	if mode == "b" {
		chanmon_cfgs[0].keys_manager.disable_all_state_policy_checks = true;
	}
	let node_cfgs = create_node_cfgs(2, &chanmon_cfgs);
	let node_chanmgrs = create_node_chanmgrs(2, &node_cfgs, &[None, None]);
	let nodes = create_network(2, &node_cfgs, &node_chanmgrs);
	*nodes[0].connect_style.borrow_mut() = ConnectStyle::BestBlockFirst;
	*nodes[1].connect_style.borrow_mut() = ConnectStyle::BestBlockFirst;
	let ids = [nodes[0].node.get_our_node_id(), nodes[1].node.get_our_node_id()];
	nodes[0].keys_manager.set_next_keys_id([0xc0; 32]);
	nodes[1].keys_manager.set_next_keys_id([0xc1; 32]);
	let (_, _, chan_id, _) = create_announced_chan_between_nodes_with_value(&nodes, 0, 1, 1_000_000, 400_000_000);
	let mut sid = [0usize; 2];
	let mut kids = [[0u8; 32]; 2];
	for n in 0..2 {
		let (kid, _) = vh::revocation_view(nodes[n].node, &ids[1 - n], &chan_id).unwrap();
		kids[n] = kid;
		let s = nodes[n].keys_manager.derive_channel_signer(kid);
		sid[n] = std::sync::Arc::as_ptr(&s.state) as usize;
	}
	// one complete payment so that numbers have advanced
	let (preimage, _, _, _) = route_payment(&nodes[0], &[&nodes[1]], 5_000_000);
	claim_payment(&nodes[0], &[&nodes[1]], preimage);
	let _ = vh::signer_log::take();
	let _ = recorded(&nodes, &chan_id);
	println!("P before: node0 {}", view(&nodes, 0, &ids, &chan_id));

	// node 0 persists asynchronously from now on
	for _ in 0..4 {
		chanmon_cfgs[0].persister.set_update_ret(ChannelMonitorUpdateStatus::InProgress);
	}
	let amt = 9_000_000u64;
	let scid = nodes[0].node.list_channels().iter().find(|d| d.channel_id == chan_id).and_then(|d| d.short_channel_id).unwrap();
	let hops = vec![RouteHop {
		pubkey: ids[1],
		node_features: nodes[1].node.node_features(),
		short_channel_id: scid,
		channel_features: nodes[1].node.channel_features(),
		fee_msat: amt,
		cltv_expiry_delta: TEST_FINAL_CLTV,
		maybe_announced_channel: true,
	}];
	let pre = [0x42u8; 32];
	let hash = lightning::types::payment::PaymentHash(bitcoin::hashes::sha256::Hash::hash(&pre).to_byte_array());
	let secret = nodes[1].node.create_inbound_payment_for_hash(hash, None, 7200, None, None).unwrap().0;
	let route_params = RouteParameters::from_payment_params_and_value(PaymentParameters::from_node_id(ids[1], TEST_FINAL_CLTV), amt);
	let route = Route { paths: vec![Path { hops, blinded_tail: None }], route_params };
	let res = nodes[0]
		.node
		.send_payment_with_route(
			route,
			hash,
			lightning::ln::outbound_payment::RecipientOnionFields::secret_only(secret, amt),
			lightning::ln::channelmanager::PaymentId(hash.0),
		)
		.map_err(|e| format!("{:?}", e));
	println!("P node0 send_payment (monitor update left in flight): {:?}", res);
	let out = nodes[0].node.get_and_clear_pending_msg_events();
	println!("P node0 messages out while the update is in flight: {}", out.len());
	dump_log("payment sent", &sid);
	println!("P counterparty commitments handed to node0's monitor: {:?}", recorded(&nodes, &chan_id));
	println!("P node0 now: {}", view(&nodes, 0, &ids, &chan_id));

	// the peer's revoke_and_ack for its CURRENT commitment, from its raw key material
	let (_, v) = vh::revocation_view(nodes[0].node, &ids[1], &chan_id).unwrap();
	let sg = nodes[1].keys_manager.derive_channel_signer(kids[1]);
	let secp = Secp256k1::new();
	let raa = msgs::RevokeAndACK {
		channel_id: chan_id,
		per_commitment_secret: sg.inner.release_commitment_secret(v.counterparty_next + 1).unwrap(),
		next_per_commitment_point: sg.inner.get_per_commitment_point(v.counterparty_next - 1, &secp).unwrap(),
		release_htlc_message_paths: Vec::new(),
	};
	println!("P node1 -> node0: revoke_and_ack revoking its commitment {} (node1 has received no commitment_signed)", v.counterparty_next + 1);
	nodes[0].node.handle_revoke_and_ack(ids[1], &raa);
	dump_log("early revoke_and_ack handled by node0", &sid);
	println!("P node0 after the revoke_and_ack: {}", view(&nodes, 0, &ids, &chan_id));
	println!("P counterparty commitments handed to node0's monitor by that: {:?}", recorded(&nodes, &chan_id));

	// persistence completes
	let r = panic::catch_unwind(AssertUnwindSafe(|| {
		let pend = nodes[0].chain_monitor.chain_monitor.list_pending_monitor_updates();
		for (c, idsv) in pend.iter() {
			for id in idsv.iter() {
				let _ = nodes[0].chain_monitor.chain_monitor.channel_monitor_updated(*c, *id);
			}
		}
		let mut n_cs = 0;
		for e in nodes[0].node.get_and_clear_pending_msg_events() {
			if let MessageSendEvent::UpdateHTLCs { updates, .. } = e {
				n_cs += updates.commitment_signed.len();
				println!(
					"P node0 -> node1: update_add={} commitment_signed={}",
					updates.update_add_htlcs.len(),
					updates.commitment_signed.len()
				);
			}
		}
		n_cs
	}));
	match r {
		Ok(n) => println!("P monitor updates completed; commitment_signed messages sent: {}", n),
		Err(_) => println!("P monitor updates completed: node0 panicked while generating its commitment_signed"),
	}
	dump_log("monitor updates completed", &sid);
	println!("P counterparty commitments handed to node0's monitor after completion: {:?}", recorded(&nodes, &chan_id));
	if r.is_ok() {
		println!("P final: node0 {}", view(&nodes, 0, &ids, &chan_id));
	}
	std::mem::forget(nodes);
	std::process::exit(0);
}
