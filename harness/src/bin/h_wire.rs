//! C13 wire codec harness.
//!   h_wire dec        stdin: one hex frame per line (2-byte type + payload)
//!                     stdout: `Ok <type> <unknown 0|1> <remaining> <stable 0|1> <re-encoded payload hex|-> V<o1,o2,..>`
//!                           | `Err <DecodeError Debug> V..` | `PANIC`
//!                     V lists the offsets in the frame at which 33 bytes parse as a secp256k1 public key.
//!   h_wire keys N S   prints N valid compressed public keys (hex), derived from seed S
//!   h_wire gen N S    prints `G <name> <frame hex> <rt 0|1>`: random VALUES of the message types
//!                     whose codecs are hand-written/irregular, built with the public struct
//!                     constructors; rt = 1 iff decoding the encoding gives an equal value.
//!   h_wire fields S   field-codec tier, OUTSIDE a wire frame (lengths beyond LN_MAX_MSG_LEN allowed):
//!                     `F CL n hex` / `F CLDEC hex res` (CollectionLength), `F BS n hex` / `F BSDEC hex res`
//!                     (BigSize), `F SA hex res` (SocketAddress descriptor decode; res = `Ok <re-encoded>
//!                     <consumed>` | `Unknown <byte> <consumed>` | `Err e`), and judged round trips
//!                     `F RT <what> <param> <ok|FAIL:why|PANIC>` of every variable-length field type and of
//!                     whole messages at each codec's length thresholds, each under catch_unwind.
use bitcoin::hashes::Hash;
use bitcoin::secp256k1::{PublicKey, Secp256k1, SecretKey};
use lightning::ln::msgs::{self, SocketAddress};
use lightning::ln::types::ChannelId;
use lightning::ln::wire::verif_hooks_wire::wire_read;
use lightning::types::features::{ChannelFeatures, InitFeatures, NodeFeatures};
use lightning::util::ser::{BigSize, CollectionLength, FixedLengthReader, Hostname, LengthReadable, Readable, Writeable};
use lightning::util::ser::verif_hooks_ser as hz;
use verif_harness::*;

fn valid_offsets(frame: &[u8]) -> String {
	let mut v = Vec::new();
	if frame.len() >= 33 {
		for i in 0..=(frame.len() - 33) {
			if (frame[i] == 2 || frame[i] == 3) && PublicKey::from_slice(&frame[i..i + 33]).is_ok() {
				v.push(i.to_string());
			}
		}
	}
	format!("V{}", v.join(","))
}

fn key(rng: &mut Rng) -> PublicKey {
	let secp = Secp256k1::new();
	loop {
		let mut b = [0u8; 32];
		for c in b.chunks_mut(8) {
			c.copy_from_slice(&rng.next().to_be_bytes());
		}
		if let Ok(sk) = SecretKey::from_slice(&b) {
			return PublicKey::from_secret_key(&secp, &sk);
		}
	}
}

fn bytes(rng: &mut Rng, n: usize) -> Vec<u8> {
	(0..n).map(|_| rng.next() as u8).collect()
}
fn arr<const N: usize>(rng: &mut Rng) -> [u8; N] {
	let mut a = [0u8; N];
	for x in a.iter_mut() {
		*x = rng.next() as u8;
	}
	a
}
fn sig(rng: &mut Rng) -> bitcoin::secp256k1::ecdsa::Signature {
	loop {
		let b: [u8; 64] = arr(rng);
		if let Ok(s) = bitcoin::secp256k1::ecdsa::Signature::from_compact(&b) {
			return s;
		}
	}
}
fn pick_len(rng: &mut Rng) -> usize {
	match rng.below(6) {
		0 => 0,
		1 => 1,
		2 => 2,
		3 => rng.below(40) as usize,
		4 => 255,
		_ => rng.below(300) as usize,
	}
}
fn address(rng: &mut Rng) -> SocketAddress {
	match rng.below(5) {
		0 => SocketAddress::TcpIpV4 { addr: arr(rng), port: rng.next() as u16 },
		1 => SocketAddress::TcpIpV6 { addr: arr(rng), port: rng.next() as u16 },
		2 => SocketAddress::OnionV2(arr(rng)),
		3 => SocketAddress::OnionV3 {
			ed25519_pubkey: arr(rng),
			checksum: rng.next() as u16,
			version: rng.next() as u8,
			port: rng.next() as u16,
		},
		_ => {
			let n = match rng.below(8) {
				0 => 0,
				1 => 252,
				2 => 253,
				3 => 254,
				4 => 255,
				_ => 1 + rng.below(20) as usize,
			};
			let s: String = (0..n).map(|_| (b'a' + (rng.below(26) as u8)) as char).collect();
			SocketAddress::Hostname { hostname: Hostname::try_from(s).unwrap(), port: rng.next() as u16 }
		},
	}
}

/// encodes with the type prefix, decodes with the message's own reader, compares
fn rt<M: Writeable + LengthReadable + PartialEq>(ty: u16, m: &M) -> (String, bool) {
	let enc = m.encode();
	let mut frame = ty.to_be_bytes().to_vec();
	frame.extend_from_slice(&enc);
	let ok = match M::read_from_fixed_length_buffer(&mut &enc[..]) {
		Ok(m2) => &m2 == m,
		Err(_) => false,
	};
	(hex(&frame), ok)
}

fn gen_one(rng: &mut Rng, which: u64) -> (&'static str, String, bool) {
	let chain = bitcoin::constants::ChainHash::from(arr::<32>(rng));
	match which {
		0 => {
			let m = msgs::Ping { ponglen: rng.next() as u16, byteslen: pick_len(rng) as u16 };
			let (h, ok) = rt(18, &m);
			("Ping", h, ok)
		},
		1 => {
			let m = msgs::Pong { byteslen: pick_len(rng) as u16 };
			let (h, ok) = rt(19, &m);
			("Pong", h, ok)
		},
		2 => {
			let n = pick_len(rng) % 64;
			let feat = InitFeatures::from_le_bytes(bytes(rng, n));
			let networks = match rng.below(3) {
				0 => None,
				1 => Some(vec![]),
				_ => Some((0..1 + rng.below(3)).map(|_| bitcoin::constants::ChainHash::from(arr::<32>(rng))).collect()),
			};
			let remote_network_address = if rng.below(2) == 0 { None } else { Some(address(rng)) };
			let m = msgs::Init { features: feat, networks, remote_network_address };
			let (h, ok) = rt(16, &m);
			("Init", h, ok)
		},
		3 => {
			let contents = msgs::UnsignedChannelUpdate {
				chain_hash: chain,
				short_channel_id: rng.next(),
				timestamp: rng.next() as u32,
				message_flags: 1 | ((rng.below(2) as u8) << 1),
				channel_flags: rng.next() as u8,
				cltv_expiry_delta: rng.next() as u16,
				htlc_minimum_msat: rng.next(),
				htlc_maximum_msat: rng.next(),
				fee_base_msat: rng.next() as u32,
				fee_proportional_millionths: rng.next() as u32,
				excess_data: { let n = pick_len(rng) % 50; bytes(rng, n) },
			};
			let m = msgs::ChannelUpdate { signature: sig(rng), contents };
			let (h, ok) = rt(258, &m);
			("ChannelUpdate", h, ok)
		},
		4 => {
			let naddr = match rng.below(6) { 0 => 0, 1 => 1, 2 => 40, _ => rng.below(4) as usize };
			let contents = msgs::UnsignedNodeAnnouncement {
				features: { let n = pick_len(rng) % 20; NodeFeatures::from_le_bytes(bytes(rng, n)) },
				timestamp: rng.next() as u32,
				node_id: lightning::routing::gossip::NodeId::from_pubkey(&key(rng)),
				rgb: arr(rng),
				alias: lightning::routing::gossip::NodeAlias(arr(rng)),
				addresses: (0..naddr).map(|_| address(rng)).collect(),
				excess_address_data: vec![],
				excess_data: { let n = pick_len(rng) % 30; bytes(rng, n) },
			};
			let m = msgs::NodeAnnouncement { signature: sig(rng), contents };
			let (h, ok) = rt(257, &m);
			("NodeAnnouncement", h, ok)
		},
		5 => {
			let n = pick_len(rng) % 70;
			let m = msgs::QueryShortChannelIds { chain_hash: chain, short_channel_ids: (0..n).map(|_| rng.next()).collect() };
			let (h, ok) = rt(261, &m);
			("QueryShortChannelIds", h, ok)
		},
		6 => {
			let n = pick_len(rng) % 70;
			let m = msgs::ReplyChannelRange {
				chain_hash: chain,
				first_blocknum: rng.next() as u32,
				number_of_blocks: rng.next() as u32,
				sync_complete: rng.below(2) == 1,
				short_channel_ids: (0..n).map(|_| rng.next()).collect(),
			};
			let (h, ok) = rt(264, &m);
			("ReplyChannelRange", h, ok)
		},
		7 => {
			use bitcoin::{absolute::LockTime, transaction::Version, Amount, OutPoint, ScriptBuf, Sequence, Transaction, TxIn, TxOut, Txid, Witness};
			let prevtx = if rng.below(3) == 0 {
				None
			} else {
				let nin = 1 + rng.below(2) as usize;
				let nout = 1 + rng.below(3) as usize;
				Some(Transaction {
					version: Version::TWO,
					lock_time: LockTime::ZERO,
					input: (0..nin)
						.map(|_| TxIn {
							previous_output: OutPoint { txid: Txid::from_byte_array(arr(rng)), vout: rng.below(4) as u32 },
							script_sig: ScriptBuf::new(),
							sequence: Sequence(rng.next() as u32),
							witness: if rng.below(2) == 0 { Witness::new() } else { Witness::from_slice(&[bytes(rng, 5)]) },
						})
						.collect(),
					output: (0..nout)
						.map(|_| TxOut { value: Amount::from_sat(rng.below(1 << 40)), script_pubkey: ScriptBuf::from(bytes(rng, 22)) })
						.collect(),
				})
			};
			let m = msgs::TxAddInput {
				channel_id: ChannelId(arr(rng)),
				serial_id: rng.next(),
				prevtx,
				prevtx_out: rng.next() as u32,
				sequence: rng.next() as u32,
				shared_input_txid: if rng.below(2) == 0 { None } else { Some(Txid::from_byte_array(arr(rng))) },
			};
			let (h, ok) = rt(66, &m);
			("TxAddInput", h, ok)
		},
		8 => {
			use bitcoin::{Txid, Witness};
			let nw = rng.below(3) as usize;
			let m = msgs::TxSignatures {
				channel_id: ChannelId(arr(rng)),
				tx_hash: Txid::from_byte_array(arr(rng)),
				witnesses: (0..nw)
					.map(|_| {
						let k = rng.below(3) as usize;
						let items: Vec<Vec<u8>> = (0..k).map(|_| { let n = pick_len(rng) % 80; bytes(rng, n) }).collect();
						Witness::from_slice(&items)
					})
					.collect(),
				shared_input_signature: if rng.below(2) == 0 { None } else { Some(sig(rng)) },
			};
			let (h, ok) = rt(71, &m);
			("TxSignatures", h, ok)
		},
		9 => {
			let m = msgs::UnsignedChannelAnnouncement {
				features: { let n = pick_len(rng) % 10; ChannelFeatures::from_le_bytes(bytes(rng, n)) },
				chain_hash: chain,
				short_channel_id: rng.next(),
				node_id_1: lightning::routing::gossip::NodeId::from_pubkey(&key(rng)),
				node_id_2: lightning::routing::gossip::NodeId::from_pubkey(&key(rng)),
				bitcoin_key_1: lightning::routing::gossip::NodeId::from_pubkey(&key(rng)),
				bitcoin_key_2: lightning::routing::gossip::NodeId::from_pubkey(&key(rng)),
				excess_data: { let n = pick_len(rng) % 30; bytes(rng, n) },
			};
			let m = msgs::ChannelAnnouncement {
				node_signature_1: sig(rng),
				node_signature_2: sig(rng),
				bitcoin_signature_1: sig(rng),
				bitcoin_signature_2: sig(rng),
				contents: m,
			};
			let (h, ok) = rt(256, &m);
			("ChannelAnnouncement", h, ok)
		},
		11 => {
			let lens = [0usize, 1, 65, 1300, 4095, 4096, 4097, 5000, 8191, 8192, 8193];
			let l = lens[rng.below(lens.len() as u64) as usize];
			let m = msgs::OnionMessage {
				blinding_point: key(rng),
				onion_routing_packet: lightning::onion_message::packet::Packet { version: rng.next() as u8, public_key: key(rng), hop_data: bytes(rng, l), hmac: arr(rng) },
			};
			let (h, ok) = rt(513, &m);
			("OnionMessage", h, ok)
		},
		_ => {
			let n = pick_len(rng);
			let m = msgs::ErrorMessage {
				channel_id: ChannelId(arr(rng)),
				data: (0..n).map(|_| char::from_u32(32 + rng.below(0x2000) as u32).unwrap_or('x')).collect(),
			};
			let (h, ok) = rt(17, &m);
			("ErrorMessage", h, ok)
		},
	}
}

fn host(n: usize) -> Hostname {
	let s: String = (0..n).map(|i| (b'a' + (i % 26) as u8) as char).collect();
	Hostname::try_from(s).unwrap()
}

fn guarded<F: FnOnce() -> Result<(), String>>(what: &str, param: String, f: F) {
	let r = std::panic::catch_unwind(std::panic::AssertUnwindSafe(f));
	match r {
		Ok(Ok(())) => println!("F RT {} {} ok", what, param),
		Ok(Err(why)) => println!("F RT {} {} FAIL:{}", what, param, why.replace(' ', "_")),
		Err(_) => println!("F RT {} {} PANIC", what, param),
	}
}

/// encode -> decode with the type's own `Readable`, equality, full consumption
fn rt_readable<T: Writeable + Readable + PartialEq>(v: &T) -> Result<(), String> {
	let enc = v.encode();
	let mut r = &enc[..];
	match T::read(&mut r) {
		Ok(v2) => {
			if &v2 != v {
				Err("decoded value differs".to_string())
			} else if !r.is_empty() {
				Err(format!("{} bytes left unread", r.len()))
			} else {
				Ok(())
			}
		},
		Err(e) => Err(format!("decode error {:?}", e)),
	}
}
fn rt_msg<T: Writeable + LengthReadable + PartialEq>(v: &T) -> Result<(), String> {
	let enc = v.encode();
	let mut r = &enc[..];
	match T::read_from_fixed_length_buffer(&mut r) {
		Ok(v2) => if &v2 != v { Err("decoded value differs".to_string()) } else { Ok(()) },
		Err(e) => Err(format!("decode error {:?}", e)),
	}
}

fn show_res<T: std::fmt::Display>(r: Result<(T, usize), String>) -> String {
	match r {
		Ok((v, rem)) => format!("Ok {} {}", v, rem),
		Err(e) => format!("Err {}", e.split('(').next().unwrap()),
	}
}

fn with_thr(base: &[usize], thr: &[usize], max: usize) -> Vec<usize> {
	let mut v: Vec<usize> = base.iter().chain(thr.iter()).cloned().filter(|x| *x <= max).collect();
	v.sort();
	v.dedup();
	v
}

fn fields(seed: u64, thr: &[usize]) {
	let mut rng = Rng(seed);
	std::panic::set_hook(Box::new(|_| {}));
	// ---- CollectionLength
	let cl_vals: Vec<u64> = vec![0, 1, 2, 0xfffd, 0xfffe, 0xffff, 0x10000, 0x10001, 0x1fffe, 0x1ffff, 1 << 32, u64::MAX - 0xffff - 1, u64::MAX - 0xffff, u64::MAX - 1, u64::MAX, rng.next(), rng.below(1 << 20)];
	let mut cl_hex: Vec<String> = Vec::new();
	for n in cl_vals.iter() {
		let r = std::panic::catch_unwind(|| CollectionLength(*n).encode());
		match r {
			Ok(e) => {
				println!("F CL {} {}", n, hex(&e));
				cl_hex.push(hex(&e));
				cl_hex.push(format!("{}00", hex(&e)));
			},
			Err(_) => println!("F CL {} PANIC", n),
		}
	}
	for h in ["", "ff", "ffff", "ffff00", "ffff00000000000000", "ffff0000000000000000", "ffffffffffffffffffff", "ffffffffffffffff0000", "ffffffffffffffff0001", "ffff0000000000000001ab", "fffe", "fffeab", "0000", "00"] {
		cl_hex.push(h.to_string());
	}
	for h in cl_hex.iter() {
		let b = unhex(h);
		let r = std::panic::catch_unwind(|| {
			let mut s = &b[..];
			<CollectionLength as Readable>::read(&mut s).map(|c| (c.0, s.len())).map_err(|e| format!("{:?}", e))
		});
		match r {
			Ok(x) => println!("F CLDEC {} {}", if h.is_empty() { "-" } else { h }, show_res(x)),
			Err(_) => println!("F CLDEC {} PANIC", h),
		}
	}
	// ---- BigSize
	let bs_vals: Vec<u64> = vec![0, 1, 0xfb, 0xfc, 0xfd, 0xfe, 0xff, 0x100, 0xfffe, 0xffff, 0x10000, 0x10001, 0xfffffffe, 0xffffffff, 0x100000000, 0x100000001, u64::MAX - 1, u64::MAX, rng.next()];
	let mut bs_hex: Vec<String> = Vec::new();
	for n in bs_vals.iter() {
		let e = BigSize(*n).encode();
		println!("F BS {} {}", n, hex(&e));
		bs_hex.push(format!("{}7f", hex(&e)));
	}
	for h in ["", "fd", "fd00", "fd00fc", "fd00fd", "fdffff", "fe", "fe0000ffff", "fe00010000", "feffffffff", "ff", "ff00000000ffffffff", "ff0000000100000000", "ffffffffffffffffff", "ffffffffffffffff", "fc", "00"] {
		bs_hex.push(h.to_string());
	}
	for h in bs_hex.iter() {
		let b = unhex(h);
		let mut s = &b[..];
		let x = <BigSize as Readable>::read(&mut s).map(|c| (c.0, s.len())).map_err(|e| format!("{:?}", e));
		println!("F BSDEC {} {}", if h.is_empty() { "-" } else { h }, show_res(x));
	}
	// ---- HighZeroBytesDroppedBigSize (judged here: canonical, round trip, padded form rejected)
	for v in [0u64, 1, 0xff, 0x100, 0xffff, 0x10000, 0xffffffff, 0x100000000, u64::MAX, rng.next() >> rng.below(64)] {
		guarded("hzb_u64", v.to_string(), || {
			let e = hz::hzb_encode_u64(v);
			if e.first() == Some(&0) {
				return Err("encoding starts with a zero byte".to_string());
			}
			if hz::hzb_decode_u64(&e) != Ok(v) {
				return Err("round trip".to_string());
			}
			if e.len() < 8 {
				let mut padded = vec![0u8];
				padded.extend_from_slice(&e);
				if hz::hzb_decode_u64(&padded).is_ok() && !e.is_empty() {
					return Err("padded encoding accepted".to_string());
				}
			}
			Ok(())
		});
	}
	for v in [0u32, 1, 0xff, 0x100, 0xffff, 0x10000, u32::MAX] {
		guarded("hzb_u32", v.to_string(), || {
			let e = hz::hzb_encode_u32(v);
			if e.first() == Some(&0) || hz::hzb_decode_u32(&e) != Ok(v) {
				return Err("round trip / canonical".to_string());
			}
			Ok(())
		});
	}
	// ---- length-prefixed collections and strings at the CollectionLength / u16 thresholds
	for l in with_thr(&[0usize, 1, 2, 0xfffd, 0xfffe, 0xffff, 0x10000, 0x10001], thr, 140_000) {
		guarded("vec_u8", l.to_string(), || rt_readable(&vec![0x5au8; l]));
		guarded("string", l.to_string(), || rt_readable(&"x".repeat(l)));
		guarded("vec_u32", l.to_string(), || rt_readable(&vec![7u32; l]));
		guarded("vec_channel_id", l.to_string(), || rt_readable(&vec![ChannelId([3u8; 32]); l]));
		guarded("msg:PeerStorage.data", l.to_string(), || rt_msg(&msgs::PeerStorage { data: vec![1u8; l] }));
		guarded("msg:TxAbort.data", l.to_string(), || rt_msg(&msgs::TxAbort { channel_id: ChannelId([1; 32]), data: vec![2u8; l] }));
	}
	{
		let mut r2 = Rng(seed ^ 7);
		let s = sig(&mut r2);
		for l in with_thr(&[0usize, 1, 483, 0xfffe, 0xffff, 0x10000], thr, 70_000) {
			guarded("msg:CommitmentSigned.htlc_signatures", l.to_string(), || {
				rt_msg(&msgs::CommitmentSigned { channel_id: ChannelId([1; 32]), signature: s, htlc_signatures: vec![s; l], funding_txid: None })
			});
		}
	}
	// u16-prefixed fields
	for l in with_thr(&[0usize, 1, 0xfffe, 0xffff], thr, 0xffff) {
		guarded("script", l.to_string(), || rt_readable(&bitcoin::ScriptBuf::from(vec![0x51u8; l])));
		guarded("msg:Shutdown.scriptpubkey", l.to_string(), || {
			rt_msg(&msgs::Shutdown { channel_id: ChannelId([1; 32]), scriptpubkey: bitcoin::ScriptBuf::from(vec![0x51u8; l]) })
		});
		guarded("init_features", l.to_string(), || {
			let mut b = vec![0u8; l];
			if l > 0 {
				b[l - 1] = 1;
			}
			rt_readable(&InitFeatures::from_le_bytes(b))
		});
		guarded("node_features", l.to_string(), || {
			let mut b = vec![0u8; l];
			if l > 0 {
				b[l - 1] = 1;
			}
			rt_readable(&NodeFeatures::from_le_bytes(b))
		});
		guarded("msg:ErrorMessage.data", l.to_string(), || rt_msg(&msgs::ErrorMessage { channel_id: ChannelId([1; 32]), data: "e".repeat(l) }));
		guarded("msg:WarningMessage.data", l.to_string(), || rt_msg(&msgs::WarningMessage { channel_id: ChannelId([1; 32]), data: "w".repeat(l) }));
	}
	for l in with_thr(&[0usize, 1, 64, 0xfffd, 0xfffe], thr, 0xfffe).into_iter().map(|x| x as u16) {
		guarded("msg:Ping.byteslen", l.to_string(), || rt_msg(&msgs::Ping { ponglen: l, byteslen: l }));
		guarded("msg:Pong.byteslen", l.to_string(), || rt_msg(&msgs::Pong { byteslen: l }));
	}
	for n in with_thr(&[0usize, 1, 2, 8190, 8191], thr, 8191) {
		let ch = bitcoin::constants::ChainHash::from([5u8; 32]);
		guarded("msg:QueryShortChannelIds.scids", n.to_string(), || rt_msg(&msgs::QueryShortChannelIds { chain_hash: ch, short_channel_ids: vec![0x0102030405060708; n] }));
		guarded("msg:ReplyChannelRange.scids", n.to_string(), || {
			rt_msg(&msgs::ReplyChannelRange { chain_hash: ch, first_blocknum: 1, number_of_blocks: 2, sync_complete: true, short_channel_ids: vec![0x0102030405060708; n] })
		});
	}
	// ---- hostnames and socket addresses
	let mut sa_hex: Vec<String> = Vec::new();
	for l in with_thr(&[0usize, 1, 2, 63, 251, 252, 253, 254, 255], thr, 255) {
		guarded("hostname", l.to_string(), || rt_readable(&host(l)));
		let a = SocketAddress::Hostname { hostname: host(l), port: 0x1234 };
		guarded("sockaddr_hostname", l.to_string(), || rt_readable(&a));
		sa_hex.push(hex(&a.encode()));
		// a node_announcement carrying it first / last / alone, through the announcement's own length arithmetic
		for pos in 0..3 {
			let mut addrs = Vec::new();
			if pos == 1 {
				addrs.push(SocketAddress::TcpIpV4 { addr: [1, 2, 3, 4], port: 1 });
			}
			addrs.push(a.clone());
			if pos == 2 {
				addrs.push(SocketAddress::OnionV2([9; 12]));
			}
			let mut r2 = Rng(seed ^ (l as u64) ^ ((pos as u64) << 20));
			guarded("msg:NodeAnnouncement.hostname", format!("{}@{}", l, pos), || rt_msg(&node_ann(&mut r2, addrs, vec![], vec![])));
		}
	}
	// address lists: none, one of each kind, many, total descriptor length at the u16 boundaries
	{
		let kinds = vec![
			SocketAddress::TcpIpV4 { addr: [1, 2, 3, 4], port: 9735 },
			SocketAddress::TcpIpV6 { addr: [6; 16], port: 9736 },
			SocketAddress::OnionV2([2; 12]),
			SocketAddress::OnionV3 { ed25519_pubkey: [3; 32], checksum: 0xabcd, version: 3, port: 9737 },
			SocketAddress::Hostname { hostname: host(255), port: 9738 },
		];
		for a in kinds.iter() {
			guarded("sockaddr", format!("kind{}", a.encode()[0]), || rt_readable(a));
			sa_hex.push(hex(&a.encode()));
		}
		let mut r2 = Rng(seed ^ 99);
		guarded("msg:NodeAnnouncement.addresses", "none".to_string(), || rt_msg(&node_ann(&mut r2, vec![], vec![], vec![1, 2, 3])));
		guarded("msg:NodeAnnouncement.addresses", "each_kind".to_string(), || rt_msg(&node_ann(&mut r2, kinds.clone(), vec![], vec![])));
		// 253 hostnames of 255 bytes: 253 * 259 = 65527 descriptor bytes; fill up with excess address data
		// (an unknown descriptor type 6 followed by filler) to reach exactly 0xfffe and 0xffff
		for total in [65527usize, 0xfffe, 0xffff] {
			let addrs = vec![kinds[4].clone(); 253];
			let fill = total - 65527;
			let excess: Vec<u8> = if fill == 0 { vec![] } else { let mut e = vec![6u8]; e.extend(std::iter::repeat(0xee).take(fill - 1)); e };
			guarded("msg:NodeAnnouncement.addresses", format!("total{}", total), || rt_msg(&node_ann(&mut r2, addrs, excess, vec![])));
		}
		guarded("msg:NodeAnnouncement.addresses", "many_mixed".to_string(), || {
			let mut addrs = Vec::new();
			for i in 0..200 {
				addrs.push(kinds[i % 5].clone());
			}
			rt_msg(&node_ann(&mut r2, addrs, vec![], vec![7; 10]))
		});
		guarded("msg:Init.remote_network_address", "each_kind".to_string(), || {
			for a in kinds.iter() {
				rt_msg(&msgs::Init { features: InitFeatures::from_le_bytes(vec![0x80, 0x20]), networks: None, remote_network_address: Some(a.clone()) })?;
			}
			Ok(())
		});
	}

	// ---- onion messages: hop_data lengths around every chunk boundary of the packet reader, up to the
	// largest that the u16 packet length admits
	{
		let mut r2 = Rng(seed ^ 0x0513);
		let bp = key(&mut r2);
		let pk = key(&mut r2);
		for l in with_thr(&[0usize, 1, 65, 1300, 4095, 4096, 4097, 5000, 8191, 8192, 8193, 12288, 12289, 32768, 32769, 65432, 65468, 65469], thr, 65469) {
			guarded("msg:OnionMessage.hop_data", l.to_string(), || {
				let m = msgs::OnionMessage {
					blinding_point: bp,
					onion_routing_packet: lightning::onion_message::packet::Packet { version: 0, public_key: pk, hop_data: (0..l).map(|i| (i % 251) as u8).collect(), hmac: [0x77; 32] },
				};
				rt_msg(&m)?;
				// and through the wire dispatch, re-encoded
				let mut frame = vec![0x02u8, 0x01];
				frame.extend_from_slice(&m.encode());
				match wire_read(&frame) {
					Ok(d) => if d.payload != frame[2..] { Err("wire::read re-encodes differently".to_string()) } else if !d.reencode_stable { Err("not re-encode stable".to_string()) } else { Ok(()) },
					Err((e, _)) => Err(format!("wire::read: {}", e)),
				}
			});
		}
	}
	// ---- hostnames with bytes outside the BOLT 7 set: ASCII alphanumerics, '.', '-' (LDK also admits '_').
	// `F HOSTMSG <where> <name hex> <result>`: the decoder must reject every one of them (InvalidValue);
	// the plugin judges accept <=> every byte in the set, also on the `F SA` lines below.
	{
		let bad: Vec<(&str, Vec<u8>)> = vec![
			("latin_e_acute", "é".as_bytes().to_vec()),
			("latin_sharp_s", "ß".as_bytes().to_vec()),
			("greek", "λ".as_bytes().to_vec()),
			("cyrillic", "ж".as_bytes().to_vec()),
			("arabic_indic_digit", "٣".as_bytes().to_vec()),
			("cjk", "中".as_bytes().to_vec()),
			("devanagari_digit", "५".as_bytes().to_vec()),
			("fullwidth_a", "Ａ".as_bytes().to_vec()),
			("math_digit_4byte", "𝟘".as_bytes().to_vec()),
			("deseret_4byte", "𐐀".as_bytes().to_vec()),
			("euro_symbol", "€".as_bytes().to_vec()),
			("emoji", "😀".as_bytes().to_vec()),
			("space", b" ".to_vec()),
			("bang", b"!".to_vec()),
			("slash", b"/".to_vec()),
			("at", b"@".to_vec()),
			("nul", vec![0u8]),
			("del", vec![0x7f]),
			("lone_continuation", vec![0x80]),
			("truncated_2byte", vec![0xc3]),
			("overlong", vec![0xc0, 0xaf]),
		];
		let good: Vec<(&str, Vec<u8>)> = vec![("ascii", b"node-1.example_x.com".to_vec()), ("digits", b"0123456789".to_vec()), ("upper", b"EXAMPLE.COM".to_vec())];
		let mut r2 = Rng(seed ^ 0x4057);
		for (tag, seq, expect_ok) in bad.iter().map(|(t, s)| (*t, s.clone(), false)).chain(good.iter().map(|(t, s)| (*t, s.clone(), true))) {
			for pos in 0..3 {
				// name = prefix + seq + suffix, the odd bytes first / in the middle / last
				let name: Vec<u8> = if expect_ok {
					seq.clone()
				} else {
					match pos {
						0 => [&seq[..], b"abc.example.com"].concat(),
						1 => [b"caf", &seq[..], b".example.com"].concat(),
						_ => [b"example.co", &seq[..]].concat(),
					}
				};
				let mut desc = vec![5u8, name.len() as u8];
				desc.extend_from_slice(&name);
				desc.extend_from_slice(&[0x26, 0x07]);
				sa_hex.push(hex(&desc));
				// inside a node_announcement and an init: encode with an ASCII name of the same length, then patch
				let placeholder = host(name.len());
				let a = SocketAddress::Hostname { hostname: placeholder.clone(), port: 0x2607 };
				let na = node_ann(&mut r2, vec![SocketAddress::TcpIpV4 { addr: [1, 2, 3, 4], port: 1 }, a.clone()], vec![], vec![]);
				let init = msgs::Init { features: InitFeatures::from_le_bytes(vec![0x80, 0x20]), networks: None, remote_network_address: Some(a.clone()) };
				for (what, ty, enc) in [("NodeAnnouncement", 257u16, na.encode()), ("Init", 16u16, init.encode())] {
					let pat = a.encode();
					let at = enc.windows(pat.len()).position(|w| w == &pat[..]);
					let res = match at {
						None => "HARNESS-no-pattern".to_string(),
						Some(i) => {
							let mut frame = ty.to_be_bytes().to_vec();
							frame.extend_from_slice(&enc[..i]);
							frame.extend_from_slice(&desc);
							frame.extend_from_slice(&enc[i + pat.len()..]);
							match std::panic::catch_unwind(|| wire_read(&frame)) {
								Ok(Ok(_)) => "Ok".to_string(),
								Ok(Err((e, _))) => format!("Err_{}", e.split('(').next().unwrap()),
								Err(_) => "PANIC".to_string(),
							}
						},
					};
					println!("F HOSTMSG {}:{}@{} {} {} {}", what, tag, pos, hex(&name), if expect_ok { "expect_ok" } else { "expect_reject" }, res);
				}
				if expect_ok {
					break;
				}
			}
		}
	}
	// hand-assembled descriptors for the decoder (and the model)
	for h in ["", "01", "0101020304", "010102030426", "01010203042607ff", "02", "0300", "05", "0500", "050000", "05000001", "0501", "050161", "0501610001", "05012e0001", "0501200001", "0501c30001", "0502c3a90001", "05ff61", "06", "0601", "00", "ff00", "04"] {
		sa_hex.push(h.to_string());
	}
	{
		let mut long = vec![5u8, 255];
		long.extend(std::iter::repeat(b'a').take(255));
		sa_hex.push(hex(&long));
		long.extend([0u8, 1]);
		sa_hex.push(hex(&long));
		long.push(0x77);
		sa_hex.push(hex(&long));
	}
	for h in sa_hex.iter() {
		let b = unhex(h);
		let r = std::panic::catch_unwind(|| {
			let mut s = &b[..];
			match <Result<SocketAddress, u8> as Readable>::read(&mut s) {
				Ok(Ok(a)) => format!("Ok {} {}", hex(&a.encode()), b.len() - s.len()),
				Ok(Err(t)) => format!("Unknown {} {}", t, b.len() - s.len()),
				Err(e) => format!("Err {}", format!("{:?}", e).split('(').next().unwrap()),
			}
		});
		println!("F SA {} {}", if h.is_empty() { "-" } else { h }, r.unwrap_or_else(|_| "PANIC".to_string()));
	}
	// ---- FixedLengthReader-bounded reads never go past the bound
	guarded("flr", "vec_longer_than_bound".to_string(), || {
		let data = [0u8, 10, 1, 2, 3, 4, 5, 6, 7, 8, 9, 10, 11, 12];
		let mut inner = &data[..];
		let mut r = FixedLengthReader::new(&mut inner, 5);
		let res = <Vec<u8> as Readable>::read(&mut r);
		if res.is_ok() {
			return Err("read beyond the bound succeeded".to_string());
		}
		let _ = r.eat_remaining();
		if inner.len() != data.len() - 5 {
			return Err(format!("inner reader consumed {} bytes, bound 5", data.len() - inner.len()));
		}
		Ok(())
	});
	guarded("flr", "exact".to_string(), || {
		let data = [0u8, 2, 0xaa, 0xbb, 0xcc];
		let mut inner = &data[..];
		let mut r = FixedLengthReader::new(&mut inner, 4);
		let v = <Vec<u8> as Readable>::read(&mut r).map_err(|e| format!("{:?}", e))?;
		if v != vec![0xaa, 0xbb] || r.bytes_remain() {
			return Err("wrong value or bytes remain".to_string());
		}
		if r.eat_remaining().is_ok() || inner.len() != 1 {
			// 4 bytes of bound, 4 consumed by the vec: eat_remaining is Ok; keep the check simple
		}
		Ok(())
	});
	guarded("flr", "short_inner".to_string(), || {
		let data = [1u8, 2];
		let mut inner = &data[..];
		let mut r = FixedLengthReader::new(&mut inner, 8);
		if <u64 as Readable>::read(&mut r).is_ok() {
			return Err("u64 from 2 bytes".to_string());
		}
		if r.eat_remaining().is_ok() {
			return Err("eat_remaining succeeded on a short inner reader".to_string());
		}
		Ok(())
	});
	guarded("option_u64", "len_prefixed".to_string(), || {
		rt_readable(&Some(0x0102030405060708u64))?;
		rt_readable(&None::<u64>)?;
		// Option<T>: BigSize(len + 1) then T inside a FixedLengthReader; a too-short bound must fail
		let mut s = &[5u8, 1, 2, 3, 4, 9, 9, 9, 9][..];
		if <Option<u64> as Readable>::read(&mut s).is_ok() {
			return Err("Option<u64> read past its declared length".to_string());
		}
		Ok(())
	});
}

fn node_ann(rng: &mut Rng, addresses: Vec<SocketAddress>, excess_address_data: Vec<u8>, excess_data: Vec<u8>) -> msgs::NodeAnnouncement {
	msgs::NodeAnnouncement {
		signature: sig(rng),
		contents: msgs::UnsignedNodeAnnouncement {
			features: NodeFeatures::from_le_bytes(vec![1, 2]),
			timestamp: rng.next() as u32,
			node_id: lightning::routing::gossip::NodeId::from_pubkey(&key(rng)),
			rgb: [1, 2, 3],
			alias: lightning::routing::gossip::NodeAlias([7; 32]),
			addresses,
			excess_address_data,
			excess_data,
		},
	}
}

fn main() {
	let args: Vec<String> = std::env::args().collect();
	match args.get(1).map(|s| s.as_str()) {
		Some("keys") => {
			let n: u64 = args[2].parse().unwrap();
			let mut rng = Rng(args[3].parse().unwrap());
			for _ in 0..n {
				println!("{}", hex(&key(&mut rng).serialize()));
			}
		},
		Some("fields") => {
			// optional third argument: comma-separated length thresholds (k-1, k, k+1, 2k-1, 2k+1 of every
			// buffer/chunk constant the plugin found in the decoder sources)
			let thr: Vec<usize> = args.get(3).map(|t| t.split(',').filter_map(|x| x.parse().ok()).collect()).unwrap_or_default();
			fields(args.get(2).and_then(|x| x.parse().ok()).unwrap_or(1), &thr)
		},
		Some("gen") => {
			let n: u64 = args[2].parse().unwrap();
			let mut rng = Rng(args[3].parse().unwrap());
			std::panic::set_hook(Box::new(|_| {}));
			for i in 0..n {
				let which = i % 12;
				let mut r2 = Rng(rng.next());
				let r = std::panic::catch_unwind(std::panic::AssertUnwindSafe(|| gen_one(&mut r2, which)));
				match r {
					Ok((name, h, ok)) => println!("G {} {} {}", name, h, if ok { 1 } else { 0 }),
					Err(_) => println!("G kind{} PANIC 0", which),
				}
			}
		},
		_ => for_each_case(|l| {
			let frame = unhex(l);
			match wire_read(&frame) {
				Ok(d) => format!(
					"Ok {} {} {} {} {} {}",
					d.type_id,
					if d.unknown { 1 } else { 0 },
					d.remaining,
					if d.reencode_stable { 1 } else { 0 },
					if d.payload.is_empty() { "-".to_string() } else { hex(&d.payload) },
					valid_offsets(&frame)
				),
				Err((e, _)) => format!("Err {} {}", e, valid_offsets(&frame)),
			}
		}),
	}
}
