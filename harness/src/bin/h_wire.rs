//! C13 wire codec harness.
//!   h_wire dec        stdin: one hex frame per line (2-byte type + payload)
//!                     stdout: `Ok <type> <unknown 0|1> <remaining> <stable 0|1> <re-encoded payload hex|-> V<o1,o2,..>`
//!                           | `Err <DecodeError Debug> V..` | `PANIC`
//!                     V lists the offsets in the frame at which 33 bytes parse as a secp256k1 public key.
//!   h_wire keys N S   prints N valid compressed public keys (hex), derived from seed S
//!   h_wire gen N S    prints `G <name> <frame hex> <rt 0|1>`: random VALUES of the message types
//!                     whose codecs are hand-written/irregular, built with the public struct
//!                     constructors; rt = 1 iff decoding the encoding gives an equal value.
use bitcoin::hashes::Hash;
use bitcoin::secp256k1::{PublicKey, Secp256k1, SecretKey};
use lightning::ln::msgs::{self, SocketAddress};
use lightning::ln::types::ChannelId;
use lightning::ln::wire::verif_hooks_wire::wire_read;
use lightning::types::features::{ChannelFeatures, InitFeatures, NodeFeatures};
use lightning::util::ser::{Hostname, LengthReadable, Writeable};
use verif_harness::*;

fn valid_offsets(frame: &[u8]) -> String {
	let mut v = Vec::new();
	if frame.len() >= 33 {
		for i in 0..=(frame.len() - 33) {
			if (frame[i] == 2 || frame[i] == 3) && PublicKey::from_slice(&frame[i..i + 33]).is_ok() {
				v.push(i.to_string());
			}
		}
	}
	format!("V{}", v.join(","))
}

fn key(rng: &mut Rng) -> PublicKey {
	let secp = Secp256k1::new();
	loop {
		let mut b = [0u8; 32];
		for c in b.chunks_mut(8) {
			c.copy_from_slice(&rng.next().to_be_bytes());
		}
		if let Ok(sk) = SecretKey::from_slice(&b) {
			return PublicKey::from_secret_key(&secp, &sk);
		}
	}
}

fn bytes(rng: &mut Rng, n: usize) -> Vec<u8> {
	(0..n).map(|_| rng.next() as u8).collect()
}
fn arr<const N: usize>(rng: &mut Rng) -> [u8; N] {
	let mut a = [0u8; N];
	for x in a.iter_mut() {
		*x = rng.next() as u8;
	}
	a
}
fn sig(rng: &mut Rng) -> bitcoin::secp256k1::ecdsa::Signature {
	loop {
		let b: [u8; 64] = arr(rng);
		if let Ok(s) = bitcoin::secp256k1::ecdsa::Signature::from_compact(&b) {
			return s;
		}
	}
}
fn pick_len(rng: &mut Rng) -> usize {
	match rng.below(6) {
		0 => 0,
		1 => 1,
		2 => 2,
		3 => rng.below(40) as usize,
		4 => 255,
		_ => rng.below(300) as usize,
	}
}
fn address(rng: &mut Rng) -> SocketAddress {
	match rng.below(5) {
		0 => SocketAddress::TcpIpV4 { addr: arr(rng), port: rng.next() as u16 },
		1 => SocketAddress::TcpIpV6 { addr: arr(rng), port: rng.next() as u16 },
		2 => SocketAddress::OnionV2(arr(rng)),
		3 => SocketAddress::OnionV3 {
			ed25519_pubkey: arr(rng),
			checksum: rng.next() as u16,
			version: rng.next() as u8,
			port: rng.next() as u16,
		},
		_ => {
			let n = 1 + rng.below(20) as usize;
			let s: String = (0..n).map(|_| (b'a' + (rng.below(26) as u8)) as char).collect();
			SocketAddress::Hostname { hostname: Hostname::try_from(s).unwrap(), port: rng.next() as u16 }
		},
	}
}

/// encodes with the type prefix, decodes with the message's own reader, compares
fn rt<M: Writeable + LengthReadable + PartialEq>(ty: u16, m: &M) -> (String, bool) {
	let enc = m.encode();
	let mut frame = ty.to_be_bytes().to_vec();
	frame.extend_from_slice(&enc);
	let ok = match M::read_from_fixed_length_buffer(&mut &enc[..]) {
		Ok(m2) => &m2 == m,
		Err(_) => false,
	};
	(hex(&frame), ok)
}

fn gen_one(rng: &mut Rng, which: u64) -> (&'static str, String, bool) {
	let chain = bitcoin::constants::ChainHash::from(arr::<32>(rng));
	match which {
		0 => {
			let m = msgs::Ping { ponglen: rng.next() as u16, byteslen: pick_len(rng) as u16 };
			let (h, ok) = rt(18, &m);
			("Ping", h, ok)
		},
		1 => {
			let m = msgs::Pong { byteslen: pick_len(rng) as u16 };
			let (h, ok) = rt(19, &m);
			("Pong", h, ok)
		},
		2 => {
			let n = pick_len(rng) % 64;
			let feat = InitFeatures::from_le_bytes(bytes(rng, n));
			let networks = match rng.below(3) {
				0 => None,
				1 => Some(vec![]),
				_ => Some((0..1 + rng.below(3)).map(|_| bitcoin::constants::ChainHash::from(arr::<32>(rng))).collect()),
			};
			let remote_network_address = if rng.below(2) == 0 { None } else { Some(address(rng)) };
			let m = msgs::Init { features: feat, networks, remote_network_address };
			let (h, ok) = rt(16, &m);
			("Init", h, ok)
		},
		3 => {
			let contents = msgs::UnsignedChannelUpdate {
				chain_hash: chain,
				short_channel_id: rng.next(),
				timestamp: rng.next() as u32,
				message_flags: 1 | ((rng.below(2) as u8) << 1),
				channel_flags: rng.next() as u8,
				cltv_expiry_delta: rng.next() as u16,
				htlc_minimum_msat: rng.next(),
				htlc_maximum_msat: rng.next(),
				fee_base_msat: rng.next() as u32,
				fee_proportional_millionths: rng.next() as u32,
				excess_data: { let n = pick_len(rng) % 50; bytes(rng, n) },
			};
			let m = msgs::ChannelUpdate { signature: sig(rng), contents };
			let (h, ok) = rt(258, &m);
			("ChannelUpdate", h, ok)
		},
		4 => {
			let naddr = rng.below(4) as usize;
			let contents = msgs::UnsignedNodeAnnouncement {
				features: { let n = pick_len(rng) % 20; NodeFeatures::from_le_bytes(bytes(rng, n)) },
				timestamp: rng.next() as u32,
				node_id: lightning::routing::gossip::NodeId::from_pubkey(&key(rng)),
				rgb: arr(rng),
				alias: lightning::routing::gossip::NodeAlias(arr(rng)),
				addresses: (0..naddr).map(|_| address(rng)).collect(),
				excess_address_data: vec![],
				excess_data: { let n = pick_len(rng) % 30; bytes(rng, n) },
			};
			let m = msgs::NodeAnnouncement { signature: sig(rng), contents };
			let (h, ok) = rt(257, &m);
			("NodeAnnouncement", h, ok)
		},
		5 => {
			let n = pick_len(rng) % 70;
			let m = msgs::QueryShortChannelIds { chain_hash: chain, short_channel_ids: (0..n).map(|_| rng.next()).collect() };
			let (h, ok) = rt(261, &m);
			("QueryShortChannelIds", h, ok)
		},
		6 => {
			let n = pick_len(rng) % 70;
			let m = msgs::ReplyChannelRange {
				chain_hash: chain,
				first_blocknum: rng.next() as u32,
				number_of_blocks: rng.next() as u32,
				sync_complete: rng.below(2) == 1,
				short_channel_ids: (0..n).map(|_| rng.next()).collect(),
			};
			let (h, ok) = rt(264, &m);
			("ReplyChannelRange", h, ok)
		},
		7 => {
			use bitcoin::{absolute::LockTime, transaction::Version, Amount, OutPoint, ScriptBuf, Sequence, Transaction, TxIn, TxOut, Txid, Witness};
			let prevtx = if rng.below(3) == 0 {
				None
			} else {
				let nin = 1 + rng.below(2) as usize;
				let nout = 1 + rng.below(3) as usize;
				Some(Transaction {
					version: Version::TWO,
					lock_time: LockTime::ZERO,
					input: (0..nin)
						.map(|_| TxIn {
							previous_output: OutPoint { txid: Txid::from_byte_array(arr(rng)), vout: rng.below(4) as u32 },
							script_sig: ScriptBuf::new(),
							sequence: Sequence(rng.next() as u32),
							witness: if rng.below(2) == 0 { Witness::new() } else { Witness::from_slice(&[bytes(rng, 5)]) },
						})
						.collect(),
					output: (0..nout)
						.map(|_| TxOut { value: Amount::from_sat(rng.below(1 << 40)), script_pubkey: ScriptBuf::from(bytes(rng, 22)) })
						.collect(),
				})
			};
			let m = msgs::TxAddInput {
				channel_id: ChannelId(arr(rng)),
				serial_id: rng.next(),
				prevtx,
				prevtx_out: rng.next() as u32,
				sequence: rng.next() as u32,
				shared_input_txid: if rng.below(2) == 0 { None } else { Some(Txid::from_byte_array(arr(rng))) },
			};
			let (h, ok) = rt(66, &m);
			("TxAddInput", h, ok)
		},
		8 => {
			use bitcoin::{Txid, Witness};
			let nw = rng.below(3) as usize;
			let m = msgs::TxSignatures {
				channel_id: ChannelId(arr(rng)),
				tx_hash: Txid::from_byte_array(arr(rng)),
				witnesses: (0..nw)
					.map(|_| {
						let k = rng.below(3) as usize;
						let items: Vec<Vec<u8>> = (0..k).map(|_| { let n = pick_len(rng) % 80; bytes(rng, n) }).collect();
						Witness::from_slice(&items)
					})
					.collect(),
				shared_input_signature: if rng.below(2) == 0 { None } else { Some(sig(rng)) },
			};
			let (h, ok) = rt(71, &m);
			("TxSignatures", h, ok)
		},
		9 => {
			let m = msgs::UnsignedChannelAnnouncement {
				features: { let n = pick_len(rng) % 10; ChannelFeatures::from_le_bytes(bytes(rng, n)) },
				chain_hash: chain,
				short_channel_id: rng.next(),
				node_id_1: lightning::routing::gossip::NodeId::from_pubkey(&key(rng)),
				node_id_2: lightning::routing::gossip::NodeId::from_pubkey(&key(rng)),
				bitcoin_key_1: lightning::routing::gossip::NodeId::from_pubkey(&key(rng)),
				bitcoin_key_2: lightning::routing::gossip::NodeId::from_pubkey(&key(rng)),
				excess_data: { let n = pick_len(rng) % 30; bytes(rng, n) },
			};
			let m = msgs::ChannelAnnouncement {
				node_signature_1: sig(rng),
				node_signature_2: sig(rng),
				bitcoin_signature_1: sig(rng),
				bitcoin_signature_2: sig(rng),
				contents: m,
			};
			let (h, ok) = rt(256, &m);
			("ChannelAnnouncement", h, ok)
		},
		_ => {
			let n = pick_len(rng);
			let m = msgs::ErrorMessage {
				channel_id: ChannelId(arr(rng)),
				data: (0..n).map(|_| char::from_u32(32 + rng.below(0x2000) as u32).unwrap_or('x')).collect(),
			};
			let (h, ok) = rt(17, &m);
			("ErrorMessage", h, ok)
		},
	}
}

fn main() {
	let args: Vec<String> = std::env::args().collect();
	match args.get(1).map(|s| s.as_str()) {
		Some("keys") => {
			let n: u64 = args[2].parse().unwrap();
			let mut rng = Rng(args[3].parse().unwrap());
			for _ in 0..n {
				println!("{}", hex(&key(&mut rng).serialize()));
			}
		},
		Some("gen") => {
			let n: u64 = args[2].parse().unwrap();
			let mut rng = Rng(args[3].parse().unwrap());
			std::panic::set_hook(Box::new(|_| {}));
			for i in 0..n {
				let which = i % 11;
				let mut r2 = Rng(rng.next());
				let r = std::panic::catch_unwind(std::panic::AssertUnwindSafe(|| gen_one(&mut r2, which)));
				match r {
					Ok((name, h, ok)) => println!("G {} {} {}", name, h, if ok { 1 } else { 0 }),
					Err(_) => println!("G kind{} PANIC 0", which),
				}
			}
		},
		_ => for_each_case(|l| {
			let frame = unhex(l);
			match wire_read(&frame) {
				Ok(d) => format!(
					"Ok {} {} {} {} {} {}",
					d.type_id,
					if d.unknown { 1 } else { 0 },
					d.remaining,
					if d.reencode_stable { 1 } else { 0 },
					if d.payload.is_empty() { "-".to_string() } else { hex(&d.payload) },
					valid_offsets(&frame)
				),
				Err((e, _)) => format!("Err {} {}", e, valid_offsets(&frame)),
			}
		}),
	}
}
