//! C09 trace harness: real ChannelManagers / ChainMonitors (functional_test_utils) driven by an
//! explicit schedule, with a scripted `Persist` implementation. After EVERY call into a manager
//! all message events, events and broadcasts of every node are drained and logged together with
//! every `Watch::update_channel` / `watch_channel` call, every persister verdict and every
//! completion.
//!
//! stdin: one schedule per line:  `<kind> <strict|relaxed> <imm|def> ; op ; op ; ...`
//!   kind = steady (3 nodes A-B-C with two ready channels) | open (2 nodes, no channel yet)
//! ops (all total: an inapplicable op is logged with `"applied":false` and changes nothing):
//!   send <a> <b> <amt_msat>          payment a->b (direct, or via node 1 when {a,b}={0,2})
//!   deliver <a> <b>                  deliver the oldest in-flight wire message a->b
//!   deliverall <a> <b>
//!   fwd <n>                          process_pending_htlc_forwards
//!   claim <n> <k> | fail <n> <k>     k-th claimable payment of node n (mod len)
//!   fee <n> <mult_percent>           scale the fee estimate and run timer_tick_occurred
//!   tick <n>                         timer_tick_occurred
//!   disc <a> <b> | reconn <a> <b>
//!   pmode <n> <async|sync>           persister verdict for future updates of node n
//!   pnext <n> <k>                    next k updates of node n are InProgress (relaxed only)
//!   complete <n> <c> <k>             report completion of the k-th (mod len) pending update of
//!                                    node n's c-th channel (any order)
//!   completeall <n>
//!   flush <n> <k>                    deferred mode: flush k queued operations (0 = all)
//!   open <a> <b> | confirm           (kind open) create_channel / confirm broadcast funding txs
//!   fc <n> <c>                       force-close node n's c-th channel
//!   dany <k> | cany <k> | fwdany <k> deliver from the k-th non-empty queue / complete the k-th pending
//!                                    update over all nodes / forward on the k-th node that needs it
//!   settle                           complete everything, reconnect, deliver until quiet
//! stdout: one JSON object per executed step, then `{"end":...}` per schedule.
use std::collections::{HashMap, HashSet, VecDeque};
use std::panic::{self, AssertUnwindSafe};
use std::sync::atomic::{AtomicU64, Ordering};
use std::sync::{Arc, Mutex};

use bitcoin::hashes::sha256::Hash as Sha256;
use bitcoin::hashes::Hash;
use bitcoin::secp256k1::PublicKey;
use bitcoin::{Amount, Transaction, TxOut};

use lightning::chain::chaininterface::ConfirmationTarget;
use lightning::chain::chainmonitor::Persist;
use lightning::chain::channelmonitor::{ChannelMonitor, ChannelMonitorUpdate};
use lightning::chain::ChannelMonitorUpdateStatus;
use lightning::events::{ClosureReason, Event};
use lightning::ln::channelmanager::PaymentId;
use lightning::ln::outbound_payment::RecipientOnionFields;
use lightning::ln::functional_test_utils::*;
use lightning::ln::msgs::{self, BaseMessageHandler, ChannelMessageHandler, ErrorAction, MessageSendEvent};
use lightning::ln::types::ChannelId;
use lightning::ln::verif_hooks as vh;
use lightning::routing::router::{Path, PaymentParameters, Route, RouteHop, RouteParameters};
use lightning::types::payment::{PaymentHash, PaymentPreimage};
use lightning::util::persist::MonitorName;
use lightning::util::ser::Writeable;
use lightning::util::test_channel_signer::TestChannelSigner;
use lightning::util::test_utils;

use verif_harness::hex;

// ------------------------------------------------------------------------------------------
// scripted persister
// ------------------------------------------------------------------------------------------
#[derive(Clone, Debug)]
struct PRec {
	seq: u64,
	chan: String,
	id: u64,
	new: bool,
	inprog: bool,
}

struct PState {
	default_async: bool,
	force_next: u64,
	relaxed: bool,
	ever_async: HashSet<String>,
	pending: HashMap<String, Vec<u64>>,
	log: Vec<PRec>,
}

struct LogPersister {
	seq: Arc<AtomicU64>,
	st: Mutex<PState>,
}

impl LogPersister {
	fn new(seq: Arc<AtomicU64>, relaxed: bool) -> Self {
		LogPersister {
			seq,
			st: Mutex::new(PState {
				default_async: false,
				force_next: 0,
				relaxed,
				ever_async: HashSet::new(),
				pending: HashMap::new(),
				log: Vec::new(),
			}),
		}
	}
	fn verdict(&self, chan: String, id: u64, new: bool) -> ChannelMonitorUpdateStatus {
		let mut st = self.st.lock().unwrap();
		let has_pending = st.pending.get(&chan).map(|v| !v.is_empty()).unwrap_or(false);
		let forced = st.force_next > 0;
		if forced {
			st.force_next -= 1;
		}
		// Documented rule: Completed -> InProgress at any time, back only after a restart (strict).
		// Relaxed (what the library's own tests do): Completed again once nothing is pending.
		let sticky = !st.relaxed && st.ever_async.contains(&chan);
		let inprog = st.default_async || forced || has_pending || sticky;
		if inprog {
			st.ever_async.insert(chan.clone());
			st.pending.entry(chan.clone()).or_insert_with(Vec::new).push(id);
		}
		let seq = self.seq.fetch_add(1, Ordering::SeqCst);
		st.log.push(PRec { seq, chan, id, new, inprog });
		if inprog {
			ChannelMonitorUpdateStatus::InProgress
		} else {
			ChannelMonitorUpdateStatus::Completed
		}
	}
}

impl Persist<TestChannelSigner> for LogPersister {
	fn persist_new_channel(
		&self, _name: MonitorName, data: &ChannelMonitor<TestChannelSigner>,
	) -> ChannelMonitorUpdateStatus {
		self.verdict(cid(&data.channel_id()), data.get_latest_update_id(), true)
	}
	fn update_persisted_channel(
		&self, _name: MonitorName, update: Option<&ChannelMonitorUpdate>,
		data: &ChannelMonitor<TestChannelSigner>,
	) -> ChannelMonitorUpdateStatus {
		match update {
			Some(u) => self.verdict(cid(&data.channel_id()), u.update_id, false),
			// chain-sync persists are not tracked by ChainMonitor::pending_monitor_updates
			None => ChannelMonitorUpdateStatus::Completed,
		}
	}
	fn archive_persisted_channel(&self, _name: MonitorName) {}
}

fn cid(c: &ChannelId) -> String {
	hex(&c.0[..6])
}

// ------------------------------------------------------------------------------------------
// wire messages in flight
// ------------------------------------------------------------------------------------------
#[derive(Clone)]
enum Wire {
	Open(msgs::OpenChannel),
	Accept(msgs::AcceptChannel),
	FundingCreated(msgs::FundingCreated),
	FundingSigned(msgs::FundingSigned),
	ChannelReady(msgs::ChannelReady),
	AnnSigs(msgs::AnnouncementSignatures),
	Add(msgs::UpdateAddHTLC),
	Fulfill(msgs::UpdateFulfillHTLC),
	FailHtlc(msgs::UpdateFailHTLC),
	FailMalformed(msgs::UpdateFailMalformedHTLC),
	Fee(msgs::UpdateFee),
	CS(msgs::CommitmentSigned),
	RAA(msgs::RevokeAndACK),
	Reestablish(msgs::ChannelReestablish),
	ChanUpdate(msgs::ChannelUpdate),
	Error(msgs::ErrorMessage),
	Shutdown(msgs::Shutdown),
	ClosingSigned(msgs::ClosingSigned),
}

fn h8<W: Writeable>(m: &W) -> String {
	hex(&Sha256::hash(&m.encode()).to_byte_array()[..6])
}

impl Wire {
	fn kind(&self) -> &'static str {
		match self {
			Wire::Open(_) => "open_channel",
			Wire::Accept(_) => "accept_channel",
			Wire::FundingCreated(_) => "funding_created",
			Wire::FundingSigned(_) => "funding_signed",
			Wire::ChannelReady(_) => "channel_ready",
			Wire::AnnSigs(_) => "announcement_signatures",
			Wire::Add(_) => "update_add_htlc",
			Wire::Fulfill(_) => "update_fulfill_htlc",
			Wire::FailHtlc(_) => "update_fail_htlc",
			Wire::FailMalformed(_) => "update_fail_malformed_htlc",
			Wire::Fee(_) => "update_fee",
			Wire::CS(_) => "commitment_signed",
			Wire::RAA(_) => "revoke_and_ack",
			Wire::Reestablish(_) => "channel_reestablish",
			Wire::ChanUpdate(_) => "channel_update",
			Wire::Error(_) => "error",
			Wire::Shutdown(_) => "shutdown",
			Wire::ClosingSigned(_) => "closing_signed",
		}
	}
	fn chan(&self) -> String {
		match self {
			Wire::Open(m) => cid(&m.common_fields.temporary_channel_id),
			Wire::Accept(m) => cid(&m.common_fields.temporary_channel_id),
			Wire::FundingCreated(m) => cid(&m.temporary_channel_id),
			Wire::FundingSigned(m) => cid(&m.channel_id),
			Wire::ChannelReady(m) => cid(&m.channel_id),
			Wire::AnnSigs(m) => cid(&m.channel_id),
			Wire::Add(m) => cid(&m.channel_id),
			Wire::Fulfill(m) => cid(&m.channel_id),
			Wire::FailHtlc(m) => cid(&m.channel_id),
			Wire::FailMalformed(m) => cid(&m.channel_id),
			Wire::Fee(m) => cid(&m.channel_id),
			Wire::CS(m) => cid(&m.channel_id),
			Wire::RAA(m) => cid(&m.channel_id),
			Wire::Reestablish(m) => cid(&m.channel_id),
			Wire::ChanUpdate(_) => "-".to_string(),
			Wire::Error(m) => cid(&m.channel_id),
			Wire::Shutdown(m) => cid(&m.channel_id),
			Wire::ClosingSigned(m) => cid(&m.channel_id),
		}
	}
	fn hash(&self) -> String {
		match self {
			Wire::Open(m) => h8(m),
			Wire::Accept(m) => h8(m),
			Wire::FundingCreated(m) => h8(m),
			Wire::FundingSigned(m) => h8(m),
			Wire::ChannelReady(m) => h8(m),
			Wire::AnnSigs(m) => h8(m),
			Wire::Add(m) => h8(m),
			Wire::Fulfill(m) => h8(m),
			Wire::FailHtlc(m) => h8(m),
			Wire::FailMalformed(m) => h8(m),
			Wire::Fee(m) => h8(m),
			Wire::CS(m) => h8(m),
			Wire::RAA(m) => h8(m),
			Wire::Reestablish(m) => h8(m),
			Wire::ChanUpdate(m) => h8(m),
			Wire::Error(m) => h8(m),
			Wire::Shutdown(m) => h8(m),
			Wire::ClosingSigned(m) => h8(m),
		}
	}
}

// ------------------------------------------------------------------------------------------
// JSON helpers (no serde in the harness crate)
// ------------------------------------------------------------------------------------------
fn js(s: &str) -> String {
	let mut o = String::with_capacity(s.len() + 2);
	o.push('"');
	for c in s.chars() {
		match c {
			'"' => o.push_str("\\\""),
			'\\' => o.push_str("\\\\"),
			'\n' => o.push_str("\\n"),
			c if (c as u32) < 0x20 => o.push(' '),
			c => o.push(c),
		}
	}
	o.push('"');
	o
}
fn jarr(v: &[String]) -> String {
	format!("[{}]", v.join(","))
}

// ------------------------------------------------------------------------------------------
// the world
// ------------------------------------------------------------------------------------------
struct PayInfo {
	preimage: PaymentPreimage,
	from: usize,
	to: usize,
	amt: u64,
}

struct World<'a, 'b, 'c> {
	nodes: &'a Vec<Node<'a, 'b, 'c>>,
	persisters: &'a Vec<LogPersister>,
	ids: Vec<PublicKey>,
	queues: HashMap<(usize, usize), VecDeque<Wire>>,
	connected: HashSet<(usize, usize)>,
	chans: Vec<Vec<(ChannelId, usize)>>, // per node: (channel id, peer index) in creation order
	upd_seen: Vec<HashMap<ChannelId, usize>>,
	plog_seen: Vec<usize>,
	bcast_seen: Vec<usize>,
	claimables: Vec<Vec<PaymentHash>>,
	payments: HashMap<PaymentHash, PayInfo>,
	pay_order: Vec<PaymentHash>,
	pay_ctr: u64,
	funding_txs: Vec<Transaction>,
	confirmed: HashSet<bitcoin::Txid>,
	deferred: bool,
	closed: HashSet<String>,
	closed_by: HashMap<String, HashSet<usize>>,
	evhold: Vec<bool>,
	zeroconf: bool,
	delivered: Option<String>,
	claimed: Option<String>,
	// per-step accumulators
	w: Vec<String>,
	p: Vec<String>,
	c: Vec<String>,
	m: Vec<String>,
	b: Vec<String>,
	e: Vec<String>,
	errs: Vec<String>,
}

impl<'a, 'b, 'c> World<'a, 'b, 'c> {
	fn idx_of(&self, pk: &PublicKey) -> Option<usize> {
		self.ids.iter().position(|p| p == pk)
	}

	fn note_chan(&mut self, n: usize, chan: ChannelId, peer: usize) {
		if !self.chans[n].iter().any(|(c, _)| *c == chan) {
			self.chans[n].push((chan, peer));
		}
	}

	fn push_wire(&mut self, from: usize, to_pk: &PublicKey, w: Wire) {
		let to = match self.idx_of(to_pk) {
			Some(t) => t,
			None => return,
		};
		let tag = match &w {
			Wire::Add(m) => self.pay_tag(&m.payment_hash),
			Wire::Fulfill(m) => self.pay_tag(&PaymentHash(Sha256::hash(&m.payment_preimage.0).to_byte_array())),
			_ => String::new(),
		};
		self.m.push(jarr(&[
			from.to_string(),
			to.to_string(),
			js(w.kind()),
			js(&w.chan()),
			js(&w.hash()),
			js(&tag),
		]));
		// once both ends have closed a channel, the error / bogus-reestablish exchange about it never ends
		let dead = match &w {
			Wire::Error(_) | Wire::Reestablish(_) => self.closed_by.get(&w.chan()).map(|s| s.contains(&from) && s.contains(&to)).unwrap_or(false),
			_ => false,
		};
		if !dead && self.connected.contains(&(from.min(to), from.max(to))) {
			self.queues.entry((from, to)).or_insert_with(VecDeque::new).push_back(w);
		}
	}

	fn do_disconnect(&mut self, a: usize, b: usize) {
		self.nodes[a].node.peer_disconnected(self.ids[b]);
		self.nodes[b].node.peer_disconnected(self.ids[a]);
		self.connected.remove(&(a.min(b), a.max(b)));
		self.queues.remove(&(a, b));
		self.queues.remove(&(b, a));
	}

	fn do_connect(&mut self, a: usize, b: usize) {
		let init_a = msgs::Init {
			features: self.nodes[a].init_features(self.ids[b]),
			networks: None,
			remote_network_address: None,
		};
		let init_b = msgs::Init {
			features: self.nodes[b].init_features(self.ids[a]),
			networks: None,
			remote_network_address: None,
		};
		self.connected.insert((a.min(b), a.max(b)));
		self.nodes[a].node.peer_connected(self.ids[b], &init_b, true).unwrap();
		self.nodes[b].node.peer_connected(self.ids[a], &init_a, false).unwrap();
	}

	fn handle_msg_event(&mut self, n: usize, ev: MessageSendEvent) {
		match ev {
			MessageSendEvent::SendOpenChannel { node_id, msg } => self.push_wire(n, &node_id, Wire::Open(msg)),
			MessageSendEvent::SendAcceptChannel { node_id, msg } => self.push_wire(n, &node_id, Wire::Accept(msg)),
			MessageSendEvent::SendFundingCreated { node_id, msg } => self.push_wire(n, &node_id, Wire::FundingCreated(msg)),
			MessageSendEvent::SendFundingSigned { node_id, msg } => self.push_wire(n, &node_id, Wire::FundingSigned(msg)),
			MessageSendEvent::SendChannelReady { node_id, msg } => self.push_wire(n, &node_id, Wire::ChannelReady(msg)),
			MessageSendEvent::SendAnnouncementSignatures { node_id, msg } => self.push_wire(n, &node_id, Wire::AnnSigs(msg)),
			MessageSendEvent::UpdateHTLCs { node_id, channel_id: _, updates } => {
				for m in updates.update_add_htlcs {
					self.push_wire(n, &node_id, Wire::Add(m));
				}
				for m in updates.update_fulfill_htlcs {
					self.push_wire(n, &node_id, Wire::Fulfill(m));
				}
				for m in updates.update_fail_htlcs {
					self.push_wire(n, &node_id, Wire::FailHtlc(m));
				}
				for m in updates.update_fail_malformed_htlcs {
					self.push_wire(n, &node_id, Wire::FailMalformed(m));
				}
				if let Some(m) = updates.update_fee {
					self.push_wire(n, &node_id, Wire::Fee(m));
				}
				for m in updates.commitment_signed {
					self.push_wire(n, &node_id, Wire::CS(m));
				}
			},
			MessageSendEvent::SendRevokeAndACK { node_id, msg } => self.push_wire(n, &node_id, Wire::RAA(msg)),
			MessageSendEvent::SendChannelReestablish { node_id, msg } => self.push_wire(n, &node_id, Wire::Reestablish(msg)),
			MessageSendEvent::SendChannelUpdate { node_id, msg } => self.push_wire(n, &node_id, Wire::ChanUpdate(msg)),
			MessageSendEvent::SendShutdown { node_id, msg } => self.push_wire(n, &node_id, Wire::Shutdown(msg)),
			MessageSendEvent::SendClosingSigned { node_id, msg } => self.push_wire(n, &node_id, Wire::ClosingSigned(msg)),
			MessageSendEvent::HandleError { node_id, action } => match action {
				ErrorAction::SendErrorMessage { msg } => {
					self.errs.push(format!("node {} sends error: {}", n, msg.data));
					self.push_wire(n, &node_id, Wire::Error(msg));
				},
				ErrorAction::DisconnectPeer { msg } => {
					self.errs.push(format!("node {} disconnects peer: {:?}", n, msg.map(|m| m.data)));
					if let Some(t) = self.idx_of(&node_id) {
						if let Some(Wire::Error(_)) = None::<Wire> {}
						if self.connected.contains(&(n.min(t), n.max(t))) {
							self.do_disconnect(n, t);
						}
					}
				},
				ErrorAction::DisconnectPeerWithWarning { msg } => {
					self.errs.push(format!("node {} disconnects peer with warning: {}", n, msg.data));
					if let Some(t) = self.idx_of(&node_id) {
						if self.connected.contains(&(n.min(t), n.max(t))) {
							self.do_disconnect(n, t);
						}
					}
				},
				ErrorAction::SendWarningMessage { msg, .. } => {
					self.errs.push(format!("node {} sends warning: {}", n, msg.data));
				},
				_ => {},
			},
			// gossip / storage: not channel state
			_ => {},
		}
	}

	fn handle_event(&mut self, n: usize, ev: Event) -> bool {
		let dbg = format!("{:?}", ev);
		let name: String = dbg.chars().take_while(|c| c.is_alphanumeric()).collect();
		let mut detail = String::new();
		let mut acted = false;
		match ev {
			Event::FundingGenerationReady {
				temporary_channel_id,
				counterparty_node_id,
				channel_value_satoshis,
				output_script,
				..
			} => {
				let tx = Transaction {
					version: bitcoin::transaction::Version::TWO,
					lock_time: bitcoin::absolute::LockTime::ZERO,
					input: Vec::new(),
					output: vec![TxOut { value: Amount::from_sat(channel_value_satoshis), script_pubkey: output_script }],
				};
				self.funding_txs.push(tx.clone());
				self.nodes[n]
					.node
					.funding_transaction_generated(temporary_channel_id, counterparty_node_id, tx)
					.unwrap();
				acted = true;
			},
			Event::OpenChannelRequest { temporary_channel_id, counterparty_node_id, .. } => {
				if self.zeroconf {
					self.nodes[n]
						.node
						.accept_inbound_channel_from_trusted_peer(
							&temporary_channel_id,
							&counterparty_node_id,
							7,
							lightning::ln::channelmanager::TrustedChannelFeatures::ZeroConf,
							None,
						)
						.unwrap();
				} else {
					self.nodes[n]
						.node
						.accept_inbound_channel(&temporary_channel_id, &counterparty_node_id, 7, None)
						.unwrap();
				}
				acted = true;
			},
			Event::PaymentClaimable { payment_hash, .. } => {
				self.claimables[n].push(payment_hash);
				detail = self.pay_tag(&payment_hash);
			},
			Event::PaymentClaimed { payment_hash, .. } => detail = self.pay_tag(&payment_hash),
			Event::PaymentSent { payment_hash, .. } => detail = self.pay_tag(&payment_hash),
			Event::PaymentFailed { payment_hash, .. } => {
				if let Some(h) = payment_hash {
					detail = self.pay_tag(&h)
				}
			},
			Event::PaymentPathSuccessful { payment_hash, .. } => {
				if let Some(h) = payment_hash {
					detail = self.pay_tag(&h)
				}
			},
			Event::PaymentPathFailed { payment_hash, .. } => detail = self.pay_tag(&payment_hash),
			Event::PaymentForwarded { prev_htlcs, next_htlcs, .. } => {
				let p: Vec<String> = prev_htlcs.iter().map(|h| cid(&h.channel_id)).collect();
				let q: Vec<String> = next_htlcs.iter().map(|h| cid(&h.channel_id)).collect();
				detail = format!("{}>{}", p.join("+"), q.join("+"));
			},
			Event::ChannelClosed { channel_id, reason, .. } => {
				self.closed.insert(cid(&channel_id));
				self.closed_by.entry(cid(&channel_id)).or_insert_with(HashSet::new).insert(n);
				let expected = matches!(
					reason,
					ClosureReason::HolderForceClosed { .. }
						| ClosureReason::LocallyInitiatedCooperativeClosure
						| ClosureReason::CounterpartyInitiatedCooperativeClosure
						| ClosureReason::LegacyCooperativeClosure
				);
				detail = format!("{} {}", cid(&channel_id), reason);
				if !expected {
					self.errs.push(format!("node {} channel closed: {}", n, detail));
				}
			},
			Event::ChannelReady { channel_id, counterparty_node_id, .. } => {
				detail = cid(&channel_id);
				if let Some(p) = self.idx_of(&counterparty_node_id) {
					self.note_chan(n, channel_id, p);
				}
			},
			Event::ChannelPending { channel_id, counterparty_node_id, .. } => {
				detail = cid(&channel_id);
				if let Some(p) = self.idx_of(&counterparty_node_id) {
					self.note_chan(n, channel_id, p);
				}
			},
			Event::HTLCHandlingFailed { failure_type, .. } => detail = format!("{:?}", failure_type).chars().take(60).collect(),
			_ => {},
		}
		self.e.push(jarr(&[n.to_string(), js(&name), js(&detail)]));
		acted
	}

	fn pay_tag(&self, h: &PaymentHash) -> String {
		match self.pay_order.iter().position(|x| x == h) {
			Some(i) => format!("p{}", i),
			None => hex(&h.0[..4]),
		}
	}

	/// Collects everything observable after a call into any manager.
	fn drain(&mut self) {
		for _round in 0..50 {
			let mut activity = false;
			for n in 0..self.nodes.len() {
				let evs = self.nodes[n].node.get_and_clear_pending_msg_events();
				for ev in evs {
					activity = true;
					self.handle_msg_event(n, ev);
				}
				if !self.evhold[n] {
					let evs = self.nodes[n].node.get_and_clear_pending_events();
					for ev in evs {
						activity = true;
						self.handle_event(n, ev);
					}
				}
				// the ChainMonitor is a message handler too (peer storage): drop its events
				let _ = self.nodes[n].chain_monitor.chain_monitor.get_and_clear_pending_msg_events();
				let _ = self.nodes[n].chain_monitor.chain_monitor.get_and_clear_pending_events();
				// broadcasts
				let txn = self.nodes[n].tx_broadcaster.txn_broadcasted.lock().unwrap().clone();
				for tx in txn.iter().skip(self.bcast_seen[n]) {
					let txid = tx.compute_txid();
					let kind = if self.funding_txs.iter().any(|f| f.compute_txid() == txid) { "funding" } else { "other" };
					self.b.push(jarr(&[n.to_string(), js(kind), js(&hex(&txid.to_byte_array()[..6]))]));
				}
				self.bcast_seen[n] = txn.len();
			}
			self.collect_watch();
			if !activity {
				break;
			}
		}
	}

	/// Watch-level and persister-level calls since the last collection.
	fn collect_watch(&mut self) {
		for n in 0..self.nodes.len() {
			// watch_channel calls show up as added monitors with no update recorded; we learn new
			// channels from the persister log (persist_new_channel) and from list_channels.
			let upds = self.nodes[n].chain_monitor.monitor_updates.lock().unwrap();
			let mut keys: Vec<&ChannelId> = upds.keys().collect();
			keys.sort();
			for k in keys {
				let v = &upds[k];
				let seen = *self.upd_seen[n].get(k).unwrap_or(&0);
				for u in v.iter().skip(seen) {
					let kinds: Vec<String> = vh::update_step_kinds(u).iter().map(|s| js(s)).collect();
					self.w.push(jarr(&[n.to_string(), js(&cid(k)), u.update_id.to_string(), jarr(&kinds)]));
				}
				self.upd_seen[n].insert(*k, v.len());
			}
			drop(upds);
			self.nodes[n].chain_monitor.added_monitors.lock().unwrap().clear();
			let st = self.persisters[n].st.lock().unwrap();
			for r in st.log.iter().skip(self.plog_seen[n]) {
				self.p.push(jarr(&[
					n.to_string(),
					js(&r.chan),
					r.id.to_string(),
					(if r.new { "true" } else { "false" }).to_string(),
					(if r.inprog { "true" } else { "false" }).to_string(),
					r.seq.to_string(),
				]));
			}
			self.plog_seen[n] = st.log.len();
		}
	}

	fn refresh_chans(&mut self) {
		for n in 0..self.nodes.len() {
			for d in self.nodes[n].node.list_channels() {
				if let Some(p) = self.idx_of(&d.counterparty.node_id) {
					if d.funding_txo.is_some() {
						self.note_chan(n, d.channel_id, p);
					}
				}
			}
		}
	}

	fn complete(&mut self, n: usize, chan: ChannelId, id: u64) {
		let key = cid(&chan);
		{
			let mut st = self.persisters[n].st.lock().unwrap();
			if let Some(v) = st.pending.get_mut(&key) {
				v.retain(|x| *x != id);
			}
		}
		self.c.push(jarr(&[n.to_string(), js(&key), id.to_string()]));
		let _ = self.nodes[n].chain_monitor.chain_monitor.channel_monitor_updated(chan, id);
	}

	fn pending_of(&self, n: usize, chan: &ChannelId) -> Vec<u64> {
		self.persisters[n].st.lock().unwrap().pending.get(&cid(chan)).cloned().unwrap_or_default()
	}

	fn views(&self) -> String {
		let mut out = Vec::new();
		for n in 0..self.nodes.len() {
			for (chan, peer) in self.chans[n].iter() {
				let v = vh::monupd_view(self.nodes[n].node, &self.ids[*peer], chan);
				let cm: Vec<String> = self.nodes[n]
					.chain_monitor
					.chain_monitor
					.list_pending_monitor_updates()
					.get(chan)
					.map(|v| v.iter().map(|x| x.to_string()).collect())
					.unwrap_or_default();
				let pp: Vec<String> = self.pending_of(n, chan).iter().map(|x| x.to_string()).collect();
				let mon_id = self.nodes[n].chain_monitor.chain_monitor.get_monitor(*chan).map(|m| m.get_latest_update_id() as i64).unwrap_or(-1);
				let body = match v {
					Some((Some(v), infl, acts)) => format!(
						"\"open\":true,\"latest\":{},\"mip\":{},\"ready\":{},\"arr\":{},\"pd\":{},\"blocked\":[{}],\"praa\":{},\"pcs\":{},\"pcr\":{},\"pfwd\":{},\"pfail\":{},\"pfin\":{},\"padds\":{},\"raa_first\":{},\"hc\":{},\"hca\":{},\"hcfee\":{},\"inflight\":[{}],\"acts\":{}",
						v.latest_monitor_update_id, v.monitor_update_in_progress, v.channel_ready, v.awaiting_remote_revoke, v.peer_disconnected,
						v.blocked_update_ids.iter().map(|x| x.to_string()).collect::<Vec<_>>().join(","),
						v.monitor_pending_revoke_and_ack, v.monitor_pending_commitment_signed, v.monitor_pending_channel_ready,
						v.monitor_pending_forwards, v.monitor_pending_failures, v.monitor_pending_finalized_fulfills, v.monitor_pending_update_adds,
						v.resend_raa_first, v.holding_cell_htlc_updates, v.holding_cell_adds, v.holding_cell_update_fee,
						infl.iter().map(|x| x.to_string()).collect::<Vec<_>>().join(","), acts),
					Some((None, infl, acts)) => format!(
						"\"open\":false,\"inflight\":[{}],\"acts\":{}",
						infl.iter().map(|x| x.to_string()).collect::<Vec<_>>().join(","), acts),
					None => "\"open\":false,\"inflight\":[],\"acts\":0".to_string(),
				};
				out.push(format!(
					"{{\"n\":{},\"chan\":{},\"peer\":{},{},\"cm\":[{}],\"pp\":[{}],\"mon_id\":{}}}",
					n, js(&cid(chan)), peer, body, cm.join(","), pp.join(","), mon_id
				));
			}
		}
		jarr(&out)
	}

	fn first_chan_between(&self, a: usize, b: usize) -> Option<ChannelId> {
		self.chans[a].iter().find(|(c, p)| *p == b && !self.closed.contains(&cid(c))).map(|(c, _)| *c)
	}

	fn send(&mut self, a: usize, b: usize, amt: u64) -> bool {
		if a == b || a >= self.nodes.len() || b >= self.nodes.len() {
			return false;
		}
		let path_nodes: Vec<usize> = if (a == 0 && b == 2) || (a == 2 && b == 0) { vec![1, b] } else { vec![b] };
		let mut prev = a;
		let mut hops = Vec::new();
		let fee = 50_000u64;
		for (i, &h) in path_nodes.iter().enumerate() {
			let chan = match self.first_chan_between(prev, h) {
				Some(c) => c,
				None => return false,
			};
			let scid = match self.nodes[prev].node.list_channels().iter().find(|d| d.channel_id == chan).and_then(|d| d.short_channel_id) {
				Some(s) => s,
				None => return false,
			};
			let last = i + 1 == path_nodes.len();
			hops.push(RouteHop {
				pubkey: self.ids[h],
				node_features: self.nodes[h].node.node_features(),
				short_channel_id: scid,
				channel_features: self.nodes[h].node.channel_features(),
				fee_msat: if last { amt } else { fee },
				cltv_expiry_delta: if last { TEST_FINAL_CLTV } else { 100 },
				maybe_announced_channel: true,
			});
			prev = h;
		}
		self.pay_ctr += 1;
		let mut pre = [0u8; 32];
		pre[0..8].copy_from_slice(&self.pay_ctr.to_be_bytes());
		pre[31] = 0x5a;
		let preimage = PaymentPreimage(pre);
		let hash = PaymentHash(Sha256::hash(&pre).to_byte_array());
		let secret = match self.nodes[b].node.create_inbound_payment_for_hash(hash, None, 7200, None, None) {
			Ok((s, _)) => s,
			Err(_) => return false,
		};
		let route_params = RouteParameters::from_payment_params_and_value(
			PaymentParameters::from_node_id(self.ids[b], TEST_FINAL_CLTV),
			amt,
		);
		let route = Route { paths: vec![Path { hops, blinded_tail: None }], route_params };
		let onion = RecipientOnionFields::secret_only(secret, amt);
		let mut id = [0u8; 32];
		id[0..8].copy_from_slice(&self.pay_ctr.to_be_bytes());
		self.payments.insert(hash, PayInfo { preimage, from: a, to: b, amt });
		self.pay_order.push(hash);
		let res = self.nodes[a].node.send_payment_with_route(route, hash, onion, PaymentId(id));
		res.is_ok()
	}

	fn deliver(&mut self, a: usize, b: usize) -> bool {
		let w = match self.queues.get_mut(&(a, b)).and_then(|q| q.pop_front()) {
			Some(w) => w,
			None => return false,
		};
		let from = self.ids[a];
		let nb = self.nodes[b].node;
		let tag = match &w {
			Wire::Add(m) => self.pay_tag(&m.payment_hash),
			Wire::Fulfill(m) => self.pay_tag(&PaymentHash(Sha256::hash(&m.payment_preimage.0).to_byte_array())),
			_ => String::new(),
		};
		self.delivered = Some(jarr(&[a.to_string(), b.to_string(), js(w.kind()), js(&w.chan()), js(&w.hash()), js(&tag)]));
		match w {
			Wire::Open(m) => nb.handle_open_channel(from, &m),
			Wire::Accept(m) => nb.handle_accept_channel(from, &m),
			Wire::FundingCreated(m) => nb.handle_funding_created(from, &m),
			Wire::FundingSigned(m) => nb.handle_funding_signed(from, &m),
			Wire::ChannelReady(m) => nb.handle_channel_ready(from, &m),
			Wire::AnnSigs(m) => nb.handle_announcement_signatures(from, &m),
			Wire::Add(m) => nb.handle_update_add_htlc(from, &m),
			Wire::Fulfill(m) => nb.handle_update_fulfill_htlc(from, m),
			Wire::FailHtlc(m) => nb.handle_update_fail_htlc(from, &m),
			Wire::FailMalformed(m) => nb.handle_update_fail_malformed_htlc(from, &m),
			Wire::Fee(m) => nb.handle_update_fee(from, &m),
			Wire::CS(m) => nb.handle_commitment_signed(from, &m),
			Wire::RAA(m) => nb.handle_revoke_and_ack(from, &m),
			Wire::Reestablish(m) => nb.handle_channel_reestablish(from, &m),
			Wire::ChanUpdate(m) => nb.handle_channel_update(from, &m),
			Wire::Error(m) => nb.handle_error(from, &m),
			Wire::Shutdown(m) => nb.handle_shutdown(from, &m),
			Wire::ClosingSigned(m) => nb.handle_closing_signed(from, &m),
		}
		true
	}

	fn apply(&mut self, t: &[&str]) -> bool {
		let num = |i: usize| -> usize { t.get(i).and_then(|s| s.parse::<usize>().ok()).unwrap_or(0) };
		let nn = self.nodes.len();
		match t[0] {
			"send" => {
				let (a, b) = (num(1) % nn, num(2) % nn);
				self.send(a, b, num(3) as u64)
			},
			"deliver" => {
				let (a, b) = (num(1) % nn, num(2) % nn);
				self.deliver(a, b)
			},
			"dany" => {
				let mut ne: Vec<(usize, usize)> = self.queues.iter().filter(|(_, q)| !q.is_empty()).map(|(k, _)| *k).collect();
				ne.sort();
				if ne.is_empty() {
					return false;
				}
				let (a, b) = ne[num(1) % ne.len()];
				self.deliver(a, b)
			},
			"cany" => {
				let mut all: Vec<(usize, ChannelId, u64)> = Vec::new();
				for n in 0..nn {
					for (chan, _) in self.chans[n].iter() {
						for id in self.pending_of(n, chan) {
							all.push((n, *chan, id));
						}
					}
				}
				if all.is_empty() {
					return false;
				}
				let (n, chan, id) = all[num(1) % all.len()];
				self.complete(n, chan, id);
				true
			},
			"fwdany" => {
				let ns: Vec<usize> = (0..nn).filter(|n| self.nodes[*n].node.needs_pending_htlc_processing()).collect();
				if ns.is_empty() {
					return false;
				}
				self.nodes[ns[num(1) % ns.len()]].node.process_pending_htlc_forwards();
				true
			},
			"deliverall" => {
				let (a, b) = (num(1) % nn, num(2) % nn);
				let mut any = false;
				for _ in 0..64 {
					if !self.deliver(a, b) {
						break;
					}
					any = true;
					self.drain();
				}
				any
			},
			"fwd" => {
				let n = num(1) % nn;
				self.nodes[n].node.process_pending_htlc_forwards();
				true
			},
			"claim" | "fail" => {
				let n = num(1) % nn;
				if self.claimables[n].is_empty() {
					return false;
				}
				let k = num(2) % self.claimables[n].len();
				let h = self.claimables[n].remove(k);
				self.claimed = Some(js(&self.pay_tag(&h)));
				if t[0] == "claim" {
					let pre = self.payments[&h].preimage;
					self.nodes[n].node.claim_funds(pre);
				} else {
					self.nodes[n].node.fail_htlc_backwards(&h);
				}
				true
			},
			"fee" => {
				let n = num(1) % nn;
				let pct = num(2).max(10) as u64;
				// all nodes share one fee market: only the moment at which each of them looks differs
				let cur = *self.nodes[n].fee_estimator.sat_per_kw.lock().unwrap() as u64;
				let nf = (cur * pct / 100).max(253).min(20_000) as u32;
				for node in self.nodes.iter() {
					*node.fee_estimator.sat_per_kw.lock().unwrap() = nf;
				}
				self.nodes[n].node.timer_tick_occurred();
				true
			},
			"tick" => {
				let n = num(1) % nn;
				self.nodes[n].node.timer_tick_occurred();
				true
			},
			"disc" => {
				let (a, b) = (num(1) % nn, num(2) % nn);
				if a == b || !self.connected.contains(&(a.min(b), a.max(b))) {
					return false;
				}
				self.do_disconnect(a, b);
				true
			},
			"reconn" => {
				let (a, b) = (num(1) % nn, num(2) % nn);
				if a == b || self.connected.contains(&(a.min(b), a.max(b))) {
					return false;
				}
				self.do_connect(a, b);
				true
			},
			"pmode" => {
				let n = num(1) % nn;
				let want_async = t.get(2) == Some(&"async");
				let mut st = self.persisters[n].st.lock().unwrap();
				if !want_async && !st.relaxed && st.default_async {
					return false;
				}
				st.default_async = want_async;
				true
			},
			"pnext" => {
				let n = num(1) % nn;
				let mut st = self.persisters[n].st.lock().unwrap();
				if !st.relaxed {
					return false;
				}
				st.force_next = num(2) as u64;
				true
			},
			"complete" => {
				let n = num(1) % nn;
				if self.chans[n].is_empty() {
					return false;
				}
				let (chan, _) = self.chans[n][num(2) % self.chans[n].len()];
				let pend = self.pending_of(n, &chan);
				if pend.is_empty() {
					return false;
				}
				let id = pend[num(3) % pend.len()];
				self.complete(n, chan, id);
				true
			},
			"completeall" => {
				let n = num(1) % nn;
				let mut any = false;
				let chans: Vec<ChannelId> = self.chans[n].iter().map(|(c, _)| *c).collect();
				for chan in chans {
					for id in self.pending_of(n, &chan) {
						self.complete(n, chan, id);
						any = true;
					}
				}
				any
			},
			"flush" => {
				let n = num(1) % nn;
				if !self.deferred {
					return false;
				}
				let cnt = self.nodes[n].chain_monitor.chain_monitor.pending_operation_count();
				if cnt == 0 {
					return false;
				}
				let k = if num(2) == 0 { cnt } else { num(2).min(cnt) };
				// completions signalled by flush itself (verdict Completed) are visible in the
				// persister log; nothing else to record here
				self.nodes[n].chain_monitor.chain_monitor.flush(k, &self.nodes[n].logger);
				true
			},
			"open" => {
				let (a, b) = (num(1) % nn, num(2) % nn);
				if a == b || !self.connected.contains(&(a.min(b), a.max(b))) {
					return false;
				}
				self.nodes[a].node.create_channel(self.ids[b], 1_000_000, 400_000_000, 42, None, None).is_ok()
			},
			"confirm" => {
				let mut any = false;
				let txs = self.funding_txs.clone();
				for tx in txs {
					let txid = tx.compute_txid();
					if self.confirmed.contains(&txid) {
						continue;
					}
					let broadcast = self.nodes.iter().any(|n| n.tx_broadcaster.txn_broadcasted.lock().unwrap().iter().any(|t| t.compute_txid() == txid));
					if !broadcast {
						continue;
					}
					self.confirmed.insert(txid);
					any = true;
					for n in 0..nn {
						let h = self.nodes[n].best_block_info().1 + 1;
						confirm_transaction_at(&self.nodes[n], &tx, h);
						self.drain();
						connect_blocks(&self.nodes[n], CHAN_CONFIRM_DEPTH - 1);
						self.drain();
					}
				}
				any
			},
			"evhold" => {
				// the application stops / resumes handling its events (completion actions of unhandled
				// events keep later RAA monitor updates blocked)
				let n = num(1) % nn;
				let on = t.get(2) == Some(&"on");
				if self.evhold[n] == on {
					return false;
				}
				self.evhold[n] = on;
				true
			},
			"events" => {
				let n = num(1) % nn;
				let evs = self.nodes[n].node.get_and_clear_pending_events();
				let any = !evs.is_empty();
				for ev in evs {
					self.handle_event(n, ev);
				}
				any
			},
			"close" => {
				let n = num(1) % nn;
				if self.chans[n].is_empty() {
					return false;
				}
				let (chan, peer) = self.chans[n][num(2) % self.chans[n].len()];
				if self.closed.contains(&cid(&chan)) {
					return false;
				}
				self.nodes[n].node.close_channel(&chan, &self.ids[peer]).is_ok()
			},
			"fc" => {
				let n = num(1) % nn;
				if self.chans[n].is_empty() {
					return false;
				}
				let (chan, peer) = self.chans[n][num(2) % self.chans[n].len()];
				if self.closed.contains(&cid(&chan)) {
					return false;
				}
				let ok = self.nodes[n].node.force_close_broadcasting_latest_txn(&chan, &self.ids[peer], "harness".to_string()).is_ok();
				if ok {
					self.closed.insert(cid(&chan));
				}
				ok
			},
			_ => false,
		}
	}
}

/// Result lines go to the file named by the second argument (or to stdout with the prefix `R `):
/// TestLogger prints every log record to stdout.
macro_rules! outln {
	($($arg:tt)*) => {{
		use std::io::Write;
		let line = format!($($arg)*);
		OUT.with(|o| match o.borrow_mut().as_mut() {
			Some(f) => { writeln!(f, "{}", line).unwrap(); },
			None => { println!("R {}", line); },
		});
	}};
}

fn emit_step(w: &mut World, k: usize, op: &str, applied: bool, panic_msg: Option<String>) {
	let errs: Vec<String> = w.errs.iter().map(|s| js(s)).collect();
	outln!(
		"{{\"step\":{},\"op\":{},\"applied\":{},\"w\":{},\"p\":{},\"c\":{},\"m\":{},\"b\":{},\"e\":{},\"errs\":{},\"panic\":{},\"d\":{},\"pay\":{},\"v\":{}}}",
		k,
		js(op),
		applied,
		jarr(&w.w),
		jarr(&w.p),
		jarr(&w.c),
		jarr(&w.m),
		jarr(&w.b),
		jarr(&w.e),
		jarr(&errs),
		match panic_msg {
			Some(m) => js(&m),
			None => "null".to_string(),
		},
		w.delivered.take().unwrap_or("null".to_string()),
		w.claimed.take().unwrap_or("null".to_string()),
		if panic::catch_unwind(AssertUnwindSafe(|| w.views())).is_ok() { w.views() } else { "[]".to_string() },
	);
	w.w.clear();
	w.p.clear();
	w.c.clear();
	w.m.clear();
	w.b.clear();
	w.e.clear();
	w.errs.clear();
}

thread_local! {
	static OUT: std::cell::RefCell<Option<std::io::BufWriter<std::fs::File>>> = std::cell::RefCell::new(None);
	static LAST_PANIC: std::cell::RefCell<String> = std::cell::RefCell::new(String::new());
}

fn run_schedule(line: &str) {
	let mut parts = line.split(';').map(|s| s.trim());
	let head: Vec<&str> = parts.next().unwrap_or("").split_whitespace().collect();
	let kind = head.get(0).cloned().unwrap_or("steady");
	let relaxed = head.get(1) == Some(&"relaxed");
	let deferred = head.get(2) == Some(&"def");
	let noupfront = head.contains(&"noupfront");
	let zeroconf = head.contains(&"zeroconf");
	let ops: Vec<String> = parts.filter(|s| !s.is_empty()).map(|s| s.to_string()).collect();
	let nn = if kind == "open" { 2 } else { 3 };

	let seq = Arc::new(AtomicU64::new(0));
	let persisters: Vec<LogPersister> = (0..nn).map(|_| LogPersister::new(seq.clone(), relaxed)).collect();
	let chanmon_cfgs = create_chanmon_cfgs(nn);
	let mut node_cfgs = create_node_cfgs_with_persisters(nn, &chanmon_cfgs, persisters.iter().collect());
	if deferred {
		for (i, cfg) in node_cfgs.iter_mut().enumerate() {
			cfg.chain_monitor = test_utils::TestChainMonitor::new_deferred(
				Some(&chanmon_cfgs[i].chain_source),
				&chanmon_cfgs[i].tx_broadcaster,
				&chanmon_cfgs[i].logger,
				&chanmon_cfgs[i].fee_estimator,
				&persisters[i],
				&chanmon_cfgs[i].keys_manager,
			);
		}
	}
	let mut ucfg = test_default_channel_config();
	if noupfront {
		// shutdown then needs a ShutdownScript monitor update
		ucfg.channel_handshake_config.commit_upfront_shutdown_pubkey = false;
	}
	let cfgs: Vec<Option<lightning::util::config::UserConfig>> = (0..nn).map(|_| Some(ucfg.clone())).collect();
	let node_chanmgrs = create_node_chanmgrs(nn, &node_cfgs, &cfgs);
	let nodes = create_network(nn, &node_cfgs, &node_chanmgrs);
	for n in nodes.iter() {
		// create_network picks a random ConnectStyle per node; fix it
		*n.connect_style.borrow_mut() = ConnectStyle::BestBlockFirst;
		// the lower bound a node tolerates from its peer does not move with the estimate in this
		// harness (otherwise a stale update_fee legitimately closes the channel)
		let mut o = n.fee_estimator.target_override.lock().unwrap();
		o.insert(ConfirmationTarget::MinAllowedAnchorChannelRemoteFee, 253);
		o.insert(ConfirmationTarget::MinAllowedNonAnchorChannelRemoteFee, 253);
	}
	let ids: Vec<PublicKey> = nodes.iter().map(|n| n.node.get_our_node_id()).collect();

	let mut world = World {
		nodes: &nodes,
		persisters: &persisters,
		ids,
		queues: HashMap::new(),
		connected: HashSet::new(),
		chans: (0..nn).map(|_| Vec::new()).collect(),
		upd_seen: (0..nn).map(|_| HashMap::new()).collect(),
		plog_seen: vec![0; nn],
		bcast_seen: vec![0; nn],
		claimables: (0..nn).map(|_| Vec::new()).collect(),
		payments: HashMap::new(),
		pay_order: Vec::new(),
		pay_ctr: 0,
		funding_txs: Vec::new(),
		confirmed: HashSet::new(),
		deferred,
		closed: HashSet::new(),
		closed_by: HashMap::new(),
		evhold: vec![false; nn],
		zeroconf,
		delivered: None,
		claimed: None,
		w: Vec::new(),
		p: Vec::new(),
		c: Vec::new(),
		m: Vec::new(),
		b: Vec::new(),
		e: Vec::new(),
		errs: Vec::new(),
	};
	for a in 0..nn {
		for b in (a + 1)..nn {
			world.connected.insert((a, b));
		}
	}
	if kind != "open" {
		let c01 = create_announced_chan_between_nodes_with_value(&nodes, 0, 1, 1_000_000, 400_000_000).2;
		let c12 = create_announced_chan_between_nodes_with_value(&nodes, 1, 2, 1_000_000, 400_000_000).2;
		world.note_chan(0, c01, 1);
		world.note_chan(1, c01, 0);
		world.note_chan(1, c12, 2);
		world.note_chan(2, c12, 1);
		// setup noise is not part of the trace
		world.drain();
		for n in 0..nn {
			world.plog_seen[n] = persisters[n].st.lock().unwrap().log.len();
			world.claimables[n].clear();
		}
		world.queues.clear();
	}
	if deferred {
		for n in nodes.iter() {
			n.chain_monitor.pause_flush.store(true, Ordering::Release);
		}
	}
	world.w.clear();
	world.p.clear();
	world.c.clear();
	world.m.clear();
	world.b.clear();
	world.e.clear();
	world.errs.clear();
	emit_step(&mut world, 0, "init", true, None);

	let mut k = 0usize;
	let mut aborted = false;
	let mut settled = false;
	'outer: for op in ops.iter() {
		let toks: Vec<&str> = op.split_whitespace().collect();
		if toks.is_empty() {
			continue;
		}
		if toks[0] == "settle" {
			settled = true;
			// complete everything, reconnect, deliver, forward, claim — every sub-action is a step
			let mut quiet = 0;
			for _round in 0..400 {
				let mut sub: Vec<String> = Vec::new();
				for n in 0..nn {
					sub.push(format!("evhold {} off", n));
					sub.push(format!("flush {} 0", n));
				}
				// one completion per step: a relaxed persister may answer Completed again only once the
				// manager has processed the previous MonitorEvent::Completed of that channel
				for _ in 0..8 {
					sub.push("cany 0".to_string());
				}
				for a in 0..nn {
					for b in (a + 1)..nn {
						sub.push(format!("reconn {} {}", a, b));
					}
				}
				for a in 0..nn {
					for b in 0..nn {
						if a != b {
							sub.push(format!("deliver {} {}", a, b));
						}
					}
				}
				for n in 0..nn {
					sub.push(format!("fwd {}", n));
					sub.push(format!("claim {} 0", n));
				}
				if !world.funding_txs.is_empty() {
					sub.push("confirm".to_string());
				}
				let mut any = false;
				for s in sub {
					let st: Vec<&str> = s.split_whitespace().collect();
					let needs_fwd = st[0] != "fwd" || world.nodes[st[1].parse::<usize>().unwrap()].node.needs_pending_htlc_processing();
					if !needs_fwd {
						continue;
					}
					let r = panic::catch_unwind(AssertUnwindSafe(|| {
						let applied = world.apply(&st);
						if applied {
							world.drain();
							world.refresh_chans();
						}
						applied
					}));
					match r {
						Ok(true) => {
							any = true;
							k += 1;
							emit_step(&mut world, k, &s, true, None);
						},
						Ok(false) => {},
						Err(_) => {
							k += 1;
							let msg = LAST_PANIC.with(|p| p.borrow().clone());
							emit_step(&mut world, k, &s, true, Some(msg));
							aborted = true;
							break 'outer;
						},
					}
				}
				if any {
					quiet = 0;
				} else {
					quiet += 1;
					if quiet >= 2 {
						break;
					}
				}
			}
			continue;
		}
		if toks[0] == "completeall" {
			let n = toks.get(1).and_then(|s| s.parse::<usize>().ok()).unwrap_or(0) % nn;
			let mut did = false;
			for _ in 0..64 {
				let mut next: Option<(usize, usize)> = None;
				for (ci, (chan, _)) in world.chans[n].iter().enumerate() {
					if !world.pending_of(n, chan).is_empty() {
						next = Some((ci, 0));
						break;
					}
				}
				let (ci, _) = match next {
					Some(x) => x,
					None => break,
				};
				let s = format!("complete {} {} 0", n, ci);
				let st: Vec<&str> = s.split_whitespace().collect();
				let r = panic::catch_unwind(AssertUnwindSafe(|| {
					let applied = world.apply(&st);
					world.drain();
					world.refresh_chans();
					applied
				}));
				k += 1;
				did = true;
				match r {
					Ok(applied) => emit_step(&mut world, k, &s, applied, None),
					Err(_) => {
						let msg = LAST_PANIC.with(|p| p.borrow().clone());
						emit_step(&mut world, k, &s, true, Some(msg));
						aborted = true;
						break 'outer;
					},
				}
			}
			if !did {
				k += 1;
				emit_step(&mut world, k, op, false, None);
			}
			continue;
		}
		let r = panic::catch_unwind(AssertUnwindSafe(|| {
			let applied = world.apply(&toks);
			world.drain();
			world.refresh_chans();
			applied
		}));
		k += 1;
		match r {
			Ok(applied) => emit_step(&mut world, k, op, applied, None),
			Err(_) => {
				let msg = LAST_PANIC.with(|p| p.borrow().clone());
				emit_step(&mut world, k, op, true, Some(msg));
				aborted = true;
				break;
			},
		}
	}
	// final summary
	let mut pays = Vec::new();
	for (i, h) in world.pay_order.iter().enumerate() {
		let p = &world.payments[h];
		pays.push(format!("{{\"tag\":\"p{}\",\"from\":{},\"to\":{},\"amt\":{}}}", i, p.from, p.to, p.amt));
	}
	let mut chans = Vec::new();
	if !aborted {
		for n in 0..nn {
			for d in nodes[n].node.list_channels() {
				chans.push(format!(
					"{{\"n\":{},\"chan\":{},\"in\":{},\"out\":{},\"usable\":{},\"outbound_msat\":{}}}",
					n,
					js(&cid(&d.channel_id)),
					d.pending_inbound_htlcs.len(),
					d.pending_outbound_htlcs.len(),
					d.is_usable,
					d.outbound_capacity_msat
				));
			}
		}
	}
	let qleft: usize = world.queues.values().map(|q| q.len()).sum();
	outln!("{{\"end\":true,\"settled\":{},\"aborted\":{},\"payments\":{},\"chans\":{},\"queued\":{}}}", settled, aborted, jarr(&pays), jarr(&chans), qleft);
	// The Node destructor re-checks a number of test-suite expectations that do not apply to an
	// arbitrary schedule (e.g. no pending events); leak instead.
	std::mem::forget(world);
	std::mem::forget(nodes);
}

fn main() {
	panic::set_hook(Box::new(|info| {
		let msg = format!("{}", info);
		LAST_PANIC.with(|p| *p.borrow_mut() = msg.chars().take(400).collect());
	}));
	let args: Vec<String> = std::env::args().collect();
	let input: Box<dyn std::io::BufRead> = match args.get(1) {
		Some(p) if p != "-" => Box::new(std::io::BufReader::new(std::fs::File::open(p).unwrap())),
		_ => Box::new(std::io::BufReader::new(std::io::stdin())),
	};
	if let Some(p) = args.get(2) {
		let f = std::fs::File::create(p).unwrap();
		OUT.with(|o| *o.borrow_mut() = Some(std::io::BufWriter::new(f)));
	}
	use std::io::BufRead;
	for line in input.lines() {
		let l = line.unwrap().trim().to_string();
		if l.is_empty() || l.starts_with('#') {
			continue;
		}
		let r = panic::catch_unwind(AssertUnwindSafe(|| run_schedule(&l)));
		if r.is_err() {
			let msg = LAST_PANIC.with(|p| p.borrow().clone());
			outln!("{{\"end\":true,\"aborted\":true,\"setup_panic\":{},\"payments\":[],\"chans\":[],\"queued\":0}}", js(&msg));
		}
		use std::io::Write;
		OUT.with(|o| {
			if let Some(f) = o.borrow_mut().as_mut() {
				f.flush().unwrap();
			}
		});
	}
}
