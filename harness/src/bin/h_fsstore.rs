//! C19: the real `FilesystemStore` (v1) / `FilesystemStoreV2` against the key-value map specification.
//!
//! usage: h_fsstore seq <v1|v2> <seed> <nops> <dir>     sequential random operations, transcript on stdout
//!        h_fsstore mt  <v1|v2> <seed> <threads> <ops_per_thread> <nkeys> <dir>   concurrent history
//!        h_fsstore aseq <v1|v2> <seed> <nscenarios> <dir>   async API: operations ISSUED in one order, their
//!                                                         futures driven to completion in another
//!        h_fsstore amt <v1|v2> <seed> <tasks> <ops_per_task> <nkeys> <dir> [sab 0|1]  async API on a multi-thread
//!                      runtime; with sab=1 a saboteur thread makes key files immutable for short windows
//!  aseq operations tagged `:x` (directory at the destination) or `:i` (immutable destination file) are made to fail
//!  inside the per-key lock while their future runs.
//! Lines start with "R ".
//!  aseq: R A <scen> ops <W:k:id|D:k:lazy|G:k|L> ... ; order <issue index> ...
//!        R A <scen> step <j> op <i> res <..> state <k0> <k1> ...      (state read back synchronously)
//!  seq:  R <i> W <ns> <key> <valueid> <len> -> ok|err
//!        R <i> D <ns> <key> <lazy> -> ok|err
//!        R <i> G <ns> <key> -> <valueid>|none|err|torn
//!        R <i> L <ns> -> <key,key,...>
//!  mt:   R H <thread> <invoke_ts> <complete_ts> W|D|G <key> <valueid|lazy|-> -> <result>
//! Namespaces and keys are referred to by small integer ids; the id -> string tables are fixed below
//! (including the empty namespaces and 120-character names).
use std::collections::HashMap;
use std::path::PathBuf;
use std::sync::atomic::{AtomicU64, Ordering};
use std::sync::{Arc, Mutex};

use lightning::util::persist::{KVStore, KVStoreSync};
use std::future::Future;
use std::pin::Pin;
use lightning_persister::fs_store::v1::FilesystemStore;
use lightning_persister::fs_store::v2::FilesystemStoreV2;
use verif_harness::Rng;

fn long(c: char) -> String {
	std::iter::repeat(c).take(120).collect()
}

/// (primary, secondary) pairs; namespace names start with 'n', keys with 'k' so that v1's shared
/// directory level never sees a key equal to a namespace name.
fn namespaces() -> Vec<(String, String)> {
	vec![
		("".to_string(), "".to_string()),
		("np1".to_string(), "".to_string()),
		("np1".to_string(), "ns1".to_string()),
		("np2".to_string(), "ns2".to_string()),
		(format!("n{}", &long('P')[1..]), format!("n{}", &long('S')[1..])),
		("np1".to_string(), "ns-_2".to_string()),
	]
}
fn keys() -> Vec<String> {
	vec![
		"k1".to_string(),
		"k2".to_string(),
		"k_3-x".to_string(),
		format!("k{}", &long('K')[1..]),
		"kA".to_string(),
		"k0".to_string(),
	]
}

fn value(id: u64, len: usize) -> Vec<u8> {
	// self-describing contents: every 8-byte block repeats the id, so a torn/mixed value is detectable
	let mut v = Vec::with_capacity(len);
	let b = id.to_le_bytes();
	for i in 0..len {
		v.push(b[i % 8]);
	}
	v
}
fn classify(v: &[u8], known: &HashMap<u64, usize>) -> String {
	if v.is_empty() {
		// the only empty values are those written with len 0: id unknown from content; reported as "e"
		return "e".to_string();
	}
	let mut b = [0u8; 8];
	for i in 0..8.min(v.len()) {
		b[i] = v[i];
	}
	if v.len() < 8 {
		// short values: match by prefix against the known ids
		for (id, len) in known.iter() {
			if *len == v.len() && value(*id, *len) == v {
				return format!("{}", id);
			}
		}
		return "torn".to_string();
	}
	let id = u64::from_le_bytes(b);
	match known.get(&id) {
		Some(len) if *len == v.len() && value(id, *len) == v => format!("{}", id),
		_ => "torn".to_string(),
	}
}

enum Store {
	V1(FilesystemStore),
	V2(FilesystemStoreV2),
}
impl Store {
	fn open(ver: &str, dir: PathBuf) -> Store {
		if ver == "v2" {
			Store::V2(FilesystemStoreV2::new(dir).unwrap())
		} else {
			Store::V1(FilesystemStore::new(dir))
		}
	}
	fn kv(&self) -> &dyn KVStoreSync {
		match self {
			Store::V1(s) => s,
			Store::V2(s) => s,
		}
	}
}

fn run_seq(ver: &str, seed: u64, nops: usize, dir: PathBuf) {
	let _ = std::fs::remove_dir_all(&dir);
	let store = Store::open(ver, dir.clone());
	let kv = store.kv();
	let nss = namespaces();
	let ks = keys();
	let mut rng = Rng(seed);
	let mut known: HashMap<u64, usize> = HashMap::new();
	let mut next_id = 1u64;
	for i in 0..nops {
		let n = rng.below(nss.len() as u64) as usize;
		let k = rng.below(ks.len() as u64) as usize;
		let (p, s) = (&nss[n].0, &nss[n].1);
		match rng.below(10) {
			0..=3 => {
				let len = match rng.below(6) {
					0 => 0,
					1 => 1 + rng.below(7) as usize,
					2 => 8 + rng.below(100) as usize,
					3 => 4096,
					4 => 65536,
					_ => rng.below(70000) as usize,
				};
				let id = next_id;
				next_id += 1;
				// short values carry only the low bytes of the id: keep them unambiguous
				let mut len = len;
				while len > 0 && len < 8 && 256u64.pow(len as u32) <= id {
					len += 1;
				}
				known.insert(id, len);
				let r = kv.write(p, s, &ks[k], value(id, len));
				println!("R {} W {} {} {} {} -> {}", i, n, k, id, len, if r.is_ok() { "ok" } else { "err" });
			},
			4..=5 => {
				let lazy = rng.below(2) == 0;
				let r = kv.remove(p, s, &ks[k], lazy);
				println!("R {} D {} {} {} -> {}", i, n, k, if lazy { 1 } else { 0 }, if r.is_ok() { "ok" } else { "err" });
			},
			6..=7 => {
				let r = kv.read(p, s, &ks[k]);
				let out = match r {
					Ok(v) => classify(&v, &known),
					Err(e) if e.kind() == lightning::io::ErrorKind::NotFound => "none".to_string(),
					Err(_) => "err".to_string(),
				};
				println!("R {} G {} {} -> {}", i, n, k, out);
			},
			_ => {
				let r = kv.list(p, s);
				let out = match r {
					Ok(mut v) => {
						v.sort();
						let ids: Vec<String> = v
							.iter()
							.map(|name| match ks.iter().position(|x| x == name) {
								Some(j) => format!("{}", j),
								None => format!("?{}", name),
							})
							.collect();
						let mut ids = ids;
						ids.sort();
						ids.join(",")
					},
					Err(_) => "err".to_string(),
				};
				println!("R {} L {} -> {}", i, n, out);
			},
		}
	}
	// leftovers: temporary files must not survive completed operations
	let mut tmp = 0;
	fn walk(p: &std::path::Path, tmp: &mut usize) {
		if let Ok(rd) = std::fs::read_dir(p) {
			for e in rd.flatten() {
				let pp = e.path();
				if pp.is_dir() {
					walk(&pp, tmp);
				} else if pp.extension().map(|x| x == "tmp").unwrap_or(false) {
					*tmp += 1;
				}
			}
		}
	}
	walk(&dir, &mut tmp);
	println!("R end tmpfiles={}", tmp);
	drop(store);
	let _ = std::fs::remove_dir_all(&dir);
}

fn run_mt(ver: &str, seed: u64, threads: usize, per: usize, nkeys: usize, dir: PathBuf) {
	let _ = std::fs::remove_dir_all(&dir);
	let store = Arc::new(Store::open(ver, dir.clone()));
	let clock = Arc::new(AtomicU64::new(1));
	let next_id = Arc::new(AtomicU64::new(1));
	let known: Arc<Mutex<HashMap<u64, usize>>> = Arc::new(Mutex::new(HashMap::new()));
	let ks = keys();
	let out: Arc<Mutex<Vec<String>>> = Arc::new(Mutex::new(Vec::new()));
	let mut hs = Vec::new();
	for t in 0..threads {
		let (store, clock, next_id, known, out, ks) = (store.clone(), clock.clone(), next_id.clone(), known.clone(), out.clone(), ks.clone());
		hs.push(std::thread::spawn(move || {
			let mut rng = Rng(seed ^ ((t as u64 + 1) * 0x1234567));
			let kv = store.kv();
			let mut lines = Vec::new();
			for _ in 0..per {
				let k = rng.below(nkeys as u64) as usize;
				match rng.below(10) {
					0..=4 => {
						let id = next_id.fetch_add(1, Ordering::SeqCst);
						let len = 8 + rng.below(3000) as usize;
						known.lock().unwrap().insert(id, len);
						let v = value(id, len);
						let a = clock.fetch_add(1, Ordering::SeqCst);
						let r = kv.write("np1", "ns1", &ks[k], v);
						let b = clock.fetch_add(1, Ordering::SeqCst);
						lines.push(format!("R H {} {} {} W {} {} -> {}", t, a, b, k, id, if r.is_ok() { "ok" } else { "err" }));
					},
					5 => {
						let lazy = rng.below(2) == 0;
						let a = clock.fetch_add(1, Ordering::SeqCst);
						let r = kv.remove("np1", "ns1", &ks[k], lazy);
						let b = clock.fetch_add(1, Ordering::SeqCst);
						lines.push(format!("R H {} {} {} D {} {} -> {}", t, a, b, k, if lazy { 1 } else { 0 }, if r.is_ok() { "ok" } else { "err" }));
					},
					_ => {
						let a = clock.fetch_add(1, Ordering::SeqCst);
						let r = kv.read("np1", "ns1", &ks[k]);
						let b = clock.fetch_add(1, Ordering::SeqCst);
						let o = match r {
							Ok(v) => classify(&v, &known.lock().unwrap()),
							Err(e) if e.kind() == lightning::io::ErrorKind::NotFound => "none".to_string(),
							Err(_) => "err".to_string(),
						};
						lines.push(format!("R H {} {} {} G {} - -> {}", t, a, b, k, o));
					},
				}
			}
			out.lock().unwrap().extend(lines);
		}));
	}
	for h in hs {
		h.join().unwrap();
	}
	// final sequential reads
	let kv = store.kv();
	let mut lines = out.lock().unwrap().clone();
	for k in 0..nkeys {
		let a = clock.fetch_add(1, Ordering::SeqCst);
		let r = kv.read("np1", "ns1", &ks[k]);
		let b = clock.fetch_add(1, Ordering::SeqCst);
		let o = match r {
			Ok(v) => classify(&v, &known.lock().unwrap()),
			Err(e) if e.kind() == lightning::io::ErrorKind::NotFound => "none".to_string(),
			Err(_) => "err".to_string(),
		};
		lines.push(format!("R H {} {} {} G {} - -> {}", threads, a, b, k, o));
	}
	for l in lines {
		println!("{}", l);
	}
	println!("R end");
	drop(kv);
	let _ = std::fs::remove_dir_all(&dir);
}

/// `chattr +i/-i`: an immutable file can be neither unlinked nor renamed over, even by root.
fn set_immutable(p: &std::path::Path, on: bool) -> bool {
	std::process::Command::new("chattr")
		.arg(if on { "+i" } else { "-i" })
		.arg(p)
		.stderr(std::process::Stdio::null())
		.status()
		.map(|s| s.success())
		.unwrap_or(false)
}
fn immutable_supported(dir: &std::path::Path) -> bool {
	let _ = std::fs::create_dir_all(dir);
	let probe = dir.join("immutable-probe");
	if std::fs::write(&probe, b"x").is_err() {
		return false;
	}
	let ok = set_immutable(&probe, true) && std::fs::remove_file(&probe).is_err();
	set_immutable(&probe, false);
	let _ = std::fs::remove_file(&probe);
	ok
}

enum AOut {
	Unit(Result<(), lightning::io::Error>),
	Bytes(Result<Vec<u8>, lightning::io::Error>),
	Keys(Result<Vec<String>, lightning::io::Error>),
}
type AFut = Pin<Box<dyn Future<Output = AOut> + Send>>;

fn issue(store: &Store, kind: &str, k: &str, arg: Vec<u8>, lazy: bool) -> AFut {
	macro_rules! go {
		($s: expr) => {{
			match kind {
				"W" => {
					let f = KVStore::write($s, "np1", "ns1", k, arg);
					Box::pin(async move { AOut::Unit(f.await) }) as AFut
				},
				"D" => {
					let f = KVStore::remove($s, "np1", "ns1", k, lazy);
					Box::pin(async move { AOut::Unit(f.await) }) as AFut
				},
				"G" => {
					let f = KVStore::read($s, "np1", "ns1", k);
					Box::pin(async move { AOut::Bytes(f.await) }) as AFut
				},
				_ => {
					let f = KVStore::list($s, "np1", "ns1");
					Box::pin(async move { AOut::Keys(f.await) }) as AFut
				},
			}
		}};
	}
	match store {
		Store::V1(s) => go!(s),
		Store::V2(s) => go!(s),
	}
}

fn show_out(o: AOut, known: &HashMap<u64, usize>, ks: &[String]) -> String {
	match o {
		AOut::Unit(r) => if r.is_ok() { "ok".to_string() } else { "err".to_string() },
		AOut::Bytes(Ok(v)) => classify(&v, known),
		AOut::Bytes(Err(e)) if e.kind() == lightning::io::ErrorKind::NotFound => "none".to_string(),
		AOut::Bytes(Err(_)) => "err".to_string(),
		AOut::Keys(Ok(v)) => {
			let mut ids: Vec<String> = v.iter().map(|n| ks.iter().position(|x| x == n).map(|j| format!("{}", j)).unwrap_or(format!("?{}", n))).collect();
			ids.sort();
			format!("[{}]", ids.join(","))
		},
		AOut::Keys(Err(_)) => "err".to_string(),
	}
}

fn run_aseq(ver: &str, seed: u64, nscen: usize, dir: PathBuf) {
	let rt = tokio::runtime::Builder::new_current_thread().build().unwrap();
	let ks = keys();
	let mut rng = Rng(seed);
	let nkeys = 2usize;
	let cap = immutable_supported(&dir);
	println!("R cap immutable={}", if cap { 1 } else { 0 });
	for sc in 0..nscen {
		let d = dir.join(format!("s{}", sc));
		let _ = std::fs::remove_dir_all(&d);
		let store = Store::open(ver, d.clone());
		let mut known: HashMap<u64, usize> = HashMap::new();
		let n = 2 + rng.below(6) as usize;
		let mut futs: Vec<Option<AFut>> = Vec::new();
		let mut desc = Vec::new();
		let mut sabotage: Vec<(usize, char)> = Vec::new();
		let mut next_id = 1u64;
		// optionally a completed prefix so that files exist before the interesting part
		for i in 0..n {
			let k = rng.below(nkeys as u64) as usize;
			let r = rng.below(10);
			if r < 5 {
				let id = next_id;
				next_id += 1;
				let len = 8 + rng.below(200) as usize;
				known.insert(id, len);
				futs.push(Some(issue(&store, "W", &ks[k], value(id, len), false)));
				// some writes are made to FAIL inside the per-key lock: while their future runs, a
				// directory sits at the destination path (":x", rename -> EISDIR) or the existing
				// destination file is immutable (":i", rename -> EPERM)
				match rng.below(6) {
					0 => {
						sabotage.push((i, 'x'));
						desc.push(format!("W:{}:{}:x", k, id));
					},
					1 if cap => {
						sabotage.push((i, 'i'));
						desc.push(format!("W:{}:{}:i", k, id));
					},
					_ => desc.push(format!("W:{}:{}", k, id)),
				}
			} else if r < 8 {
				let lazy = rng.below(2) == 0;
				futs.push(Some(issue(&store, "D", &ks[k], Vec::new(), lazy)));
				// removes fail (unlink -> EPERM) when the file they find is immutable
				if cap && rng.below(3) == 0 {
					sabotage.push((i, 'i'));
					desc.push(format!("D:{}:{}:i", k, if lazy { 1 } else { 0 }));
				} else {
					desc.push(format!("D:{}:{}", k, if lazy { 1 } else { 0 }));
				}
			} else if r < 9 {
				futs.push(Some(issue(&store, "G", &ks[k], Vec::new(), false)));
				desc.push(format!("G:{}", k));
			} else {
				futs.push(Some(issue(&store, "L", "", Vec::new(), false)));
				desc.push("L".to_string());
			}
			let _ = i;
		}
		// completion order: a seeded permutation (sometimes issue order, sometimes reversed)
		let mut order: Vec<usize> = (0..n).collect();
		match rng.below(4) {
			0 => {},
			1 => order.reverse(),
			_ => {
				for i in (1..n).rev() {
					let j = rng.below(i as u64 + 1) as usize;
					order.swap(i, j);
				}
			},
		}
		println!("R A {} ops {} ; order {}", sc, desc.join(" "), order.iter().map(|x| x.to_string()).collect::<Vec<_>>().join(" "));
		for (j, &i) in order.iter().enumerate() {
			let f = futs[i].take().unwrap();
			let sab = sabotage.iter().find(|(x, _)| *x == i).map(|(_, c)| *c);
			let kidx: usize = desc[i].split(':').nth(1).and_then(|x| x.parse().ok()).unwrap_or(0);
			let dest = d.join("np1").join("ns1").join(&ks[kidx]);
			let bak = d.join(format!("bak-{}", i));
			let mut had_file = false;
			let mut immut = false;
			match sab {
				Some('x') => {
					if dest.is_file() {
						std::fs::rename(&dest, &bak).unwrap();
						had_file = true;
					}
					std::fs::create_dir_all(&dest).unwrap();
				},
				Some('i') => {
					if dest.is_file() {
						immut = set_immutable(&dest, true);
					}
				},
				_ => {},
			}
			let out = rt.block_on(f);
			match sab {
				Some('x') => {
					let _ = std::fs::remove_dir_all(&dest);
					if had_file {
						std::fs::rename(&bak, &dest).unwrap();
					}
				},
				Some('i') => {
					if immut {
						set_immutable(&dest, false);
					}
				},
				_ => {},
			}
			let res = show_out(out, &known, &ks);
			let mut st = Vec::new();
			for k in 0..nkeys {
				let r = KVStoreSync::read(store.kv(), "np1", "ns1", &ks[k]);
				st.push(match r {
					Ok(v) => classify(&v, &known),
					Err(e) if e.kind() == lightning::io::ErrorKind::NotFound => "none".to_string(),
					Err(_) => "err".to_string(),
				});
			}
			println!("R A {} step {} op {} res {} state {}", sc, j, i, res, st.join(" "));
		}
		drop(store);
		let _ = std::fs::remove_dir_all(&d);
	}
	let _ = std::fs::remove_dir(&dir);
	println!("R end");
}

fn run_amt(ver: &str, seed: u64, tasks: usize, per: usize, nkeys: usize, dir: PathBuf, sab: bool) {
	let _ = std::fs::remove_dir_all(&dir);
	let sab = sab && immutable_supported(&dir);
	println!("R cap immutable={}", if sab { 1 } else { 0 });
	let stop = Arc::new(std::sync::atomic::AtomicBool::new(false));
	// the saboteur: while the tasks run, key files become immutable for short windows, so that
	// writes (rename) and removes (unlink) executing inside the per-key lock fail
	let saboteur = if sab {
		let (stop, dir, ks) = (stop.clone(), dir.clone(), keys());
		Some(std::thread::spawn(move || {
			let mut rng = Rng(seed ^ 0x5ab07a6e);
			let mut windows = 0u64;
			while !stop.load(Ordering::SeqCst) {
				let k = rng.below(nkeys as u64) as usize;
				let p = dir.join("np1").join("ns1").join(&ks[k]);
				if p.is_file() && set_immutable(&p, true) {
					windows += 1;
					std::thread::sleep(std::time::Duration::from_micros(200 + rng.below(1500)));
					set_immutable(&p, false);
				}
				std::thread::sleep(std::time::Duration::from_micros(rng.below(800)));
			}
			windows
		}))
	} else {
		None
	};
	let rt = tokio::runtime::Builder::new_multi_thread().worker_threads(4).build().unwrap();
	let store = Arc::new(Store::open(ver, dir.clone()));
	let clock = Arc::new(AtomicU64::new(1));
	let next_id = Arc::new(AtomicU64::new(1));
	let known: Arc<Mutex<HashMap<u64, usize>>> = Arc::new(Mutex::new(HashMap::new()));
	let ks = keys();
	let out: Arc<Mutex<Vec<String>>> = Arc::new(Mutex::new(Vec::new()));
	let mut hs = Vec::new();
	for t in 0..tasks {
		let (store, clock, next_id, known, out, ks) = (store.clone(), clock.clone(), next_id.clone(), known.clone(), out.clone(), ks.clone());
		hs.push(rt.spawn(async move {
			let mut rng = Rng(seed ^ ((t as u64 + 1) * 0x7654321));
			let mut lines = Vec::new();
			for _ in 0..per {
				let k = rng.below(nkeys as u64) as usize;
				let r = rng.below(10);
				if r < 5 {
					let id = next_id.fetch_add(1, Ordering::SeqCst);
					let len = 8 + rng.below(3000) as usize;
					known.lock().unwrap().insert(id, len);
					let a = clock.fetch_add(1, Ordering::SeqCst);
					let f = issue(&store, "W", &ks[k], value(id, len), false);
					let o = f.await;
					let b = clock.fetch_add(1, Ordering::SeqCst);
					lines.push(format!("R H {} {} {} W {} {} -> {}", t, a, b, k, id, show_out(o, &known.lock().unwrap(), &ks)));
				} else if r < 6 {
					let lazy = rng.below(2) == 0;
					let a = clock.fetch_add(1, Ordering::SeqCst);
					let f = issue(&store, "D", &ks[k], Vec::new(), lazy);
					let o = f.await;
					let b = clock.fetch_add(1, Ordering::SeqCst);
					lines.push(format!("R H {} {} {} D {} {} -> {}", t, a, b, k, if lazy { 1 } else { 0 }, show_out(o, &known.lock().unwrap(), &ks)));
				} else {
					let a = clock.fetch_add(1, Ordering::SeqCst);
					let f = issue(&store, "G", &ks[k], Vec::new(), false);
					let o = f.await;
					let b = clock.fetch_add(1, Ordering::SeqCst);
					lines.push(format!("R H {} {} {} G {} - -> {}", t, a, b, k, show_out(o, &known.lock().unwrap(), &ks)));
				}
			}
			out.lock().unwrap().extend(lines);
		}));
	}
	rt.block_on(async {
		for h in hs {
			h.await.unwrap();
		}
	});
	stop.store(true, Ordering::SeqCst);
	if let Some(h) = saboteur {
		let w = h.join().unwrap();
		println!("R sab windows={}", w);
		for k in 0..nkeys {
			let p = dir.join("np1").join("ns1").join(&ks[k]);
			if p.is_file() {
				set_immutable(&p, false);
			}
		}
	}
	let mut lines = out.lock().unwrap().clone();
	for k in 0..nkeys {
		let a = clock.fetch_add(1, Ordering::SeqCst);
		let r = KVStoreSync::read(store.kv(), "np1", "ns1", &ks[k]);
		let b = clock.fetch_add(1, Ordering::SeqCst);
		let o = match r {
			Ok(v) => classify(&v, &known.lock().unwrap()),
			Err(e) if e.kind() == lightning::io::ErrorKind::NotFound => "none".to_string(),
			Err(_) => "err".to_string(),
		};
		lines.push(format!("R H {} {} {} G {} - -> {}", tasks, a, b, k, o));
	}
	for l in lines {
		println!("{}", l);
	}
	println!("R end");
	drop(rt);
	let _ = std::fs::remove_dir_all(&dir);
}

fn main() {
	let a: Vec<String> = std::env::args().collect();
	match a.get(1).map(|s| s.as_str()) {
		Some("seq") => run_seq(&a[2], a[3].parse().unwrap(), a[4].parse().unwrap(), PathBuf::from(&a[5])),
		Some("mt") => run_mt(&a[2], a[3].parse().unwrap(), a[4].parse().unwrap(), a[5].parse().unwrap(), a[6].parse().unwrap(), PathBuf::from(&a[7])),
		Some("aseq") => run_aseq(&a[2], a[3].parse().unwrap(), a[4].parse().unwrap(), PathBuf::from(&a[5])),
		Some("amt") => run_amt(&a[2], a[3].parse().unwrap(), a[4].parse().unwrap(), a[5].parse().unwrap(), a[6].parse().unwrap(), PathBuf::from(&a[7]), a.get(8).map(|x| x == "1").unwrap_or(false)),
		_ => println!("R usage"),
	}
}
