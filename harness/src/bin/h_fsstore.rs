//! C19: the real `FilesystemStore` (v1) / `FilesystemStoreV2` against the key-value map specification.
//!
//! usage: h_fsstore seq <v1|v2> <seed> <nops> <dir>     sequential random operations, transcript on stdout
//!        h_fsstore mt  <v1|v2> <seed> <threads> <ops_per_thread> <nkeys> <dir>   concurrent history
//! Lines start with "R ".
//!  seq:  R <i> W <ns> <key> <valueid> <len> -> ok|err
//!        R <i> D <ns> <key> <lazy> -> ok|err
//!        R <i> G <ns> <key> -> <valueid>|none|err|torn
//!        R <i> L <ns> -> <key,key,...>
//!  mt:   R H <thread> <invoke_ts> <complete_ts> W|D|G <key> <valueid|lazy|-> -> <result>
//! Namespaces and keys are referred to by small integer ids; the id -> string tables are fixed below
//! (including the empty namespaces and 120-character names).
use std::collections::HashMap;
use std::path::PathBuf;
use std::sync::atomic::{AtomicU64, Ordering};
use std::sync::{Arc, Mutex};

use lightning::util::persist::KVStoreSync;
use lightning_persister::fs_store::v1::FilesystemStore;
use lightning_persister::fs_store::v2::FilesystemStoreV2;
use verif_harness::Rng;

fn long(c: char) -> String {
	std::iter::repeat(c).take(120).collect()
}

/// (primary, secondary) pairs; namespace names start with 'n', keys with 'k' so that v1's shared
/// directory level never sees a key equal to a namespace name.
fn namespaces() -> Vec<(String, String)> {
	vec![
		("".to_string(), "".to_string()),
		("np1".to_string(), "".to_string()),
		("np1".to_string(), "ns1".to_string()),
		("np2".to_string(), "ns2".to_string()),
		(format!("n{}", &long('P')[1..]), format!("n{}", &long('S')[1..])),
		("np1".to_string(), "ns-_2".to_string()),
	]
}
fn keys() -> Vec<String> {
	vec![
		"k1".to_string(),
		"k2".to_string(),
		"k_3-x".to_string(),
		format!("k{}", &long('K')[1..]),
		"kA".to_string(),
		"k0".to_string(),
	]
}

fn value(id: u64, len: usize) -> Vec<u8> {
	// self-describing contents: every 8-byte block repeats the id, so a torn/mixed value is detectable
	let mut v = Vec::with_capacity(len);
	let b = id.to_le_bytes();
	for i in 0..len {
		v.push(b[i % 8]);
	}
	v
}
fn classify(v: &[u8], known: &HashMap<u64, usize>) -> String {
	if v.is_empty() {
		// the only empty values are those written with len 0: id unknown from content; reported as "e"
		return "e".to_string();
	}
	let mut b = [0u8; 8];
	for i in 0..8.min(v.len()) {
		b[i] = v[i];
	}
	if v.len() < 8 {
		// short values: match by prefix against the known ids
		for (id, len) in known.iter() {
			if *len == v.len() && value(*id, *len) == v {
				return format!("{}", id);
			}
		}
		return "torn".to_string();
	}
	let id = u64::from_le_bytes(b);
	match known.get(&id) {
		Some(len) if *len == v.len() && value(id, *len) == v => format!("{}", id),
		_ => "torn".to_string(),
	}
}

enum Store {
	V1(FilesystemStore),
	V2(FilesystemStoreV2),
}
impl Store {
	fn open(ver: &str, dir: PathBuf) -> Store {
		if ver == "v2" {
			Store::V2(FilesystemStoreV2::new(dir).unwrap())
		} else {
			Store::V1(FilesystemStore::new(dir))
		}
	}
	fn kv(&self) -> &dyn KVStoreSync {
		match self {
			Store::V1(s) => s,
			Store::V2(s) => s,
		}
	}
}

fn run_seq(ver: &str, seed: u64, nops: usize, dir: PathBuf) {
	let _ = std::fs::remove_dir_all(&dir);
	let store = Store::open(ver, dir.clone());
	let kv = store.kv();
	let nss = namespaces();
	let ks = keys();
	let mut rng = Rng(seed);
	let mut known: HashMap<u64, usize> = HashMap::new();
	let mut next_id = 1u64;
	for i in 0..nops {
		let n = rng.below(nss.len() as u64) as usize;
		let k = rng.below(ks.len() as u64) as usize;
		let (p, s) = (&nss[n].0, &nss[n].1);
		match rng.below(10) {
			0..=3 => {
				let len = match rng.below(6) {
					0 => 0,
					1 => 1 + rng.below(7) as usize,
					2 => 8 + rng.below(100) as usize,
					3 => 4096,
					4 => 65536,
					_ => rng.below(70000) as usize,
				};
				let id = next_id;
				next_id += 1;
				// short values carry only the low bytes of the id: keep them unambiguous
				let mut len = len;
				while len > 0 && len < 8 && 256u64.pow(len as u32) <= id {
					len += 1;
				}
				known.insert(id, len);
				let r = kv.write(p, s, &ks[k], value(id, len));
				println!("R {} W {} {} {} {} -> {}", i, n, k, id, len, if r.is_ok() { "ok" } else { "err" });
			},
			4..=5 => {
				let lazy = rng.below(2) == 0;
				let r = kv.remove(p, s, &ks[k], lazy);
				println!("R {} D {} {} {} -> {}", i, n, k, if lazy { 1 } else { 0 }, if r.is_ok() { "ok" } else { "err" });
			},
			6..=7 => {
				let r = kv.read(p, s, &ks[k]);
				let out = match r {
					Ok(v) => classify(&v, &known),
					Err(e) if e.kind() == lightning::io::ErrorKind::NotFound => "none".to_string(),
					Err(_) => "err".to_string(),
				};
				println!("R {} G {} {} -> {}", i, n, k, out);
			},
			_ => {
				let r = kv.list(p, s);
				let out = match r {
					Ok(mut v) => {
						v.sort();
						let ids: Vec<String> = v
							.iter()
							.map(|name| match ks.iter().position(|x| x == name) {
								Some(j) => format!("{}", j),
								None => format!("?{}", name),
							})
							.collect();
						let mut ids = ids;
						ids.sort();
						ids.join(",")
					},
					Err(_) => "err".to_string(),
				};
				println!("R {} L {} -> {}", i, n, out);
			},
		}
	}
	// leftovers: temporary files must not survive completed operations
	let mut tmp = 0;
	fn walk(p: &std::path::Path, tmp: &mut usize) {
		if let Ok(rd) = std::fs::read_dir(p) {
			for e in rd.flatten() {
				let pp = e.path();
				if pp.is_dir() {
					walk(&pp, tmp);
				} else if pp.extension().map(|x| x == "tmp").unwrap_or(false) {
					*tmp += 1;
				}
			}
		}
	}
	walk(&dir, &mut tmp);
	println!("R end tmpfiles={}", tmp);
	drop(store);
	let _ = std::fs::remove_dir_all(&dir);
}

fn run_mt(ver: &str, seed: u64, threads: usize, per: usize, nkeys: usize, dir: PathBuf) {
	let _ = std::fs::remove_dir_all(&dir);
	let store = Arc::new(Store::open(ver, dir.clone()));
	let clock = Arc::new(AtomicU64::new(1));
	let next_id = Arc::new(AtomicU64::new(1));
	let known: Arc<Mutex<HashMap<u64, usize>>> = Arc::new(Mutex::new(HashMap::new()));
	let ks = keys();
	let out: Arc<Mutex<Vec<String>>> = Arc::new(Mutex::new(Vec::new()));
	let mut hs = Vec::new();
	for t in 0..threads {
		let (store, clock, next_id, known, out, ks) = (store.clone(), clock.clone(), next_id.clone(), known.clone(), out.clone(), ks.clone());
		hs.push(std::thread::spawn(move || {
			let mut rng = Rng(seed ^ ((t as u64 + 1) * 0x1234567));
			let kv = store.kv();
			let mut lines = Vec::new();
			for _ in 0..per {
				let k = rng.below(nkeys as u64) as usize;
				match rng.below(10) {
					0..=4 => {
						let id = next_id.fetch_add(1, Ordering::SeqCst);
						let len = 8 + rng.below(3000) as usize;
						known.lock().unwrap().insert(id, len);
						let v = value(id, len);
						let a = clock.fetch_add(1, Ordering::SeqCst);
						let r = kv.write("np1", "ns1", &ks[k], v);
						let b = clock.fetch_add(1, Ordering::SeqCst);
						lines.push(format!("R H {} {} {} W {} {} -> {}", t, a, b, k, id, if r.is_ok() { "ok" } else { "err" }));
					},
					5 => {
						let lazy = rng.below(2) == 0;
						let a = clock.fetch_add(1, Ordering::SeqCst);
						let r = kv.remove("np1", "ns1", &ks[k], lazy);
						let b = clock.fetch_add(1, Ordering::SeqCst);
						lines.push(format!("R H {} {} {} D {} {} -> {}", t, a, b, k, if lazy { 1 } else { 0 }, if r.is_ok() { "ok" } else { "err" }));
					},
					_ => {
						let a = clock.fetch_add(1, Ordering::SeqCst);
						let r = kv.read("np1", "ns1", &ks[k]);
						let b = clock.fetch_add(1, Ordering::SeqCst);
						let o = match r {
							Ok(v) => classify(&v, &known.lock().unwrap()),
							Err(e) if e.kind() == lightning::io::ErrorKind::NotFound => "none".to_string(),
							Err(_) => "err".to_string(),
						};
						lines.push(format!("R H {} {} {} G {} - -> {}", t, a, b, k, o));
					},
				}
			}
			out.lock().unwrap().extend(lines);
		}));
	}
	for h in hs {
		h.join().unwrap();
	}
	// final sequential reads
	let kv = store.kv();
	let mut lines = out.lock().unwrap().clone();
	for k in 0..nkeys {
		let a = clock.fetch_add(1, Ordering::SeqCst);
		let r = kv.read("np1", "ns1", &ks[k]);
		let b = clock.fetch_add(1, Ordering::SeqCst);
		let o = match r {
			Ok(v) => classify(&v, &known.lock().unwrap()),
			Err(e) if e.kind() == lightning::io::ErrorKind::NotFound => "none".to_string(),
			Err(_) => "err".to_string(),
		};
		lines.push(format!("R H {} {} {} G {} - -> {}", threads, a, b, k, o));
	}
	for l in lines {
		println!("{}", l);
	}
	println!("R end");
	drop(kv);
	let _ = std::fs::remove_dir_all(&dir);
}

fn main() {
	let a: Vec<String> = std::env::args().collect();
	match a.get(1).map(|s| s.as_str()) {
		Some("seq") => run_seq(&a[2], a[3].parse().unwrap(), a[4].parse().unwrap(), PathBuf::from(&a[5])),
		Some("mt") => run_mt(&a[2], a[3].parse().unwrap(), a[4].parse().unwrap(), a[5].parse().unwrap(), a[6].parse().unwrap(), PathBuf::from(&a[7])),
		_ => println!("R usage"),
	}
}
