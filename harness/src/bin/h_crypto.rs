//! Correspondence harness for the symmetric primitives modelled in /verif/coq/Crypto.
//! Every command goes through the same crates / functions rust-lightning itself uses:
//! `bitcoin::hashes` (SHA-256, HMAC), the `chacha20-poly1305` crate as linked by `lightning`
//! (re-exported by the `_verif_hooks` feature), and `lightning::crypto::{utils, streams}`.
//!
//! Case lines (hex arguments, `-` for the empty string; result: hex, `-` for empty, `ERR` on failure):
//!   sha256 <msg>
//!   hmac <key> <msg>
//!   chacha20 <key32> <nonce12> <block_counter> <len>            keystream, ChaCha20::new_from_block
//!   chacha20seek <key32> <nonce12> <byte_seek> <len> [<chunk>]  keystream, ChaCha20::new, applied
//!                                                               in pieces of <chunk> bytes
//!   applychacha <key32> <nonce16> <data>                        crypto::utils::apply_chacha20
//!   poly1305 <key32> <msg> [<chunk>]                            Poly1305 input in pieces of <chunk>
//!   aead_enc <key32> <nonce12> <ad> <pt>                        ciphertext || tag
//!   aead_dec <key32> <nonce12> <ad> <ct||tag>                   plaintext or ERR
//!   hkdf2 <salt> <ikm>                                          "<t1> <t2>"
//!   hkdf8 <salt> <ikm>                                          "<k1> ... <k8>"
//!   cpw <rho32> <pt>                                            ChaChaPolyWriteAdapter
//!   cpr <rho32> <ct||tag>                                       ChaChaPolyReadAdapter, or ERR
//!   swapped <key32> <aad32> <pt>                                chachapoly_encrypt_with_swapped_aad
//!   tripoly <key32> <aad_a32> <aad_b32> <ct||tag>               "<which> <pt>" or ERR
use bitcoin::hashes::hmac::{Hmac, HmacEngine};
use bitcoin::hashes::sha256::Hash as Sha256;
use bitcoin::hashes::{Hash, HashEngine};
use lightning::ln::verif_hooks::crypto as vc;
use vc::chacha20_poly1305::chacha20::ChaCha20;
use vc::chacha20_poly1305::poly1305::Poly1305;
use vc::chacha20_poly1305::{ChaCha20Poly1305, Key, Nonce};
use verif_harness::*;

fn hx(b: &[u8]) -> String {
	if b.is_empty() {
		"-".to_string()
	} else {
		hex(b)
	}
}

fn arr<const N: usize>(v: &[u8]) -> [u8; N] {
	let mut a = [0u8; N];
	a.copy_from_slice(v);
	a
}

fn pieces(len: usize, chunk: usize) -> Vec<(usize, usize)> {
	let mut v = Vec::new();
	if chunk == 0 {
		v.push((0, len));
		return v;
	}
	let mut i = 0;
	while i < len {
		let j = core::cmp::min(len, i + chunk);
		v.push((i, j));
		i = j;
	}
	v
}

fn main() {
	for_each_case(|l| {
		let t: Vec<&str> = l.split_whitespace().collect();
		let b = |i: usize| unhex(t[i]);
		let n = |i: usize| t[i].parse::<u64>().unwrap();
		match t[0] {
			"sha256" => hx(&Sha256::hash(&b(1)).to_byte_array()),
			"hmac" => {
				let mut e = HmacEngine::<Sha256>::new(&b(1));
				e.input(&b(2));
				hx(&Hmac::from_engine(e).to_byte_array())
			},
			"chacha20" => {
				let mut buf = vec![0u8; n(4) as usize];
				let mut c =
					ChaCha20::new_from_block(Key::new(arr(&b(1))), Nonce::new(arr(&b(2))), n(3) as u32);
				c.apply_keystream(&mut buf);
				hx(&buf)
			},
			"chacha20seek" => {
				let mut buf = vec![0u8; n(4) as usize];
				let chunk = if t.len() > 5 { n(5) as usize } else { 0 };
				let mut c = ChaCha20::new(Key::new(arr(&b(1))), Nonce::new(arr(&b(2))), n(3) as u32);
				for (i, j) in pieces(buf.len(), chunk) {
					c.apply_keystream(&mut buf[i..j]);
				}
				hx(&buf)
			},
			"applychacha" => {
				let mut buf = b(3);
				vc::apply_chacha20(arr(&b(1)), arr(&b(2)), &mut buf);
				hx(&buf)
			},
			"poly1305" => {
				let msg = b(2);
				let chunk = if t.len() > 3 { n(3) as usize } else { 0 };
				let mut p = Poly1305::new(arr(&b(1)));
				for (i, j) in pieces(msg.len(), chunk) {
					p.input(&msg[i..j]);
				}
				hx(&p.tag())
			},
			"aead_enc" => {
				let mut buf = b(4);
				let ad = b(3);
				let tag = ChaCha20Poly1305::new(Key::new(arr(&b(1))), Nonce::new(arr(&b(2))))
					.encrypt(&mut buf, Some(&ad));
				buf.extend_from_slice(&tag);
				hx(&buf)
			},
			"aead_dec" => {
				let mut buf = b(4);
				let ad = b(3);
				if buf.len() < 16 {
					return "ERR".to_string();
				}
				let tag: [u8; 16] = arr(&buf[buf.len() - 16..]);
				buf.truncate(buf.len() - 16);
				match ChaCha20Poly1305::new(Key::new(arr(&b(1))), Nonce::new(arr(&b(2))))
					.decrypt(&mut buf, tag, Some(&ad))
				{
					Ok(()) => hx(&buf),
					Err(_) => "ERR".to_string(),
				}
			},
			"hkdf2" => {
				let (t1, t2) = vc::hkdf_extract_expand_twice(&b(1), &b(2));
				format!("{} {}", hex(&t1), hex(&t2))
			},
			"hkdf8" => {
				let ks = vc::hkdf_extract_expand_8x(&b(1), &b(2));
				ks.iter().map(|k| hex(k)).collect::<Vec<_>>().join(" ")
			},
			"cpw" => hx(&vc::chachapoly_write_adapter(arr(&b(1)), &b(2))),
			"cpr" => match vc::chachapoly_read_adapter(arr(&b(1)), &b(2)) {
				Ok(p) => hx(&p),
				Err(_) => "ERR".to_string(),
			},
			"swapped" => hx(&vc::chachapoly_encrypt_with_swapped_aad(b(3), arr(&b(1)), arr(&b(2)))),
			"tripoly" => match vc::chacha_tripoly_read_adapter(arr(&b(1)), arr(&b(2)), arr(&b(3)), &b(4)) {
				Ok((p, which)) => format!("{} {}", which, hx(&p)),
				Err(_) => "ERR".to_string(),
			},
			_ => "BADCMD".to_string(),
		}
	});
}
