//! C05 functional correspondence: `CounterpartyCommitmentSecrets` and `build_commitment_secret`
//! (lightning/src/ln/chan_utils.rs) against coq/Model/Shachain.v.
//!
//! One case per line: `<id> <op>;<op>;...` run against ONE fresh store, in order. Ops:
//!   `P <idx> <hex32>`  provide_secret          -> `ok <min_seen>` | `err <min_seen>`
//!   `G <idx>`          get_secret              -> `<hex32>` | `none` | `panic` (the internal assert)
//!   `M`                get_min_seen_secret     -> `<min_seen>`
//!   `S`                write + read round trip -> `rt <len>` (continues with the re-read store) | `rtfail`
//!   `D`                dump                    -> `<idx0>:<hex>,<idx1>:<hex>,...` (49 slots, via write())
//!   `B <hex32> <idx>`  build_commitment_secret -> `<hex32>`
//! Output: `<id> <res>;<res>;...`
use lightning::ln::chan_utils::{build_commitment_secret, CounterpartyCommitmentSecrets};
use lightning::util::ser::{Readable, Writeable};
use std::panic::{catch_unwind, AssertUnwindSafe};
use verif_harness::*;

fn arr32(h: &str) -> [u8; 32] {
	let v = unhex(h);
	let mut a = [0u8; 32];
	a.copy_from_slice(&v[..32]);
	a
}

fn main() {
	for_each_case(|l| {
		let (id, rest) = l.split_once(' ').unwrap_or((l, ""));
		let mut store = CounterpartyCommitmentSecrets::new();
		let mut out: Vec<String> = Vec::new();
		for op in rest.split(';') {
			let op = op.trim();
			if op.is_empty() {
				continue;
			}
			let t: Vec<&str> = op.split_whitespace().collect();
			let r = match t[0] {
				"P" => {
					let idx: u64 = t[1].parse().unwrap();
					let sec = arr32(t[2]);
					match store.provide_secret(idx, sec) {
						Ok(()) => format!("ok {}", store.get_min_seen_secret()),
						Err(()) => format!("err {}", store.get_min_seen_secret()),
					}
				},
				"G" => {
					let idx: u64 = t[1].parse().unwrap();
					match catch_unwind(AssertUnwindSafe(|| store.get_secret(idx))) {
						Ok(Some(s)) => hex(&s),
						Ok(None) => "none".to_string(),
						Err(_) => "panic".to_string(),
					}
				},
				"M" => format!("{}", store.get_min_seen_secret()),
				"S" => {
					let bytes = store.encode();
					match CounterpartyCommitmentSecrets::read(&mut &bytes[..]) {
						Ok(s2) => {
							if s2 == store && s2.encode() == bytes {
								store = s2;
								format!("rt {}", bytes.len())
							} else {
								"rtfail".to_string()
							}
						},
						Err(_) => "rtfail".to_string(),
					}
				},
				"D" => {
					// serialization is 49 x (32-byte secret, u64 BE index) followed by an empty TLV stream
					let bytes = store.encode();
					let mut parts = Vec::new();
					for i in 0..49 {
						let o = i * 40;
						let mut ib = [0u8; 8];
						ib.copy_from_slice(&bytes[o + 32..o + 40]);
						parts.push(format!("{}:{}", u64::from_be_bytes(ib), hex(&bytes[o..o + 32])));
					}
					parts.join(",")
				},
				"B" => {
					let seed = arr32(t[1]);
					let idx: u64 = t[2].parse().unwrap();
					hex(&build_commitment_secret(&seed, idx))
				},
				_ => "BADOP".to_string(),
			};
			out.push(r);
		}
		format!("{} {}", id, out.join(";"))
	});
}
