//! C15: recording message handlers shared by `h_peer` (scripted sockets) and `h_peer_tokio`
//! (real lightning-net-tokio driver). Included with `#[path]`, not part of the library crate.
#![allow(dead_code)]
use bitcoin::constants::ChainHash;
use bitcoin::secp256k1::PublicKey;
use bitcoin::Network;
use lightning::io;
use lightning::ln::msgs::{self, BaseMessageHandler, ChannelMessageHandler, DecodeError, Init, LightningError, MessageSendEvent, OnionMessageHandler, RoutingMessageHandler};
use lightning::ln::peer_handler::CustomMessageHandler;
use lightning::ln::types::ChannelId;
use lightning::ln::wire::{self, CustomMessageReader};
use lightning::routing::gossip::{NetworkGraph, NodeId, P2PGossipSync};
use lightning::routing::utxo::{UtxoLookup, UtxoLookupError, UtxoResult};
use lightning::types::features::{InitFeatures, NodeFeatures};
use lightning::util::logger::{Logger, Record};
use lightning::util::ser::{LengthLimitedRead, Writeable, Writer};
use lightning::util::wakers::Notifier;
use std::sync::atomic::{AtomicBool, Ordering};
use std::sync::{Arc, Mutex};
use verif_harness::*;

// ---------------------------------------------------------------- plumbing
pub struct NullLogger;
impl Logger for NullLogger {
	fn log(&self, _record: Record) {}
}

/// what the handlers of one node saw, in order: "C" = peer_connected on the custom handler ("c" on
/// the others), "X" = peer_disconnected, "M<hex>" = a message (type bytes + payload) reached a
/// channel/custom handler, "H:<method>" = a routing/onion handler method was called
pub type Log = Arc<Mutex<Vec<String>>>;

#[derive(Debug, Clone, PartialEq)]
pub struct RawMsg {
	pub ty: u16,
	pub payload: Vec<u8>,
}
impl Writeable for RawMsg {
	fn write<W: Writer>(&self, w: &mut W) -> Result<(), io::Error> {
		w.write_all(&self.payload)
	}
}
impl wire::Type for RawMsg {
	fn type_id(&self) -> u16 {
		self.ty
	}
}
pub fn encoded(ty: u16, payload: &[u8]) -> Vec<u8> {
	let mut v = ty.to_be_bytes().to_vec();
	v.extend_from_slice(payload);
	v
}

/// custom types this node understands: 32768..=59999; 60000.. stay unknown to the reader
pub fn custom_known(ty: u16) -> bool {
	ty >= 32768 && ty < 60000
}

pub struct RecCustom {
	pub log: Log,
	pub pending: Mutex<Vec<(PublicKey, RawMsg)>>,
}
impl CustomMessageReader for RecCustom {
	type CustomMessage = RawMsg;
	fn read<R: LengthLimitedRead>(&self, ty: u16, buffer: &mut R) -> Result<Option<RawMsg>, DecodeError> {
		if !custom_known(ty) {
			return Ok(None);
		}
		let mut payload = Vec::new();
		let mut buf = [0u8; 4096];
		loop {
			let n = buffer.read(&mut buf).map_err(|_| DecodeError::ShortRead)?;
			if n == 0 {
				break;
			}
			payload.extend_from_slice(&buf[..n]);
		}
		Ok(Some(RawMsg { ty, payload }))
	}
}
impl CustomMessageHandler for RecCustom {
	fn handle_custom_message(&self, msg: RawMsg, _sender: PublicKey) -> Result<(), LightningError> {
		self.log.lock().unwrap().push(format!("M{}", hex(&encoded(msg.ty, &msg.payload))));
		Ok(())
	}
	fn get_and_clear_pending_msg(&self) -> Vec<(PublicKey, RawMsg)> {
		self.pending.lock().unwrap().drain(..).collect()
	}
	fn peer_disconnected(&self, _their_node_id: PublicKey) {
		self.log.lock().unwrap().push("X".to_string());
	}
	fn peer_connected(&self, _their_node_id: PublicKey, _msg: &Init, _inbound: bool) -> Result<(), ()> {
		self.log.lock().unwrap().push("C".to_string());
		Ok(())
	}
	fn provided_node_features(&self) -> NodeFeatures {
		NodeFeatures::empty()
	}
	fn provided_init_features(&self, _their_node_id: PublicKey) -> InitFeatures {
		InitFeatures::empty()
	}
}

pub struct RecChan {
	pub log: Log,
	pub pending: Mutex<Vec<MessageSendEvent>>,
}
macro_rules! rec_ref {
	($name: ident, $t: ty, $ty: expr) => {
		fn $name(&self, _their_node_id: PublicKey, msg: &$t) {
			self.log.lock().unwrap().push(format!("M{}", hex(&encoded($ty, &msg.encode()))));
		}
	};
}
macro_rules! rec_val {
	($name: ident, $t: ty, $ty: expr) => {
		fn $name(&self, _their_node_id: PublicKey, msg: $t) {
			self.log.lock().unwrap().push(format!("M{}", hex(&encoded($ty, &msg.encode()))));
		}
	};
}
impl ChannelMessageHandler for RecChan {
	rec_ref!(handle_open_channel, msgs::OpenChannel, 32);
	rec_ref!(handle_open_channel_v2, msgs::OpenChannelV2, 64);
	rec_ref!(handle_accept_channel, msgs::AcceptChannel, 33);
	rec_ref!(handle_accept_channel_v2, msgs::AcceptChannelV2, 65);
	rec_ref!(handle_funding_created, msgs::FundingCreated, 34);
	rec_ref!(handle_funding_signed, msgs::FundingSigned, 35);
	rec_ref!(handle_channel_ready, msgs::ChannelReady, 36);
	rec_val!(handle_peer_storage, msgs::PeerStorage, 7);
	rec_val!(handle_peer_storage_retrieval, msgs::PeerStorageRetrieval, 9);
	rec_ref!(handle_shutdown, msgs::Shutdown, 38);
	rec_ref!(handle_closing_signed, msgs::ClosingSigned, 39);
	rec_ref!(handle_stfu, msgs::Stfu, 2);
	rec_ref!(handle_splice_init, msgs::SpliceInit, 80);
	rec_ref!(handle_splice_ack, msgs::SpliceAck, 81);
	rec_ref!(handle_splice_locked, msgs::SpliceLocked, 77);
	rec_ref!(handle_tx_add_input, msgs::TxAddInput, 66);
	rec_ref!(handle_tx_add_output, msgs::TxAddOutput, 67);
	rec_ref!(handle_tx_remove_input, msgs::TxRemoveInput, 68);
	rec_ref!(handle_tx_remove_output, msgs::TxRemoveOutput, 69);
	rec_ref!(handle_tx_complete, msgs::TxComplete, 70);
	rec_ref!(handle_tx_signatures, msgs::TxSignatures, 71);
	rec_ref!(handle_tx_init_rbf, msgs::TxInitRbf, 72);
	rec_ref!(handle_tx_ack_rbf, msgs::TxAckRbf, 73);
	rec_ref!(handle_tx_abort, msgs::TxAbort, 74);
	rec_ref!(handle_update_add_htlc, msgs::UpdateAddHTLC, 128);
	rec_val!(handle_update_fulfill_htlc, msgs::UpdateFulfillHTLC, 130);
	rec_ref!(handle_update_fail_htlc, msgs::UpdateFailHTLC, 131);
	rec_ref!(handle_update_fail_malformed_htlc, msgs::UpdateFailMalformedHTLC, 135);
	rec_ref!(handle_commitment_signed, msgs::CommitmentSigned, 132);
	fn handle_commitment_signed_batch(&self, _their_node_id: PublicKey, _channel_id: ChannelId, batch: Vec<msgs::CommitmentSigned>) {
		self.log.lock().unwrap().push(format!("Mbatch{}", batch.len()));
	}
	rec_ref!(handle_revoke_and_ack, msgs::RevokeAndACK, 133);
	rec_ref!(handle_update_fee, msgs::UpdateFee, 134);
	rec_ref!(handle_announcement_signatures, msgs::AnnouncementSignatures, 259);
	rec_ref!(handle_channel_reestablish, msgs::ChannelReestablish, 136);
	rec_ref!(handle_channel_update, msgs::ChannelUpdate, 258);
	rec_ref!(handle_error, msgs::ErrorMessage, 17);
	fn get_chain_hashes(&self) -> Option<Vec<ChainHash>> {
		Some(vec![ChainHash::using_genesis_block(Network::Testnet)])
	}
	fn message_received(&self) {}
}
impl BaseMessageHandler for RecChan {
	fn get_and_clear_pending_msg_events(&self) -> Vec<MessageSendEvent> {
		self.pending.lock().unwrap().drain(..).collect()
	}
	fn peer_disconnected(&self, _their_node_id: PublicKey) {}
	fn provided_node_features(&self) -> NodeFeatures {
		NodeFeatures::empty()
	}
	fn provided_init_features(&self, _their_node_id: PublicKey) -> InitFeatures {
		InitFeatures::empty()
	}
	fn peer_connected(&self, _their_node_id: PublicKey, _msg: &Init, _inbound: bool) -> Result<(), ()> {
		self.log.lock().unwrap().push("c".to_string());
		Ok(())
	}
}

pub struct NoUtxo;
impl UtxoLookup for NoUtxo {
	fn get_utxo(&self, _chain_hash: &ChainHash, _scid: u64, _n: Arc<Notifier>) -> UtxoResult {
		UtxoResult::Sync(Err(UtxoLookupError::UnknownChain))
	}
}
pub type RealSync = P2PGossipSync<Arc<NetworkGraph<Arc<NullLogger>>>, NoUtxo, Arc<NullLogger>>;

/// records every routing-handler call; `queue_high` scripts `processing_queue_high()`; with
/// `inner` the call is then passed on to a real `P2PGossipSync` (whose replies get sent)
pub struct RecRoute {
	pub log: Log,
	pub queue_high: AtomicBool,
	pub inner: Option<RealSync>,
}
impl RecRoute {
	pub fn new(log: Log, gossip: bool) -> Self {
		let inner = if gossip {
			let lg = Arc::new(NullLogger);
			Some(P2PGossipSync::new(Arc::new(NetworkGraph::new(Network::Testnet, lg.clone())), None, lg))
		} else {
			None
		};
		RecRoute { log, queue_high: AtomicBool::new(false), inner }
	}
	fn h(&self, name: &str) {
		self.log.lock().unwrap().push(format!("H:{}", name));
	}
}
impl RoutingMessageHandler for RecRoute {
	fn handle_node_announcement(&self, n: Option<PublicKey>, msg: &msgs::NodeAnnouncement) -> Result<bool, LightningError> {
		self.h("node_announcement");
		match &self.inner {
			Some(i) => i.handle_node_announcement(n, msg),
			None => Ok(false),
		}
	}
	fn handle_channel_announcement(&self, n: Option<PublicKey>, msg: &msgs::ChannelAnnouncement) -> Result<bool, LightningError> {
		self.h("channel_announcement");
		match &self.inner {
			Some(i) => i.handle_channel_announcement(n, msg),
			None => Ok(false),
		}
	}
	fn handle_channel_update(&self, n: Option<PublicKey>, msg: &msgs::ChannelUpdate) -> Result<Option<(NodeId, NodeId)>, LightningError> {
		self.h("channel_update");
		match &self.inner {
			Some(i) => i.handle_channel_update(n, msg),
			None => Ok(None),
		}
	}
	fn get_next_channel_announcement(&self, _s: u64) -> Option<(msgs::ChannelAnnouncement, Option<msgs::ChannelUpdate>, Option<msgs::ChannelUpdate>)> {
		None
	}
	fn get_next_node_announcement(&self, _s: Option<&NodeId>) -> Option<msgs::NodeAnnouncement> {
		None
	}
	fn handle_reply_channel_range(&self, n: PublicKey, msg: msgs::ReplyChannelRange) -> Result<(), LightningError> {
		self.h("reply_channel_range");
		match &self.inner {
			Some(i) => i.handle_reply_channel_range(n, msg),
			None => Ok(()),
		}
	}
	fn handle_reply_short_channel_ids_end(&self, n: PublicKey, msg: msgs::ReplyShortChannelIdsEnd) -> Result<(), LightningError> {
		self.h("reply_short_channel_ids_end");
		match &self.inner {
			Some(i) => i.handle_reply_short_channel_ids_end(n, msg),
			None => Ok(()),
		}
	}
	fn handle_query_channel_range(&self, n: PublicKey, msg: msgs::QueryChannelRange) -> Result<(), LightningError> {
		self.h("query_channel_range");
		match &self.inner {
			Some(i) => i.handle_query_channel_range(n, msg),
			None => Ok(()),
		}
	}
	fn handle_query_short_channel_ids(&self, n: PublicKey, msg: msgs::QueryShortChannelIds) -> Result<(), LightningError> {
		self.h("query_short_channel_ids");
		match &self.inner {
			Some(i) => i.handle_query_short_channel_ids(n, msg),
			None => Ok(()),
		}
	}
	fn processing_queue_high(&self) -> bool {
		self.queue_high.load(Ordering::Acquire)
	}
}
impl BaseMessageHandler for RecRoute {
	fn get_and_clear_pending_msg_events(&self) -> Vec<MessageSendEvent> {
		match &self.inner {
			Some(i) => i.get_and_clear_pending_msg_events(),
			None => Vec::new(),
		}
	}
	fn peer_disconnected(&self, _their_node_id: PublicKey) {}
	fn provided_node_features(&self) -> NodeFeatures {
		NodeFeatures::empty()
	}
	fn provided_init_features(&self, _their_node_id: PublicKey) -> InitFeatures {
		InitFeatures::empty()
	}
	fn peer_connected(&self, _their_node_id: PublicKey, _msg: &Init, _inbound: bool) -> Result<(), ()> {
		self.log.lock().unwrap().push("c".to_string());
		Ok(())
	}
}
pub struct RecOnion {
	pub log: Log,
}
impl OnionMessageHandler for RecOnion {
	fn handle_onion_message(&self, _n: PublicKey, _msg: &msgs::OnionMessage) {
		self.log.lock().unwrap().push("H:onion_message".to_string());
	}
	fn next_onion_message_for_peer(&self, _n: PublicKey) -> Option<msgs::OnionMessage> {
		None
	}
	fn timer_tick_occurred(&self) {}
}
macro_rules! base_handler {
	($t: ty) => {
		impl BaseMessageHandler for $t {
			fn get_and_clear_pending_msg_events(&self) -> Vec<MessageSendEvent> {
				Vec::new()
			}
			fn peer_disconnected(&self, _their_node_id: PublicKey) {}
			fn provided_node_features(&self) -> NodeFeatures {
				NodeFeatures::empty()
			}
			fn provided_init_features(&self, _their_node_id: PublicKey) -> InitFeatures {
				InitFeatures::empty()
			}
			fn peer_connected(&self, _their_node_id: PublicKey, _msg: &Init, _inbound: bool) -> Result<(), ()> {
				self.log.lock().unwrap().push("c".to_string());
				Ok(())
			}
		}
	};
}
base_handler!(RecOnion);

