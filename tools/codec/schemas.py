"""Schema extractor for the wire codecs (C13): reads lightning/src/ln/msgs.rs, wire.rs (and
onion_utils.rs for two array sizes) and produces, for every message whose codec is describable by
the schema language of coq/Codec/Wire.v, its WRITE side and its READ side separately.

Sources of a schema:
  * `impl_writeable_msg!(Name, {fixed fields}, {(type, field, kind)...})`  (both sides from the one
    macro invocation; field -> Rust type from the struct definition);
  * hand-written sequential impls (`impl Writeable for X` / `impl LengthReadable for X`): the ordered
    `self.a.b.write(w)?;` statements + `encode_tlv_stream!` on the write side, the ordered
    `let x: T = Readable::read(r)?;` statements / struct-literal fields + `decode_tlv_stream!` on the
    read side (types on the read side come from the `let` annotations, on the write side from the
    struct definitions, so the two sides are extracted independently);
  * `HAND`: irregular codecs modelled by hand; each is pinned to a hash of the Rust impl text and the
    extractor REFUSES (raises) when the text changed.
Rust type -> codec id through the fixed table `TYPE_TABLE` below (part of the trusted base).
"""
import hashlib
import os
import re


class Refused(Exception):
    pass


# ------------------------------------------------------------------ Rust type -> codec (Coq term)
def B(x):
    return "FB (%s)" % x


TYPE_TABLE = {
    "u8": B("BU 1"), "u16": B("BU 2"), "u32": B("BU 4"), "u64": B("BU 8"), "i64": B("BU 8"),
    "SerialId": B("BU 8"),
    "bool": B("BBool"),
    "ChannelId": B("BBytes 32"), "Txid": B("BBytes 32"), "ChainHash": B("BBytes 32"),
    "BlockHash": B("BBytes 32"), "PaymentHash": B("BBytes 32"), "PaymentPreimage": B("BBytes 32"),
    "NodeId": B("BBytes 33"), "NodeAlias": B("BBytes 32"),
    "PublicKey": B("BPk"), "Signature": B("BSig"),
    "Vec<u8>": B("BVarCL"), "ScriptBuf": B("BVar16"),
    "InitFeatures": B("BVar16"), "NodeFeatures": B("BVar16"), "ChannelFeatures": B("BVar16"),
    "ChannelTypeFeatures": "FRest",
    "Vec<Signature>": "FVecCL BSig",
    "OnionPacket": B("BOnion"),
    "()": "FSeq []",
    # not modelled (bitcoin consensus encoding, addresses, blinded paths, onion-message packets)
    "Transaction": "FOpaque", "Vec<Witness>": "FOpaque", "SocketAddress": "FOpaque",
    "Vec<(u64, BlindedMessagePath)>": "FOpaque", "onion_message::packet::Packet": "FOpaque",
    "Vec<SocketAddress>": "FOpaque", "Vec<u64>": "FOpaque", "Vec<ChainHash>": "FRestVec (BBytes 32)",
    "String": "FOpaque",
}
ENCODING_TABLE = {  # (option, encoding: (T, Enc)) -> codec
    ("ScriptBuf", "WithoutLength"): "FRest",
    ("bool", "AccountableBool"): B("BAcct"),
}
KINDS = {"option": "KOpt", "required": "KReq", "optional_vec": "KOptVec"}


def strip_comments(s):
    s = re.sub(r"//[^\n]*", "", s)
    return re.sub(r"/\*.*?\*/", "", s, flags=re.S)


def balanced(s, i, open_ch="{", close_ch="}"):
    """s[i] == open_ch; returns index just past the matching close."""
    assert s[i] == open_ch, (s[i - 20:i + 20])
    d = 0
    j = i
    while j < len(s):
        if s[j] == open_ch:
            d += 1
        elif s[j] == close_ch:
            d -= 1
            if d == 0:
                return j + 1
        j += 1
    raise Refused("unbalanced braces")


def split_top(s, sep=","):
    out, d, cur = [], 0, ""
    for ch in s:
        if ch in "([{<":
            d += 1
        elif ch in ")]}>":
            d -= 1
        if ch == sep and d == 0:
            out.append(cur)
            cur = ""
        else:
            cur += ch
    if cur.strip():
        out.append(cur)
    return [x.strip() for x in out if x.strip()]


class Extractor:
    def __init__(self, repo):
        self.repo = repo
        self.msgs_raw = open(os.path.join(repo, "lightning/src/ln/msgs.rs")).read()
        # drop the test module
        cut = self.msgs_raw.find("\n#[cfg(test)]\nmod tests")
        self.msgs = strip_comments(self.msgs_raw[:cut] if cut > 0 else self.msgs_raw)
        self.wire = strip_comments(open(os.path.join(repo, "lightning/src/ln/wire.rs")).read())
        self.onion_utils = strip_comments(open(os.path.join(repo, "lightning/src/ln/onion_utils.rs")).read())
        self.consts = {}
        for m in re.finditer(r"const\s+(\w+)\s*:\s*usize\s*=\s*([^;]+);", self.onion_utils):
            self.consts[m.group(1)] = m.group(2).strip()
        self.structs = {}
        for src in (self.msgs, self.onion_utils):
            for m in re.finditer(r"pub struct (\w+)\s*\{", src):
                end = balanced(src, m.end() - 1)
                body = re.sub(r"#\[[^\]]*\]", "", src[m.end():end - 1])
                fields = []
                for f in split_top(body):
                    fm = re.match(r"(?:pub(?:\([^)]*\))?\s+)?(\w+)\s*:\s*(.+)$", f.strip(), re.S)
                    if fm:
                        fields.append((fm.group(1), re.sub(r"\s+", " ", fm.group(2).strip())))
                self.structs.setdefault(m.group(1), fields)
        self.simple_structs = {}  # impl_writeable!(Name, {a, b}) in msgs.rs / onion_utils.rs
        for src in (self.msgs, self.onion_utils):
            for m in re.finditer(r"impl_writeable!\(\s*(\w+)\s*,\s*\{([^}]*)\}\s*\)", src):
                self.simple_structs[m.group(1)] = [x.strip() for x in m.group(2).split(",") if x.strip()]
        self.types = {}
        for m in re.finditer(r"impl Encode for msgs::(\w+)\s*\{\s*const TYPE: u16 = (\d+);", self.wire):
            self.types[m.group(1)] = int(m.group(2))
        self.dispatch = re.findall(r"msgs::(\w+)::TYPE\s*=>", self.wire)
        self.cfg_gated = set(re.findall(r"#\[cfg\(simple_close\)\]\s*msgs::(\w+)::TYPE", self.wire))

    # ---- evaluation of array sizes
    def const_eval(self, expr):
        expr = expr.strip()
        for _ in range(10):
            names = set(re.findall(r"[A-Za-z_]\w*", expr))
            if not names:
                break
            for n in names:
                if n not in self.consts:
                    raise Refused("unknown constant %s in array size" % n)
                expr = re.sub(r"\b%s\b" % n, "(" + self.consts[n] + ")", expr)
        if not re.fullmatch(r"[\d\s()+*/-]+", expr):
            raise Refused("array size not constant: " + expr)
        return int(eval(expr.replace("/", "//")))

    # ---- type -> codec
    def base_of(self, codec):
        m = re.fullmatch(r"FB \((.+)\)", codec)
        return m.group(1) if m else None

    def codec_of_type(self, ty):
        ty = ty.strip()
        if ty in TYPE_TABLE:
            return TYPE_TABLE[ty]
        m = re.fullmatch(r"\[u8;\s*(.+)\]", ty)
        if m:
            return B("BBytes %d" % self.const_eval(m.group(1)))
        m = re.fullmatch(r"Option<(.+)>", ty)
        if m:
            return self.codec_of_type(m.group(1))
        if ty in self.simple_structs:
            fields = dict(self.structs.get(ty, []))
            parts = []
            for f in self.simple_structs[ty]:
                if f not in fields:
                    raise Refused("impl_writeable!(%s): no field %s" % (ty, f))
                b = self.base_of(self.codec_of_type(fields[f]))
                if b is None:
                    raise Refused("nested struct %s has a non-base field %s" % (ty, f))
                parts.append(b)
            return "FSeq [%s]" % "; ".join(parts)
        raise Refused("no codec for Rust type `%s`" % ty)

    def field_type(self, struct, path):
        """type of self.<path> (dotted) in struct"""
        cur = struct
        ty = None
        for comp in path:
            fields = dict(self.structs.get(cur, []))
            if comp not in fields:
                raise Refused("struct %s has no field %s" % (cur, comp))
            ty = fields[comp]
            cur = ty
        return ty

    # ---- TLV entries
    def parse_tlvs(self, body, type_of_field):
        """body: text inside { (t, f, kind), ... }; returns list of (type, name, kindCoq, codec)"""
        out = []
        for ent in split_top(body):
            if not ent.startswith("("):
                raise Refused("TLV entry not a tuple: " + ent)
            parts = split_top(ent[1:-1])
            if len(parts) != 3:
                raise Refused("TLV entry arity: " + ent)
            t, fexpr, kind = parts
            t = int(t)
            name, wl = self.tlv_field_name(fexpr)
            codec = None
            k = kind.strip()
            if k in KINDS:
                kc = KINDS[k]
            else:
                m = re.fullmatch(r"\(\s*option\s*,\s*encoding:\s*\(\s*([\w:<>]+)\s*,\s*(\w+)\s*\)\s*\)", k)
                if not m:
                    raise Refused("unsupported TLV kind `%s` for field %s" % (k, name))
                kc = "KOpt"
                key = (m.group(1), m.group(2))
                if key not in ENCODING_TABLE:
                    raise Refused("unsupported TLV encoding %s" % (key,))
                codec = ENCODING_TABLE[key]
            if codec is None:
                ty = type_of_field(name)
                if wl:  # written through WithoutLength(..)
                    inner = re.fullmatch(r"Option<(.+)>", ty)
                    key = ((inner.group(1) if inner else ty), "WithoutLength")
                    if key in ENCODING_TABLE:
                        codec = ENCODING_TABLE[key]
                    elif key[0] == "Vec<ChainHash>":
                        codec = "FRestVec (BBytes 32)"
                    else:
                        raise Refused("unsupported WithoutLength of %s" % ty)
                else:
                    codec = self.codec_of_type(ty)
                    if kc == "KOptVec" and codec != "FOpaque":
                        # optional_vec is written through WithoutLength(vec)
                        m2 = re.fullmatch(r"FVecCL (.+)", codec)
                        codec = "FRestVec (%s)" % m2.group(1) if m2 else "FOpaque"
            out.append((t, name, kc, codec))
        return out

    @staticmethod
    def tlv_field_name(fexpr):
        """`self.common_fields.shutdown_scriptpubkey.as_ref().map(|s| WithoutLength(s))` -> (name, True)"""
        fexpr = fexpr.strip()
        wl = "WithoutLength" in fexpr
        fexpr = re.sub(r"\.as_ref\(\).*$", "", fexpr)
        fexpr = fexpr.lstrip("&")
        comps = fexpr.split(".")
        if comps[0] == "self":
            comps = comps[1:]
        if not all(re.fullmatch(r"\w+", c) for c in comps):
            raise Refused("unsupported TLV field expression: " + fexpr)
        return comps[-1], wl

    # ---- impl_writeable_msg!
    def macro_schemas(self):
        res = {}
        for m in re.finditer(r"impl_writeable_msg!\(\s*(\w+)\s*,", self.msgs):
            name = m.group(1)
            i = self.msgs.index("{", m.end())
            j = balanced(self.msgs, i)
            fixed = [x.strip() for x in self.msgs[i + 1:j - 1].split(",") if x.strip()]
            i2 = self.msgs.index("{", j)
            j2 = balanced(self.msgs, i2)
            sfields = dict(self.structs.get(name, []))

            def tof(f, name=name, sfields=sfields):
                if f not in sfields:
                    raise Refused("struct %s has no field %s" % (name, f))
                return sfields[f]
            fx = [(f, self.codec_of_type(tof(f))) for f in fixed]
            tl = self.parse_tlvs(self.msgs[i2 + 1:j2 - 1], tof)
            side = {"fixed": fx, "tail": ("TTlv", tl)}
            res[name] = {"write": side, "read": side, "source": "impl_writeable_msg!", "span": self.line_span(m.start(), j2)}
        return res

    def line_span(self, a, b):
        # positions refer to the comment-stripped text; report the hash of the text instead of lines
        return hashlib.sha256(self.msgs[a:b].encode()).hexdigest()[:12]

    # ---- hand-written sequential impls
    def impl_body(self, header_re):
        m = re.search(header_re, self.msgs)
        if not m:
            raise Refused("impl not found: " + header_re)
        i = self.msgs.index("{", m.end() - 1)
        j = balanced(self.msgs, i)
        return self.msgs[i:j]

    def seq_write_side(self, name):
        body = self.impl_body(r"impl Writeable for %s\s*\{" % name)
        fx = []
        tail = ("TNone", [])
        stmts = re.split(r";\s*\n", body)
        pos_tlv = body.find("encode_tlv_stream!")
        pre = body if pos_tlv < 0 else body[:pos_tlv]
        for st in re.split(r";", pre):
            st = st.strip()
            m = re.search(r"self\.([\w.]+)\.write\(w\)\?$", st)
            if m:
                path = m.group(1).split(".")
                ty = self.field_type(name, path)
                if ty in self.seq_inline:
                    sub = self.seq_write_side(ty)
                    fx += sub["fixed"]
                    tail = sub["tail"]
                else:
                    fx.append((path[-1], self.codec_of_type(ty)))
                continue
            m = re.search(r"w\.write_all\(&self\.(\w+)\[\.\.\]\)\?$", st)
            if m:
                tail = ("TRest", m.group(1))
                continue
            if re.search(r"\bwrite\b|\bwrite_all\b", st) and "fn write" not in st:
                raise Refused("unsupported write statement in %s: %s" % (name, st[-80:]))
        if pos_tlv >= 0:
            i = body.index("{", pos_tlv)
            j = balanced(body, i)
            tl = self.parse_tlvs(body[i + 1:j - 1], lambda f: self.deep_field_type(name, f))
            tail = ("TTlv", tl)
        return {"fixed": fx, "tail": tail}

    def deep_field_type(self, struct, fname):
        """type of the field called fname in struct or in one of its nested `common_fields`"""
        fields = dict(self.structs.get(struct, []))
        if fname in fields:
            return fields[fname]
        for f, ty in self.structs.get(struct, []):
            if ty in self.structs and fname in dict(self.structs[ty]):
                return dict(self.structs[ty])[fname]
        raise Refused("no field %s in %s" % (fname, struct))

    def seq_read_side(self, name):
        body = self.impl_body(r"impl LengthReadable for %s\s*\{" % name)
        fx = []
        tail = ("TNone", [])
        pos_tlv = body.find("decode_tlv_stream!")
        pre = body if pos_tlv < 0 else body[:pos_tlv]
        lets = {}
        matched = False
        for m in re.finditer(r"let\s+(mut\s+)?(\w+)\s*:\s*([^=;]+?)\s*=\s*([^;]+);", pre):
            mut, nm, ty, rhs = m.group(1), m.group(2), m.group(3).strip(), m.group(4).strip()
            if mut:
                lets[nm] = ty
                continue
            if rhs == "Readable::read(r)?":
                fx.append((nm, self.codec_of_type(ty)))
                matched = True
            else:
                raise Refused("unsupported read statement in %s: let %s = %s" % (name, nm, rhs))
        if not matched:
            # struct-literal form:  field: Readable::read(r)?,
            for m in re.finditer(r"(\w+)\s*:\s*(Readable::read\(r\)\?|LengthReadable::read_from_fixed_length_buffer\(r\)\?|read_to_end\(r\)\?)", pre):
                nm, rhs = m.group(1), m.group(2)
                ty = self.field_type(name, [nm])
                if rhs.startswith("read_to_end"):
                    tail = ("TRest", nm)
                elif ty in self.seq_inline:
                    sub = self.seq_read_side(ty)
                    fx += sub["fixed"]
                    tail = sub["tail"]
                else:
                    # the type read is the struct field's type (type inference from the struct literal)
                    fx.append((nm, self.codec_of_type(ty)))
        if pos_tlv >= 0:
            i = body.index("{", pos_tlv)
            j = balanced(body, i)

            def tof(f):
                if f not in lets:
                    raise Refused("%s: TLV variable %s has no typed `let mut`" % (name, f))
                return lets[f]
            tail = ("TTlv", self.parse_tlvs(body[i + 1:j - 1], tof))
        return {"fixed": fx, "tail": tail}

    seq_inline = ("UnsignedChannelAnnouncement",)
    SEQUENTIAL = ["OpenChannel", "AcceptChannel", "OpenChannelV2", "AcceptChannelV2", "ChannelAnnouncement"]

    def sequential_schemas(self):
        res = {}
        for name in self.SEQUENTIAL:
            res[name] = {"write": self.seq_write_side(name), "read": self.seq_read_side(name),
                         "source": "hand-written sequential impl",
                         "span": hashlib.sha256((self.impl_body(r"impl Writeable for %s\s*\{" % name) + self.impl_body(r"impl LengthReadable for %s\s*\{" % name)).encode()).hexdigest()[:12]}
        return res

    # ---- irregular codecs modelled by hand, pinned to the text of the Rust impl
    HAND = {
        "ErrorMessage": {"fixed": [("channel_id", B("BBytes 32")), ("data", B("BUtf8"))], "tail": ("TNone", [])},
        "WarningMessage": {"fixed": [("channel_id", B("BBytes 32")), ("data", B("BUtf8"))], "tail": ("TNone", [])},
        # blinding point, then u16 length + onion_message::packet::Packet read inside a FixedLengthReader
        "OnionMessage": {"fixed": [("blinding_point", B("BPk")), ("onion_routing_packet", B("BOmPacket"))], "tail": ("TNone", [])},
    }
    # further impl texts (other files) a hand model depends on: (file, regex of the impl header)
    HAND_EXTRA = {
        "OnionMessage": [("lightning/src/onion_message/packet.rs", r"impl Writeable for Packet\s*\{"),
                         ("lightning/src/onion_message/packet.rs", r"impl LengthReadable for Packet\s*\{")],
    }
    HAND_HASH_FILE = os.path.join(os.path.dirname(os.path.abspath(__file__)), "hand_hashes.json")

    def hand_schemas(self):
        import json
        res = {}
        try:
            pinned = json.load(open(self.HAND_HASH_FILE))
        except FileNotFoundError:
            pinned = {}
        self.hand_hashes = {}
        for name, side in self.HAND.items():
            txt = self.impl_body(r"impl Writeable for %s\s*\{" % name) + self.impl_body(r"impl LengthReadable for %s\s*\{" % name)
            for (f, hdr) in self.HAND_EXTRA.get(name, []):
                src = strip_comments(open(os.path.join(self.repo, f)).read())
                m = re.search(hdr, src)
                if not m:
                    raise Refused("hand-modelled codec of %s: impl `%s` not found in %s" % (name, hdr, f))
                i = src.index("{", m.end() - 1)
                txt += src[i:balanced(src, i)]
            h = hashlib.sha256(re.sub(r"\s+", " ", txt).encode()).hexdigest()[:16]
            self.hand_hashes[name] = h
            if name in pinned and pinned[name] != h:
                raise Refused("hand-modelled codec of %s: the Rust impl text changed (pinned %s, now %s); the hand model must be re-validated" % (name, pinned[name], h))
            res[name] = {"write": side, "read": side, "source": "hand model pinned to impl text hash " + h, "span": h}
        return res

    def extract(self):
        all_ = {}
        all_.update(self.macro_schemas())
        all_.update(self.sequential_schemas())
        all_.update(self.hand_schemas())
        out = []
        for name in self.dispatch:
            if name in self.cfg_gated:
                continue  # cfg(simple_close) is off in every build we make
            if name not in self.types:
                raise Refused("no TYPE constant for dispatched message " + name)
            if name in all_ and any(c == "FOpaque" for side in ("write", "read") for (_, c) in all_[name][side]["fixed"]):
                del all_[name]  # a fixed field this development does not model: correspondence only
            if name in all_:
                d = dict(all_[name])
                d["name"] = name
                d["type"] = self.types[name]
                out.append(d)
        unmodelled = [n for n in self.dispatch if n not in all_ and n not in self.cfg_gated]
        return out, unmodelled


# ------------------------------------------------------------------ rendering
def coq_str(s):
    return '"' + s + '"'


def render_side(side):
    fx = "[" + "; ".join("(%s, %s)" % (coq_str(n), c) for n, c in side["fixed"]) + "]"
    kind, tl = side["tail"]
    if kind == "TTlv":
        ents = "[" + "; ".join("mk_entry %d %s (%s)" % (t, k, c) for (t, n, k, c) in tl) + "]"
        names = "[" + "; ".join(coq_str(n) for (t, n, k, c) in tl) + "]"
        return "mk_side %s (TTlv %s) %s" % (fx, ents, names)
    if kind == "TRest":
        return "mk_side %s TRest [%s]" % (fx, coq_str(tl))
    return "mk_side %s TNone []" % fx


def render_coq(schemas, unmodelled):
    lines = ["(** GENERATED by tools/codec/schemas.py from lightning/src/ln/{msgs,wire}.rs -- do not edit.",
             "    One schema per wire message whose codec the schema language describes; the write side and",
             "    the read side are extracted separately. *)",
             "Require Import LdkV.Prim.U64 LdkV.Codec.Combinators LdkV.Codec.Tlv LdkV.Codec.Wire.",
             "Local Open Scope Z_scope.", "Local Open Scope string_scope.", ""]
    for s in schemas:
        lines.append("(* %s: %s, text hash %s *)" % (s["name"], s["source"], s["span"]))
        lines.append("Definition s_%s : schema := mk_schema %s %d\n  (%s)\n  (%s)." % (
            s["name"], coq_str(s["name"]), s["type"], render_side(s["write"]), render_side(s["read"])))
    lines.append("")
    lines.append("Definition all_schemas : list schema := [" + "; ".join("s_" + s["name"] for s in schemas) + "].")
    lines.append("(* dispatched by wire::read but not described by a schema (correspondence only): %s *)" % ", ".join(unmodelled))
    lines.append("Definition unmodelled_types : list Z := [%s]." % "; ".join("%d" % t for t in sorted(unmodelled_types(unmodelled))))
    return "\n".join(lines) + "\n"


_LAST = {}


def unmodelled_types(names):
    return [_LAST["types"][n] for n in names if n in _LAST.get("types", {})]


DECODER_SOURCES = ["lightning/src/util/ser.rs", "lightning/src/ln/msgs.rs", "lightning/src/onion_message/packet.rs", "lightning/src/ln/wire.rs"]


def length_constants(repo):
    """Buffer / chunk / limit constants visible in the decoder sources: named `const X: usize|u16|u32|u64 = expr;`
    with a constant-foldable value, and integer literals >= 256 in non-test code. Returns {value: [where...]}."""
    found = {}
    for f in DECODER_SOURCES:
        src = strip_comments(open(os.path.join(repo, f)).read())
        cut = src.find("#[cfg(test)]\nmod tests")
        if cut > 0:
            src = src[:cut]
        for m in re.finditer(r"const\s+(\w+)\s*:\s*(?:usize|u16|u32|u64)\s*=\s*([^;]+);", src):
            expr = m.group(2).strip().replace("_", "")
            if re.fullmatch(r"[\dxXa-fA-F\s()+*/-]+", expr):
                try:
                    v = int(eval(expr.replace("/", "//")))
                except Exception:
                    continue
                if 16 <= v <= 1 << 20 and m.group(1) != "TYPE":  # wire message type ids are not lengths
                    found.setdefault(v, []).append("%s:%s" % (os.path.basename(f), m.group(1)))
        for m in re.finditer(r"(?<![\w.])(0x[0-9a-fA-F_]+|\d[\d_]*)(?:u8|u16|u32|u64|usize)?(?![\w.])", src):
            t = m.group(1).replace("_", "")
            try:
                v = int(t, 16) if t.startswith("0x") else int(t)
            except ValueError:
                continue
            before = src[max(0, m.start() - 2):m.start()].strip()
            after = src[m.end():m.end() + 1]
            if before.endswith("(") and after == ",":
                continue  # `(NNN, field, kind)`: a TLV type number
            if 1024 <= v <= 1 << 17:
                found.setdefault(v, [])
                if len(found[v]) < 3:
                    found[v].append("%s:literal" % os.path.basename(f))
    return found


def length_thresholds(consts, cap=1 << 18):
    t = set()
    for k in consts:
        for v in (k - 1, k, k + 1, 2 * k - 1, 2 * k + 1):
            if 0 <= v <= cap:
                t.add(v)
    return sorted(t)


def generate(repo):
    ex = Extractor(repo)
    schemas, unmodelled = ex.extract()
    _LAST["types"] = ex.types
    text = render_coq(schemas, unmodelled)
    consts = length_constants(repo)
    meta = {"schemas": schemas, "unmodelled": unmodelled, "types": ex.types, "hand_hashes": ex.hand_hashes,
            "length_constants": {str(k): v for k, v in sorted(consts.items())}, "length_thresholds": length_thresholds(consts)}
    return text, meta


if __name__ == "__main__":
    import sys
    import json
    t, meta = generate(sys.argv[1] if len(sys.argv) > 1 else "/repo")
    if "--pin" in sys.argv:
        json.dump(meta["hand_hashes"], open(Extractor.HAND_HASH_FILE, "w"), indent=1)
    print(t)
    print("(* unmodelled:", meta["unmodelled"], "*)")
