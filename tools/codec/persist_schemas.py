"""Persistence schema extractor (C12): TLV numbers and kinds of every `impl_ser_tlv_based!`,
`impl_writeable_tlv_based!`, `impl_ser_tlv_based_enum*!` / `impl_writeable_tlv_based_enum_upgradable*!`
variant, and of every `write_tlv_fields!` / `read_tlv_fields!` block under lightning/src.

Field value codecs are NOT extracted here (persisted field types are arbitrary nested objects): every
field is given the codec `FRest` (= "the field's own bytes"), so the theorems instantiated on these
schemas are about the TLV FRAMING: every field's bytes come back under the right field, whatever
they are.  `write_tlv_fields!` blocks are paired with the `read_tlv_fields!` block of the same file
that shares most type numbers; for a pair: every written type must be read, and every type the
reader requires must be written unconditionally.
"""
import os
import re

from codec.schemas import strip_comments, balanced, Refused

MACROS_STRUCT = ["impl_ser_tlv_based", "impl_writeable_tlv_based"]
MACROS_ENUM = ["impl_ser_tlv_based_enum", "impl_ser_tlv_based_enum_legacy",
               "impl_writeable_tlv_based_enum_upgradable", "impl_writeable_tlv_based_enum_upgradable_legacy"]


def kind_class(k):
    """-> (Coq kind or None if not on the wire, always_written, reader_requires)"""
    k = k.strip()
    head = re.match(r"\(?\s*(\w+)", k).group(1)
    if head == "static_value":
        return None
    if head in ("required", "required_vec", "upgradable_required"):
        return ("KReq", True, True)
    if head in ("default_value", "default_value_vec"):
        return ("KDefault [VB []]", True, False)
    if head in ("option", "upgradable_option", "legacy"):
        return ("KOpt", False, False)
    if head == "custom":
        return ("KOpt", False, False)
    if head == "optional_vec":
        return ("KOptVec", False, False)
    raise Refused("unknown TLV field kind `%s`" % k)


def split_top(s, sep=","):
    """split at top level of () [] {} (angle brackets are NOT counted: `<` also is an operator)"""
    out, d, cur = [], 0, ""
    for ch in s:
        if ch in "([{":
            d += 1
        elif ch in ")]}":
            d -= 1
        if ch == sep and d == 0:
            out.append(cur)
            cur = ""
        else:
            cur += ch
    if cur.strip():
        out.append(cur)
    return [x.strip() for x in out if x.strip()]


def parse_entries(body, where):
    out = []
    for ent in split_top(body):
        if not ent.startswith("("):
            raise Refused("%s: TLV entry not a tuple: %s" % (where, ent[:60]))
        parts = split_top(ent[1:-1])
        if len(parts) < 3:
            raise Refused("%s: TLV entry arity: %s" % (where, ent[:60]))
        t, name, kind = parts[0], parts[1], ",".join(parts[2:])
        if kind_class(kind) is None:
            continue
        try:
            t = int(t.replace("_", ""))
        except ValueError:
            raise Refused("%s: non-literal TLV type `%s`" % (where, t))
        kc = kind_class(kind)
        if kc is None:
            continue
        nm = re.sub(r"[^\w.]", "", name.split("=")[0])[:40]
        out.append((t, nm, kc))
    return out


def extract(repo):
    root = os.path.join(repo, "lightning", "src")
    schemas = []   # (name, entries)
    pairs = []     # (name, write entries, read entries)
    for dp, dn, fn in sorted(os.walk(root)):
        dn.sort()
        for f in sorted(fn):
            if not f.endswith(".rs") or f == "ser_macros.rs":
                continue
            path = os.path.join(dp, f)
            rel = os.path.relpath(path, repo)
            src = strip_comments(open(path).read())
            for mac in MACROS_STRUCT:
                for m in re.finditer(r"(?<![\w_])%s!\s*\(" % mac, src):
                    end = balanced(src, m.end() - 1, "(", ")")
                    inner = src[m.end():end - 1]
                    i = inner.find("{")
                    if i < 0:
                        continue
                    j = balanced(inner, i)
                    tyname = re.sub(r"\s+", "", inner[:i].split(",")[0])
                    schemas.append(("%s:%s" % (os.path.basename(rel), tyname), parse_entries(inner[i + 1:j - 1], rel + ":" + tyname)))
            for mac in MACROS_ENUM:
                for m in re.finditer(r"(?<![\w_])%s!\s*\(" % mac, src):
                    end = balanced(src, m.end() - 1, "(", ")")
                    inner = src[m.end():end - 1]
                    tyname = re.sub(r"\s+", "", inner.split(",")[0])
                    for vm in re.finditer(r"\(\s*(\d+)\s*,\s*(\w+)\s*\)\s*=>\s*\{", inner):
                        i = vm.end() - 1
                        j = balanced(inner, i)
                        schemas.append(("%s:%s::%s" % (os.path.basename(rel), tyname, vm.group(2)),
                                        parse_entries(inner[i + 1:j - 1], "%s:%s::%s" % (rel, tyname, vm.group(2)))))
            ws, rs = [], []
            for mac, acc in (("write_tlv_fields", ws), ("read_tlv_fields", rs)):
                for m in re.finditer(r"(?<![\w_])%s!\s*\(" % mac, src):
                    end = balanced(src, m.end() - 1, "(", ")")
                    inner = src[m.end():end - 1]
                    i = inner.find("{")
                    j = balanced(inner, i)
                    acc.append((m.start(), parse_entries(inner[i + 1:j - 1], "%s:%s@%d" % (rel, mac, m.start()))))
            used = set()
            for wi, (wpos, went) in enumerate(ws):
                wt = set(t for t, _, _ in went)
                best, bscore = None, -1.0
                for ri, (rpos, rent) in enumerate(rs):
                    rt = set(t for t, _, _ in rent)
                    score = len(wt & rt) / float(len(wt | rt) or 1)
                    if not wt and not rt:
                        score = 0.5
                    if score > bscore:
                        best, bscore = ri, score
                if best is not None and (bscore > 0 or not wt):
                    pairs.append(("%s:write_tlv_fields#%d" % (os.path.basename(rel), wi), went, rs[best][1]))
                    used.add(best)
                schemas.append(("%s:write_tlv_fields#%d" % (os.path.basename(rel), wi), went))
            for ri, (rpos, rent) in enumerate(rs):
                schemas.append(("%s:read_tlv_fields#%d" % (os.path.basename(rel), ri), rent))
    return schemas, pairs


# ------------------------------------------------------------------ field pins (write expression <-> read target)
WRITE_MACROS = ["write_tlv_fields", "encode_tlv_stream", "_encode_varint_length_prefixed_tlv"]
READ_MACROS = ["read_tlv_fields", "_init_and_read_len_prefixed_tlv_fields", "_init_and_read_tlv_stream", "decode_tlv_stream",
               "decode_tlv_stream_with_custom_tlv_decode"]
PINS_FILE = os.path.join(os.path.dirname(os.path.abspath(__file__)), "persist_pins.json")


def raw_entries(body):
    """[(type:int, expr:str, kind:str)] of the literal-typed, on-the-wire entries of a TLV block"""
    out = []
    for ent in split_top(body):
        if not ent.startswith("("):
            continue
        parts = split_top(ent[1:-1])
        if len(parts) < 3:
            continue
        kind = ",".join(parts[2:])
        try:
            if kind_class(kind) is None:
                continue
            t = int(parts[0].replace("_", ""))
        except (Refused, ValueError, AttributeError):
            continue
        out.append((t, re.sub(r"\s+", " ", parts[1].strip()), re.sub(r"\s+", " ", kind.strip())))
    return out


def field_name(expr):
    """`htlc.mpp_part.sender_intended_value` / `&self.foo` / `self.foo.as_ref().map(|x| ..)` / `foo_opt` -> `foo`-like
    last identifier of the accessed place, without wrappers and the conventional read-side suffixes."""
    e = expr.strip()
    e = re.sub(r"^\(?\s*&?\s*", "", e)
    e = re.sub(r"\.(as_ref|as_mut|clone|cloned|as_slice|iter|borrow|lock|unwrap|read|deref)\(\).*$", "", e)
    e = re.sub(r"\.map\(.*$", "", e)
    m = re.match(r"^(?:Some|WithoutLength|Iterable|RequiredWrapper)\s*\(\s*&?\s*(.*?)\s*\)?$", e)
    if m:
        e = m.group(1)
    e = e.lstrip("&* ")
    ids = re.findall(r"[A-Za-z_]\w*", e.split("(")[0])
    name = ids[-1] if ids else e
    if name == "0" and len(ids) > 1:
        name = ids[-2]
    for suf in ("_opt", "_ser", "_read", "_option", "_wrapped", "_maybe"):
        if name.endswith(suf) and len(name) > len(suf):
            name = name[:-len(suf)]
    for pre in ("maybe_", "opt_", "_"):
        if name.startswith(pre) and len(name) > len(pre):
            name = name[len(pre):]
    return name


def extract_pins(repo):
    """Pairs every hand-written write-side TLV block with the read-side block of the same file that shares most
    type numbers (both ways best match, Jaccard >= 0.6) and lists, for each type present on both sides, the
    expression written and the variable read into."""
    root = os.path.join(repo, "lightning", "src")
    pins = []
    for dp, dn, fn in sorted(os.walk(root)):
        dn.sort()
        for f in sorted(fn):
            if not f.endswith(".rs") or f == "ser_macros.rs":
                continue
            rel = os.path.relpath(os.path.join(dp, f), repo)
            src = strip_comments(open(os.path.join(dp, f)).read())
            cut = src.find("\n#[cfg(test)]\nmod tests")
            if cut > 0:
                src = src[:cut]
            blocks = {"w": [], "r": []}
            for side, macs in (("w", WRITE_MACROS), ("r", READ_MACROS)):
                for mac in macs:
                    for m in re.finditer(r"(?<![\w_!])%s!\s*\(" % mac, src):
                        try:
                            end = balanced(src, m.end() - 1, "(", ")")
                        except (Refused, AssertionError):
                            continue
                        inner = src[m.end():end - 1]
                        i = inner.find("{")
                        if i < 0:
                            continue
                        try:
                            j = balanced(inner, i)
                        except (Refused, AssertionError):
                            continue
                        ents = raw_entries(inner[i + 1:j - 1])
                        if ents:
                            blocks[side].append((m.start(), ents))
            def jac(a, b):
                ta, tb = set(t for t, _, _ in a), set(t for t, _, _ in b)
                return len(ta & tb) / float(len(ta | tb) or 1)
            for wi, (wpos, went) in enumerate(blocks["w"]):
                scores = [(jac(went, rent), -abs(rpos - wpos), ri) for ri, (rpos, rent) in enumerate(blocks["r"])]
                if not scores:
                    continue
                sc, _, ri = max(scores)
                if sc < 0.6:
                    continue
                # best match the other way round too
                back = max((jac(w2, blocks["r"][ri][1]), -abs(p2 - blocks["r"][ri][0]), k) for k, (p2, w2) in enumerate(blocks["w"]))
                if back[2] != wi:
                    continue
                rd = dict((t, (e, k)) for t, e, k in blocks["r"][ri][1])
                for t, wexpr, wkind in went:
                    if t in rd:
                        rident = rd[t][0]
                        pins.append({"file": os.path.basename(rel), "type": t, "write": wexpr, "read": rident,
                                     "wname": field_name(wexpr), "rname": field_name(rident)})
    return pins


def check_pins(pins):
    """-> (violations, n_name_matches, n_allowlisted). A pin is fine when the written place and the read target have the
    same (normalised) name, or when the exact (file, type, write expr, read ident) is in the pinned allowlist."""
    import json
    try:
        allow = set(tuple(x) for x in json.load(open(PINS_FILE)))
    except FileNotFoundError:
        allow = set()
    bad, nm, na = [], 0, 0
    for p in pins:
        if p["wname"] == p["rname"]:
            nm += 1
        elif (p["file"], p["type"], p["write"], p["read"]) in allow:
            na += 1
        else:
            bad.append(p)
    return bad, nm, na


def extract_versions(repo):
    """(file, SERIALIZATION_VERSION, MIN_SERIALIZATION_VERSION) of every persisted top-level object"""
    root = os.path.join(repo, "lightning", "src")
    out = []
    for dp, dn, fn in sorted(os.walk(root)):
        dn.sort()
        for f in sorted(fn):
            if not f.endswith(".rs"):
                continue
            src = strip_comments(open(os.path.join(dp, f)).read())
            v = re.search(r"const\s+SERIALIZATION_VERSION\s*:\s*u8\s*=\s*(\d+)\s*;", src)
            m = re.search(r"const\s+MIN_SERIALIZATION_VERSION\s*:\s*u8\s*=\s*(\d+)\s*;", src)
            if v and m:
                out.append((f, int(v.group(1)), int(m.group(1))))
            elif v or m:
                raise Refused("%s: only one of SERIALIZATION_VERSION / MIN_SERIALIZATION_VERSION found" % f)
    return out


def render(schemas, pairs, pins=None, allow=None, versions=None):
    L = ["(** GENERATED by tools/codec/persist_schemas.py from lightning/src -- do not edit.",
         "    TLV numbers and kinds of every persistence macro invocation; field codecs are FRest (framing only). *)",
         "Require Import LdkV.Prim.U64 LdkV.Codec.Combinators LdkV.Codec.Tlv.",
         "Local Open Scope Z_scope.", "Local Open Scope string_scope.", "",
         "Definition persist_schemas : list (string * list entry) := ["]
    rows = []
    for name, ents in schemas:
        rows.append('  ("%s", [%s])' % (name.replace('"', ""), "; ".join("mk_entry %d (%s) FRest" % (t, kc[0]) for (t, n, kc) in ents)))
    L.append(";\n".join(rows))
    L.append("].")
    if pins is not None:
        L.append("")
        L.append("(** Field pins of the hand-written TLV blocks: (file, TLV type, place written, variable read into, allowlisted).")
        L.append("    [wname]/[rname] are the normalised names; a pin holds when they are equal or the exact pair is in the")
        L.append("    pinned allowlist tools/codec/persist_pins.json. *)")
        L.append("Definition persist_field_pins : list (string * Z * string * string * bool) := [")
        rows = []
        for p in pins:
            ok = (p["file"], p["type"], p["write"], p["read"]) in (allow or set())
            rows.append('  ("%s", %d, "%s", "%s", %s)' % (p["file"], p["type"], p["wname"], p["rname"], "true" if ok else "false"))
        L.append(";\n".join(rows))
        L.append("].")
        L.append("Definition pin_ok (p : string * Z * string * string * bool) : bool :=")
        L.append("  let '(_, _, w, r, allowlisted) := p in String.eqb w r || allowlisted.")
    if versions is not None:
        L.append("")
        L.append("(** (file, SERIALIZATION_VERSION, MIN_SERIALIZATION_VERSION) of every persisted top-level object *)")
        L.append("Definition persist_versions : list (string * Z * Z) := [" + "; ".join('("%s", %d, %d)' % v for v in versions) + "].")
    return "\n".join(L) + "\n"


def generate(repo):
    schemas, pairs = extract(repo)
    pins = extract_pins(repo)
    import json
    try:
        allow = set(tuple(x) for x in json.load(open(PINS_FILE)))
    except FileNotFoundError:
        allow = set()
    bad, nm, na = check_pins(pins)
    versions = extract_versions(repo)
    return render(schemas, pairs, pins, allow, versions), {"versions": versions,"n_pins": len(pins), "n_pin_name_matches": nm, "n_pin_allowlisted": na,
                                    "pin_violations": [{k: p[k] for k in ("file", "type", "write", "read")} for p in bad],"n_schemas": len(schemas), "n_pairs": len(pairs),
                                    "n_entries": sum(len(e) for _, e in schemas),
                                    "names": [n for n, _ in schemas]}


if __name__ == "__main__":
    import sys
    sys.path.insert(0, os.path.dirname(os.path.dirname(os.path.abspath(__file__))))
    if "--pin" in sys.argv:
        import json
        pins = extract_pins(sys.argv[1])
        json.dump(sorted([p["file"], p["type"], p["write"], p["read"]] for p in pins if p["wname"] != p["rname"]), open(PINS_FILE, "w"), indent=0)
    t, meta = generate(sys.argv[1] if len(sys.argv) > 1 else "/repo")
    print(t[:3000])
    print(meta["n_schemas"], meta["n_pairs"], meta["n_entries"])
