"""Persistence schema extractor (C12): TLV numbers and kinds of every `impl_ser_tlv_based!`,
`impl_writeable_tlv_based!`, `impl_ser_tlv_based_enum*!` / `impl_writeable_tlv_based_enum_upgradable*!`
variant, and of every `write_tlv_fields!` / `read_tlv_fields!` block under lightning/src.

Field value codecs are NOT extracted here (persisted field types are arbitrary nested objects): every
field is given the codec `FRest` (= "the field's own bytes"), so the theorems instantiated on these
schemas are about the TLV FRAMING: every field's bytes come back under the right field, whatever
they are.  `write_tlv_fields!` blocks are paired with the `read_tlv_fields!` block of the same file
that shares most type numbers; for a pair: every written type must be read, and every type the
reader requires must be written unconditionally.
"""
import os
import re

from codec.schemas import strip_comments, balanced, Refused

MACROS_STRUCT = ["impl_ser_tlv_based", "impl_writeable_tlv_based"]
MACROS_ENUM = ["impl_ser_tlv_based_enum", "impl_ser_tlv_based_enum_legacy",
               "impl_writeable_tlv_based_enum_upgradable", "impl_writeable_tlv_based_enum_upgradable_legacy"]


def kind_class(k):
    """-> (Coq kind or None if not on the wire, always_written, reader_requires)"""
    k = k.strip()
    head = re.match(r"\(?\s*(\w+)", k).group(1)
    if head == "static_value":
        return None
    if head in ("required", "required_vec", "upgradable_required"):
        return ("KReq", True, True)
    if head in ("default_value", "default_value_vec"):
        return ("KDefault [VB []]", True, False)
    if head in ("option", "upgradable_option", "legacy"):
        return ("KOpt", False, False)
    if head == "custom":
        return ("KOpt", False, False)
    if head == "optional_vec":
        return ("KOptVec", False, False)
    raise Refused("unknown TLV field kind `%s`" % k)


def split_top(s, sep=","):
    """split at top level of () [] {} (angle brackets are NOT counted: `<` also is an operator)"""
    out, d, cur = [], 0, ""
    for ch in s:
        if ch in "([{":
            d += 1
        elif ch in ")]}":
            d -= 1
        if ch == sep and d == 0:
            out.append(cur)
            cur = ""
        else:
            cur += ch
    if cur.strip():
        out.append(cur)
    return [x.strip() for x in out if x.strip()]


def parse_entries(body, where):
    out = []
    for ent in split_top(body):
        if not ent.startswith("("):
            raise Refused("%s: TLV entry not a tuple: %s" % (where, ent[:60]))
        parts = split_top(ent[1:-1])
        if len(parts) < 3:
            raise Refused("%s: TLV entry arity: %s" % (where, ent[:60]))
        t, name, kind = parts[0], parts[1], ",".join(parts[2:])
        if kind_class(kind) is None:
            continue
        try:
            t = int(t.replace("_", ""))
        except ValueError:
            raise Refused("%s: non-literal TLV type `%s`" % (where, t))
        kc = kind_class(kind)
        if kc is None:
            continue
        nm = re.sub(r"[^\w.]", "", name.split("=")[0])[:40]
        out.append((t, nm, kc))
    return out


def extract(repo):
    root = os.path.join(repo, "lightning", "src")
    schemas = []   # (name, entries)
    pairs = []     # (name, write entries, read entries)
    for dp, dn, fn in sorted(os.walk(root)):
        dn.sort()
        for f in sorted(fn):
            if not f.endswith(".rs") or f == "ser_macros.rs":
                continue
            path = os.path.join(dp, f)
            rel = os.path.relpath(path, repo)
            src = strip_comments(open(path).read())
            for mac in MACROS_STRUCT:
                for m in re.finditer(r"(?<![\w_])%s!\s*\(" % mac, src):
                    end = balanced(src, m.end() - 1, "(", ")")
                    inner = src[m.end():end - 1]
                    i = inner.find("{")
                    if i < 0:
                        continue
                    j = balanced(inner, i)
                    tyname = re.sub(r"\s+", "", inner[:i].split(",")[0])
                    schemas.append(("%s:%s" % (os.path.basename(rel), tyname), parse_entries(inner[i + 1:j - 1], rel + ":" + tyname)))
            for mac in MACROS_ENUM:
                for m in re.finditer(r"(?<![\w_])%s!\s*\(" % mac, src):
                    end = balanced(src, m.end() - 1, "(", ")")
                    inner = src[m.end():end - 1]
                    tyname = re.sub(r"\s+", "", inner.split(",")[0])
                    for vm in re.finditer(r"\(\s*(\d+)\s*,\s*(\w+)\s*\)\s*=>\s*\{", inner):
                        i = vm.end() - 1
                        j = balanced(inner, i)
                        schemas.append(("%s:%s::%s" % (os.path.basename(rel), tyname, vm.group(2)),
                                        parse_entries(inner[i + 1:j - 1], "%s:%s::%s" % (rel, tyname, vm.group(2)))))
            ws, rs = [], []
            for mac, acc in (("write_tlv_fields", ws), ("read_tlv_fields", rs)):
                for m in re.finditer(r"(?<![\w_])%s!\s*\(" % mac, src):
                    end = balanced(src, m.end() - 1, "(", ")")
                    inner = src[m.end():end - 1]
                    i = inner.find("{")
                    j = balanced(inner, i)
                    acc.append((m.start(), parse_entries(inner[i + 1:j - 1], "%s:%s@%d" % (rel, mac, m.start()))))
            used = set()
            for wi, (wpos, went) in enumerate(ws):
                wt = set(t for t, _, _ in went)
                best, bscore = None, -1.0
                for ri, (rpos, rent) in enumerate(rs):
                    rt = set(t for t, _, _ in rent)
                    score = len(wt & rt) / float(len(wt | rt) or 1)
                    if not wt and not rt:
                        score = 0.5
                    if score > bscore:
                        best, bscore = ri, score
                if best is not None and (bscore > 0 or not wt):
                    pairs.append(("%s:write_tlv_fields#%d" % (os.path.basename(rel), wi), went, rs[best][1]))
                    used.add(best)
                schemas.append(("%s:write_tlv_fields#%d" % (os.path.basename(rel), wi), went))
            for ri, (rpos, rent) in enumerate(rs):
                schemas.append(("%s:read_tlv_fields#%d" % (os.path.basename(rel), ri), rent))
    return schemas, pairs


def render(schemas, pairs):
    L = ["(** GENERATED by tools/codec/persist_schemas.py from lightning/src -- do not edit.",
         "    TLV numbers and kinds of every persistence macro invocation; field codecs are FRest (framing only). *)",
         "Require Import LdkV.Prim.U64 LdkV.Codec.Combinators LdkV.Codec.Tlv.",
         "Local Open Scope Z_scope.", "Local Open Scope string_scope.", "",
         "Definition persist_schemas : list (string * list entry) := ["]
    rows = []
    for name, ents in schemas:
        rows.append('  ("%s", [%s])' % (name.replace('"', ""), "; ".join("mk_entry %d (%s) FRest" % (t, kc[0]) for (t, n, kc) in ents)))
    L.append(";\n".join(rows))
    L.append("].")
    return "\n".join(L) + "\n"


def generate(repo):
    schemas, pairs = extract(repo)
    return render(schemas, pairs), {"n_schemas": len(schemas), "n_pairs": len(pairs),
                                    "n_entries": sum(len(e) for _, e in schemas),
                                    "names": [n for n, _ in schemas]}


if __name__ == "__main__":
    import sys
    sys.path.insert(0, os.path.dirname(os.path.dirname(os.path.abspath(__file__))))
    t, meta = generate(sys.argv[1] if len(sys.argv) > 1 else "/repo")
    print(t[:3000])
    print(meta["n_schemas"], meta["n_pairs"], meta["n_entries"])
