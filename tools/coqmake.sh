#!/bin/bash
# usage: tools/coqmake.sh <target.vo>...   (targets relative to /verif/coq); takes the shared lock.
cd /verif && exec timeout ${COQMAKE_TIMEOUT:-1500} python3 - "$@" <<'PY'
import sys
sys.path.insert(0, "/verif/tools")
from vlib import core
ctx = core.Ctx("dev", "quick", 0)
ok, out = ctx.coq_make(sys.argv[1:])
print(out[-6000:])
sys.exit(0 if ok else 1)
PY
