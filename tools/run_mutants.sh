#!/bin/bash
# usage: tools/run_mutants.sh Cxx [N...]   -- runs ./check Cxx against each seeded mutant /verif/seeded/Cxx-N (copied from /tmp/mut-out/Cxx/N if absent)
P=$1; shift
MUTROOT=${MUTROOT:-/tmp/mut-out}
TAG=${TAG:-}
cd /verif
NS="$@"
if [ -z "$NS" ]; then NS=$(ls $MUTROOT/$P 2>/dev/null | grep -E '^[0-9]+$'); fi
WT=/tmp/wt-mut-$P
git -C /repo worktree remove --force $WT 2>/dev/null
git -C /repo worktree add --detach $WT HEAD >/dev/null 2>&1
for N in $NS; do
  D=/verif/seeded/$P-$TAG$N
  if [ ! -d $D ]; then mkdir -p $D; cp $MUTROOT/$P/$N/* $D/ 2>/dev/null; fi
  (cd $WT && git checkout -q -- . && git clean -fdq && git apply $D/patch.diff) || { echo "$P-$TAG$N PATCH-APPLY-FAILED" | tee $D/check_result.txt; continue; }
  rm -f replays/$P-*.json
  t0=$(date +%s)
  VERIF_REPO=$WT timeout 3000 ./check $P --tier quick > .cache/tmp/mut-$P-$TAG$N.log 2>&1
  rc=$?
  t1=$(date +%s)
  {
    echo "check: VERIF_REPO=<worktree of /repo $(git -C /repo rev-parse --short HEAD) + patch.diff> ./check $P --tier quick ; exit=$rc ; wall=$((t1-t0))s"
    grep -E "^VIOLATION|^KNOWN-FINDING" .cache/tmp/mut-$P-$TAG$N.log
    python3 - <<PY
import json,glob
for f in sorted(glob.glob('/verif/replays/$P-*.json')):
    r=json.load(open(f)); print('  what:', r.get('what','')[:300], '| failing_input_found:', r.get('failing_input_found'))
PY
  } > $D/check_result.txt
  echo "== $P-$TAG$N rc=$rc"; cat $D/check_result.txt | head -8
  rm -f replays/$P-*.json
done
git -C /repo worktree remove --force $WT
T=$(python3 -c "import hashlib;print(hashlib.sha256('$WT'.encode()).hexdigest()[:8])")
rm -rf /verif/.cache/target-$T /verif/.cache/harness-$T /verif/.cache/coq-$T /verif/.cache/evidence-$T
