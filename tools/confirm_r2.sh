#!/bin/bash
# usage: confirm_r2.sh <worker-id> <seeded dir>...   -- coordinator-side confirmation of seeded defects:
#   (1) demo applied alone: the demo test passes; (2) demo + patch: the patched tree compiles, the crate's WHOLE lib test
#   suite is run and the only failing test(s) are the demonstration's. Writes <dir>/confirm.log. Scratch worktree and
#   target dir live under /tmp and are removed at the end.
set -u
W=$1; shift
WT=/tmp/confirm-wt-$W
export CARGO_TARGET_DIR=/tmp/confirm-target-$W CARGO_NET_OFFLINE=true
git -C /repo worktree remove --force $WT 2>/dev/null
git -C /repo worktree add --detach $WT HEAD >/dev/null 2>&1
DIRS=""; for D in "$@"; do DIRS="$DIRS $(readlink -f $D)"; done
for D in $DIRS; do
  [ -f $D/confirm.log ] && continue
  read CRATE FILT FEAT < <(python3 - $D <<'PY'
import json,sys,re
m=json.load(open(sys.argv[1]+'/meta.json'))
cmd=m.get('demo_cmd','').strip()
filt=cmd.split()[-1]
feat=''
mm=re.search(r'--features[ =](\S+)',cmd)
if mm: feat=mm.group(1)
print(m.get('demo_crate','lightning'), filt, feat or '-')
PY
)
  FA=""; [ "$FEAT" != "-" ] && FA="--features $FEAT"
  cd $WT && git checkout -q -- . && git clean -fdq
  {
  echo "== base: $(git rev-parse --short HEAD) crate=$CRATE filter=$FILT features=$FEAT"
  git apply $D/demo.diff || echo "DEMO-APPLY-FAILED"
  echo "== demo WITHOUT patch"
  nice -n 5 cargo test -p $CRATE --offline --lib $FA -- "$FILT" 2>&1 | grep -E "^test |test result|^error" | head -20
  git apply $D/patch.diff || echo "PATCH-APPLY-FAILED"
  echo "== whole lib suite of $CRATE WITH patch + demo (expected: only the demonstration fails)"
  nice -n 5 cargo test -p $CRATE --offline --lib $FA 2>&1 | grep -E "^test .*FAILED|test result|^error|^failures:$" | sort -u | head -30
  } > $D/confirm.log 2>&1
  echo "[$W] $(basename $D): $(grep -c 'FAILED' $D/confirm.log) FAILED lines; $(grep 'test result' $D/confirm.log | tr '\n' ' ' | cut -c1-200)"
done
cd /; git -C /repo worktree remove --force $WT; rm -rf $CARGO_TARGET_DIR
