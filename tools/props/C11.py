"""C11 -- On-chain conclusions depend only on the chain, not on how it was delivered.

Coq: Model/ChainView.v (hand transliteration of the monitor's chain bookkeeping), Proofs/C11.v, Props/C11.v:
delivery independence on a chain, burial before irreversible conclusions (any op list), idempotence, shallow
forks leave no trace. Tie: harness h_chainview feeds serialized clones of REAL monitors the same chain under ten
delivery styles (incl. shallow fork detours) and judges them on the real monitors; the model is run on every
clone's operation list and must predict get_relevant_txids after every operation."""
import json
import os
import re
import subprocess
import time

from vlib import core

_HB = os.path.join(core.HARNESS, "src", "bin")
BINS = [b for b in ["h_chainview", "h_restartview"] if os.path.exists(os.path.join(_HB, b + ".rs"))]
LEVEL = "proof"
MANIFEST = {
    "category": "proof",
    "text": "Coq theorems over a model of the monitor's chain bookkeeping (transactions_confirmed, best_block_updated incl. reorg branch, block_confirmed maturation, blocks_disconnected, transaction_unconfirmed): all admissible deliveries of a chain give the same view; irreversible conclusions only ANTI_REORG_DELAY deep (any operation list); re-delivery is idempotent; forks shallower than ANTI_REORG_DELAY leave no trace, also when monitor updates arrive after the closing transaction confirmed (their entries are stamped with the spend's height and retracted with it). Real monitors are cloned and fed the same chain and the same monitor updates under ten delivery styles with fork detours (incl. rewinding ones) and every timing of the updates relative to confirmation and burial, judged on the real monitors (equal views at the tip, every awaiting entry stamped with the height and block of its transaction, nothing irreversible before burial), and the model must predict get_relevant_txids after every operation. Round 2: the boundary of a disconnection (the fork point's block is kept, for list entries and for the pending alternative funding), restart as an operation under which the view is invariant, and the any-input rule of the block filter (whole-block delivery finds what per-transaction delivery finds) are theorems; the clones are told chains with batched children in their parent's block (parent-spending input at any position), fork points exactly at confirmation blocks, pending splices and monitor restarts, and must show after every operation that a restart would conclude nothing before burial; a second harness restarts a real node (manager + monitors) at every depth around the confirmation of a close, with and without a shallow reorg, and compares it step by step with the same node not restarted.",
    "note": "Trusted: Coq kernel, rs2v (confirmation_threshold), harness + LDK test utilities. The model is hand-written and trace-validated; claim regeneration inside OnchainTxHandler after reorgs and the ChannelManager side are validated at the observables only.",
    "technique": "machine-checked proof in Coq (invariants over operation lists) + differential execution of real monitor clones under different chain deliveries, fork detours and restarts + differential execution of a real node with and without restart + per-operation model correspondence (get_relevant_txids, filter_block)",
}
KNOWN_WHAT = {
    "F2-unlisted-alternative-funding-survives-confirm-reorg": "a confirmed, not yet locked splice transaction is in nobody's get_relevant_txids once the channel is closed, and the reorg branch of best_block_updated does not forget it: after a reorganisation delivered through Confirm the monitor still takes the splice for confirmed",
    "F1-locktimed-packages-survive-reorg": "time-locked claim packages created when a commitment confirmed survive its disconnection; aggregated ones are duplicated on re-confirmation (debug assertion / duplicate claim)",
}
COQ_IMPORTS = ["LdkV.Prim.U64", "LdkV.Gen.Consts", "LdkV.Model.ChainView"]
PRELUDE = """
Open Scope Z_scope.
Fixpoint scan (st : state) (ops : list op) : list (list (Z * Z * Z)) :=
  match ops with [] => [] | o :: t => let st' := step st o in relevant_txids st' :: scan st' t end.
Definition B (id h : Z) : blk := mkBlk id h [].
"""
PRELUDE_F = """
Open Scope Z_scope.
"""


def anchored_height_stamp(repo):
    """Anchored extraction (textual): in `fail_htlcs_from_update_after_funding_spend` the queued
    OnchainEventEntry must take its `height` from the pending FundingSpendConfirmation entry (the spend's
    confirmation height), not from the best block. Returns None if so, else a description."""
    src = open(os.path.join(repo, "lightning/src/chain/channelmonitor.rs")).read()
    m = re.search(r"fn fail_htlcs_from_update_after_funding_spend.*?\n\t}\n", src, re.S)
    if not m:
        return "function fail_htlcs_from_update_after_funding_spend not found"
    body = m.group(0)
    if not re.search(r"\.map\(\|entry\|\s*\(entry\.txid,\s*entry\.transaction\.clone\(\),\s*entry\.height,\s*entry\.block_hash\)\)", body):
        return "the pending spend entry's height is no longer captured"
    lit = re.search(r"let entry = OnchainEventEntry \{(.*?)event:", body, re.S)
    if not lit or not re.search(r"\n\s*height,\n", lit.group(1)):
        return "the queued entry's `height` is not the captured spend height: %r" % (lit.group(1).strip()[:160] if lit else None)
    if not re.search(r"\n\s*block_hash,\n", lit.group(1)) or not re.search(r"\n\s*txid,\n", lit.group(1)):
        return "the queued entry's `txid` / `block_hash` are not those of the captured spend: %r" % lit.group(1).strip()[:160]
    return None


def generate(ctx):
    from vlib import gen
    metas, errors = gen.regen(ctx, ["CltvChecks", "Consts"])
    return getattr(ctx, "gen_meta", [])


def _run_parallel(ctx, first, count, procs, model, budget, binary="h_chainview"):
    exe = ctx.bin_path(binary)
    per = (count + procs - 1) // procs
    ps = []
    for i in range(procs):
        lo = first + i * per
        n = min(per, first + count - lo)
        if n <= 0:
            break
        cmd = "VERIF_DEADLINE_S=%d %s run %d %d %s 2>/dev/null | grep -a '^R '" % (budget, exe, lo, n, "model" if model else "")
        ps.append((lo, n, subprocess.Popen(["timeout", "2400", "bash", "-c", cmd], cwd=ctx.tmp, stdout=subprocess.PIPE, universal_newlines=True, errors="replace")))
    recs, missing = [], []
    for lo, n, p in ps:
        out, _ = p.communicate()
        got = []
        for l in out.split("\n"):
            if l.startswith("R {"):
                try:
                    got.append(json.loads(l[2:]))
                except ValueError:
                    pass
        recs += got
        seen = set(r.get("seed") for r in got)
        missing += [s for s in range(lo, lo + n) if s not in seen]
    return recs, missing


def _start_parallel(ctx, first, count, procs, budget, binary):
    """start only (collected later with _collect): lets the restart harness run beside the clone harness"""
    exe = ctx.bin_path(binary)
    per = (count + procs - 1) // procs
    ps = []
    for i in range(procs):
        lo = first + i * per
        n = min(per, first + count - lo)
        if n <= 0:
            break
        # (into a file: a pipe nobody reads until the other harness is done would fill up and stall it)
        outf = os.path.join(ctx.tmp, "%s_%d.out" % (binary, i))
        cmd = "VERIF_DEADLINE_S=%d %s run %d %d 2>/dev/null | grep -a '^R ' > %s" % (budget, exe, lo, n, outf)
        ps.append((lo, n, subprocess.Popen(["timeout", "2400", "bash", "-c", cmd], cwd=ctx.tmp), outf))
    return ps


def _collect(ps):
    recs, missing = [], []
    for lo, n, p, outf in ps:
        p.wait()
        got = []
        try:
            out = open(outf, errors="replace").read()
        except OSError:
            out = ""
        for l in out.split("\n"):
            if l.startswith("R {"):
                try:
                    got.append(json.loads(l[2:]))
                except ValueError:
                    pass
        recs += got
        seen = set(r.get("seed") for r in got)
        missing += [s for s in range(lo, lo + n) if s not in seen]
    return recs, missing


def filter_correspondence(ctx, recs, limit):
    """the kept positions `verif_filter_block` reported for real calls (watched outpoints, inputs of the
    transactions handed over) against `filter_positions` of Model/ChainView.v"""
    import ast
    cases = []
    seen = set()
    for r in recs:
        for f in r.get("filters", []) or []:
            if f not in seen:
                seen.add(f)
                cases.append((r["seed"], f))
    cases.sort(key=lambda c: (-c[1].count(";"), c[1]))
    # the richest first (most transactions per call), then a spread
    cases = cases[:limit // 2] + cases[limit // 2::max(1, (len(cases) - limit // 2) // max(1, limit // 2))][:limit // 2]
    if not cases:
        return [], 0
    exprs, exps = [], []
    for seed, f in cases:
        w, txs, got = f.split("|")
        wl = "; ".join("(%s, %s)" % tuple(o.split(".")) for o in w.split(",") if o)
        tl = []
        for t in txs.split(";"):
            me, ins = t.split(":")
            tl.append("mkF %s [%s] []" % (me, "; ".join("(%s, %s)" % tuple(i.split(".")) for i in ins.split(",") if i)))
        exprs.append("filter_positions [%s] [] 0 [%s]" % (wl, "; ".join(tl)))
        exps.append([int(x) for x in got.split(",") if x])
    vals = ctx.coq_eval("corr_filter", COQ_IMPORTS, exprs, prelude=PRELUDE_F, shards=min(core.NPROC, max(1, len(exprs) // 8)))
    dis = []
    for (seed, f), e, v in zip(cases, exps, vals):
        try:
            res = list(ast.literal_eval(v.replace(";", ",")))
        except (ValueError, SyntaxError):
            dis.append({"seed": seed, "error": "unparsable model output", "value": v[:200]})
            continue
        if res != e:
            dis.append({"seed": seed, "case": f[:300], "model_kept": res, "impl_kept": e})
    return dis, len(cases)


def _parse_trace(t):
    """-> (coq expr, [expected relevant set per op])"""
    head, body = t.split(" | ", 1)
    hd = head.split(" ")
    h0 = int(hd[2][1:])
    deltas = {}
    for x in [y for y in hd[3][1:].split(",") if y]:
        i, d = x.split(":")
        deltas[int(i)] = int(d)

    skip = int(hd[4][1:]) if len(hd) > 4 and hd[4][1:].isdigit() else None

    def tx(i):
        d = deltas.get(i, -1) if i != skip else -1
        return "mkTx %d [%s]" % (i, "(0, %d)" % d if d >= 0 else "")
    ops, exp = [], []
    for tok in body.split(" "):
        if not tok:
            continue
        op, obs = tok.split("=", 1)
        # transaction_unconfirmed: the monitor and its OnchainTxHandler each retract from their own list
        # (only the one that has an entry for that txid), the model keeps one merged list; single
        # unconfirmations are therefore compared at the end of each batch (the next non-R operation)
        exp.append(None if op[0] == "R" else sorted(set(tuple(int(v) for v in o.split(".")) for o in obs.split(",") if o and int(o.split(".")[0]) != skip)))
        k = op[0]
        if k == "C":
            blk, txs = op[1:].split(":")
            bid, h = blk.split(".")
            ops.append("TC (B %s %s) [%s]" % (bid, h, "; ".join(tx(int(i)) for i in txs.split(",") if i)))
        elif k in ("U", "D"):
            bid, h = op[1:].split(".")
            ops.append("%s (B %s %s)" % ("BB" if k == "U" else "BD", bid, h))
        elif k == "R":
            ops.append("TU %s" % op[1:])
        elif k == "A":
            ops.append("AU %s 9" % op[1:])
        elif k == "L":
            ops.append("RL")
    return "scan (mkSt %d %d [] [] []) [%s]" % (h0, h0, "; ".join(ops)), exp


def model_correspondence(ctx, recs, limit):
    import ast
    cases = []
    for r in recs:
        if not r.get("ok") or r.get("aborted"):
            continue
        for t in r.get("traces", []):
            cases.append((r["seed"], t))
    # spread over styles: take every k-th
    if len(cases) > limit:
        step = len(cases) // limit
        cases = cases[::step][:limit]
    if not cases:
        return [], 0, 0
    exprs, exps = [], []
    for seed, t in cases:
        e, x = _parse_trace(t)
        exprs.append(e)
        exps.append(x)
    vals = ctx.coq_eval("corr_chainview", COQ_IMPORTS, exprs, prelude=PRELUDE, shards=min(core.NPROC, max(1, len(exprs) // 4)))
    dis, nobs = [], 0
    for (seed, t), x, v in zip(cases, exps, vals):
        try:
            res = ast.literal_eval(v.replace(";", ","))
        except (ValueError, SyntaxError):
            dis.append({"seed": seed, "error": "unparsable model output", "value": v[:200]})
            continue
        if len(res) != len(x):
            dis.append({"seed": seed, "error": "model produced %d observations for %d ops" % (len(res), len(x))})
            continue
        for i, (m, e) in enumerate(zip(res, x)):
            if e is None:
                continue
            nobs += 1
            # the real get_relevant_txids lists a transaction once however many entries wait on it
            if sorted(set(tuple(a) for a in m)) != e:
                dis.append({"seed": seed, "op_index": i, "model_relevant": sorted(set(tuple(a) for a in m)), "impl_relevant": e, "trace_head": t[:200]})
                break
    return dis, len(cases), nobs


def run(ctx):
    ok_build, out = ctx.build_harness(BINS)
    if not ok_build:
        ctx.violation("harness does not build against the current tree", {"broken": "harness-build", "log_tail": out[-3000:]}, False)
        ctx.write_evidence(LEVEL)
        return
    gen_err = None
    try:
        generate(ctx)
        if getattr(ctx, "gen_errors", None):
            gen_err = json.dumps(ctx.gen_errors)
    except Exception as ex:
        gen_err = repr(ex)
    proved, okm = False, False
    if gen_err is None:
        okm, outm = ctx.coq_make(["Model/ChainView.vo", "Gen/CltvChecks.vo"])
        proved = ctx.prove("C11")
    else:
        ctx.obligations.append(("rs2v-generation", False, gen_err))
    stamp = anchored_height_stamp(core.REPO)
    ctx.obligations.append(("anchored:fail_htlcs_from_update_after_funding_spend.height", stamp is None, stamp or "queued entry stamped with the spend's confirmation height (as Model/ChainView.v AU)"))
    ctx.trusted_base += [
        "Coq 8.16.1 kernel + vm_compute",
        "tools/rs2v (Gen/CltvChecks.v confirmation_threshold, Gen/Consts.v), regenerated every run",
        "Model/ChainView.v (hand transliteration of the monitor's chain bookkeeping; per-transaction classification supplied as data), tied by per-operation trace correspondence on get_relevant_txids with real monitor clones",
        "harness crate /verif/harness (h_chainview, h_restartview), LDK functional_test_utils incl. splicing_tests helpers and reload_node!, hooks chain::verif_hooks_package::monitor_event_summary, ChannelMonitor::{verif_awaiting_entries, verif_onchain_failed_outbound_htlcs, verif_alternative_funding_confirmed, verif_filter_block}",
    ]
    ctx.assumptions += ["the chain source honours the Listen/Confirm contracts (blocks of one chain; a fork is disconnected / its transactions unconfirmed before the chain continues)",
                        "reorganisations deeper than ANTI_REORG_DELAY - 1 blocks are out of scope (irreversible by design)"]
    t0 = time.time()
    rng = ctx.rng.fork("c11-chainview")
    count = 260 if ctx.tier == "quick" else 8000
    first = 1 + rng.below(10 ** 9)
    # the restart harness (cheap scenarios) runs beside the clone harness
    rcount = 800 if ctx.tier == "quick" else 9000
    rfirst = 1 + rng.below(10 ** 9)
    rps = _start_parallel(ctx, rfirst, rcount, 2, 45 if ctx.tier == "quick" else 500, "h_restartview")
    recs, missing = _run_parallel(ctx, first, count, max(1, min(core.NPROC, 14) - 2), True, 50 if ctx.tier == "quick" else 600)
    rrecs, rmissing = _collect(rps)
    ctx.coverage["chainview_skipped_for_time"] = sum(1 for r in recs if r.get("skipped"))
    recs = [r for r in recs if not r.get("skipped")]
    ctx.timed("chainview_s", time.time() - t0)
    fails = []
    for s in missing[:3]:
        fails.append({"seed": s, "why": "scenario produced no verdict (harness crashed or timed out)", "detail": ""})
    known_hit = {}
    tot = {"blocks": 0, "clones": 0, "detours": 0, "late": 0, "sameblock": 0, "nonfirst": 0, "boundary_keep": 0, "boundary_go": 0,
           "kept_checks": 0, "kept_skipped": 0, "reloads": 0, "splice": 0}
    for r in recs:
        for k in tot:
            tot[k] += r.get(k, 0) or 0
        for f in r.get("findings", []):
            known_hit.setdefault(f, r)
        if not r.get("ok"):
            fails.append(r)
    for key, r in sorted(known_hit.items()):
        ctx.violation("chain delivery scenario: " + KNOWN_WHAT.get(key, key),
                      {"broken": "trace judge", "scenario": {"seed": r.get("seed"), "detail": r.get("detail")},
                       "replay_cmd": "%s replay %d" % (ctx.bin_path("h_chainview"), r.get("seed"))}, True, key=key)
    # ---- restart harness
    ctx.coverage["restart_skipped_for_time"] = sum(1 for r in rrecs if r.get("skipped"))
    rrecs = [r for r in rrecs if not r.get("skipped")]
    rfails = [r for r in rrecs if not r.get("ok")]
    for s_ in rmissing[:3]:
        rfails.append({"seed": s_, "why": "scenario produced no verdict (harness crashed or timed out)", "detail": ""})
    depths = {}
    for r in rrecs:
        if r.get("ok"):
            depths[str(r.get("restart_depth"))] = depths.get(str(r.get("restart_depth")), 0) + 1
    ctx.coverage["restart_scenarios"] = len(rrecs)
    ctx.coverage["restart_first_seed"] = rfirst
    ctx.coverage["restart_by_confirmations_at_restart"] = depths
    ctx.coverage["restart_with_reorg"] = sum(1 for r in rrecs if r.get("reorg"))
    ctx.coverage["restart_conclusions_compared"] = sum(r.get("conclusions", 0) or 0 for r in rrecs)
    dis = []
    fdis, nfilter = [], 0
    ncases = nobs = 0
    if okm and proved:
        def go():
            return model_correspondence(ctx, recs, 160 if ctx.tier == "quick" else 2500)
        try:
            try:
                dis, ncases, nobs = go()
                fdis, nfilter = filter_correspondence(ctx, recs, 120 if ctx.tier == "quick" else 1200)
            except RuntimeError as ex:
                if "Cannot find library" in str(ex) or "inconsistent assumptions" in str(ex):
                    generate(ctx)
                    ctx.coq_make(["Model/ChainView.vo", "Gen/CltvChecks.vo"])
                    dis, ncases, nobs = go()
                    fdis, nfilter = filter_correspondence(ctx, recs, 120 if ctx.tier == "quick" else 1200)
                else:
                    raise
        except RuntimeError as ex:
            dis = [{"error": str(ex)[-800:]}]
    ctx.coverage["chainview_scenarios"] = len(recs)
    ctx.coverage["chainview_aborted_on_known_finding"] = sum(1 for r in recs if r.get("aborted"))
    ctx.coverage["chainview_totals"] = tot
    ctx.coverage["chainview_first_seed"] = first
    ctx.coverage["model_traces"] = {"clone_traces": ncases, "operations_compared": nobs, "filter_calls_compared": nfilter}
    ctx.coverage["evaluations"] = tot["clones"] + nobs + nfilter + 2 * len(rrecs)
    ctx.coverage["distinct_nontrivial"] = tot["clones"]
    ctx.coverage["rule"] = "one clone of a real monitor per (scenario, node, delivery style); all are non-trivial (each processes a closing transaction and its claims); model: one observation per monitor operation"
    ctx.coverage["translated_items"] = getattr(ctx, "gen_meta", [])
    okr = [r for r in recs if r.get("ok") and not r.get("aborted")]
    if okr:
        r = dict(okr[0])
        r["traces"] = [t[:300] for t in r.get("traces", [])[:3]]
        ctx.samples.append(r)
    # ---- decide
    for f in fails[:3]:
        ctx.violation("chain delivery scenario violates C11: " + f.get("why", ""),
                      {"broken": "trace judge", "scenario": {k: f.get(k) for k in ("seed", "why", "detail", "cfg")},
                       "replay_cmd": "%s replay %s" % (ctx.bin_path("h_chainview"), f.get("seed"))}, True)
    for f in rfails[:3]:
        ctx.violation("restart scenario violates C11: " + f.get("why", ""),
                      {"broken": "trace judge", "scenario": {"harness": "h_restartview", "seed": f.get("seed"), "why": f.get("why"), "detail": f.get("detail")},
                       "replay_cmd": "%s replay %s" % (ctx.bin_path("h_restartview"), f.get("seed"))}, True)
    fails = fails + rfails
    broken = []
    if not proved:
        broken.append({"obligation": "Coq proof of Props/C11.v", "detail": getattr(ctx, "proof_failure", {"where": gen_err})})
    vacuous_late = len(recs) - sum(1 for r in recs if r.get("aborted")) >= 50 and tot["late"] == 0
    ctx.obligations.append(("coverage:late-monitor-updates-exercised", not vacuous_late, "%d clones were given monitor updates after the closing transaction confirmed" % tot["late"]))
    if vacuous_late:
        broken.append({"obligation": "late monitor updates exercised", "detail": "no clone was given a monitor update after the closing transaction confirmed: the late-update judges were vacuous"})
    judged = len(recs) - sum(1 for r in recs if r.get("aborted"))
    guards = [
        ("coverage:same-block-children-with-parent-input-not-first", tot["nonfirst"] > 0, "%d children confirmed in their parent's block, %d with the parent-spending input not first" % (tot["sameblock"], tot["nonfirst"])),
        ("coverage:fork-points-at-confirmation-blocks", tot["boundary_keep"] > 0 and tot["boundary_go"] > 0 and tot["kept_checks"] > 0,
         "%d detours with the fork point at a transaction's own block, %d one below; %d comparisons 'back at a block = as when first there' (%d skipped: something could mature)" % (tot["boundary_keep"], tot["boundary_go"], tot["kept_checks"], tot["kept_skipped"])),
        ("coverage:pending-splice-scenarios", tot["splice"] > 0, "%d scenarios with a confirmed, never locked splice" % tot["splice"]),
        ("coverage:monitor-restarts", tot["reloads"] > 0, "%d monitor restarts inside clone runs" % tot["reloads"]),
    ]
    for name, okg, detail in guards:
        okg = okg or judged < 120
        ctx.obligations.append((name, okg, detail))
        if not okg:
            broken.append({"obligation": name, "detail": "not exercised: the judges that depend on it were vacuous (" + detail + ")"})
    rdepth_ok = len(rrecs) < 100 or all(depths.get(str(d), 0) > 0 for d in range(0, 8))
    ctx.obligations.append(("coverage:restart-at-every-depth", rdepth_ok, "restarts by confirmations of the closing transaction at the restart: %s" % json.dumps(depths, sort_keys=True)))
    if not rdepth_ok:
        broken.append({"obligation": "restart at every depth 0..ANTI_REORG_DELAY+1", "detail": json.dumps(depths, sort_keys=True)})
    if fdis:
        broken.append({"correspondence": "verif_filter_block vs filter_positions of Model/ChainView.v", "first_disagreements": fdis[:5], "n": len(fdis)})
    if stamp is not None:
        broken.append({"obligation": "anchored extraction of the height stamp of late-update entries", "detail": stamp})
    if dis:
        broken.append({"correspondence": "h_chainview get_relevant_txids vs Model/ChainView.v", "first_disagreements": dis[:5], "n": len(dis)})
    if broken and not fails:
        ctx.violation("C11 no longer shown: " + ("proof" if not proved else "anchored extraction" if stamp is not None and not dis else "correspondence") + " broken",
                      {"broken": broken, "search": "judges on %d real monitor clones (equal views across deliveries, burial, shallow-fork retraction) and %d restart scenarios found no failing input" % (tot["clones"], len(rrecs))}, False)
    ctx.write_evidence(LEVEL)


def replay(ctx, rep):
    print(json.dumps(rep, indent=1)[:6000])
    sc = rep.get("scenario") or {}
    hb = sc.get("harness") or "h_chainview"
    if sc.get("seed") is not None and os.path.exists(ctx.bin_path(hb)):
        cmd = "%s replay %d 2>/dev/null | grep -a '^R ' | cut -c1-3000" % (ctx.bin_path(hb), sc["seed"])
        p = subprocess.run(["bash", "-c", cmd], stdout=subprocess.PIPE, universal_newlines=True, errors="replace")
        print(p.stdout)
        return 0 if '"ok":true' in p.stdout else 1
    return 0
