"""C02 — a forwarding node never loses money on an HTLC it forwards.

Pipeline (see design/C02.md):
  1. harness build (h_fwdadm: admission arithmetic on a live channel; h_fwd: three real nodes, when present)
  2. rs2v regeneration of Gen/Consts.v, Gen/CltvChecks.v, Gen/CfgChecks.v and Gen/FwdChecks.v (own config
     tools/props/c02/FwdChecks.json) from the Rust source
  3. Coq: Model/FwdAdmission.vo (+ Model/Fwd.vo), then Props/C02.vo with Print Assumptions
  4. functional correspondence of every generated/hand function against the real code (h_fwdadm)
  5. judges evaluated on the implementation's outputs only
  6. decision per DESIGN.md section 9
"""
import json
import os
import re

from vlib import core

HAVE_FWD = os.path.exists(os.path.join(core.HARNESS, "src", "bin", "h_fwd.rs"))
HAVE_FWDM = os.path.exists(os.path.join(core.HARNESS, "src", "bin", "h_fwdm.rs"))
BINS = ["h_fwdadm"] + (["h_fwd"] if HAVE_FWD else []) + (["h_fwdm"] if HAVE_FWDM else [])
LEVEL = "proof"
MANIFEST = {
    "category": "proof",
    "text": "Coq theorems (all amounts, fees, deltas, config-update/tick sequences; all label lists incl. crashes for the forwarding model) over definitions regenerated from the Rust source each run, functional correspondence of every admission function on a live channel, and implementation-side judges on traces of three real nodes under scripted persistence, scheduling, disconnection, on-chain closes and restarts.",
    "note": "Partial: ChannelManager realising Model/Fwd.v is validated by trace correspondence, not proved; dust-exposure arithmetic is delegated to C01's tx_builder model; trampoline, interception, phantom and MPP-aggregate forwards are out of scope.",
    "technique": "machine-checked proof in Coq over rs2v-generated code + differential correspondence + trace judges on real nodes",
}
HERE = os.path.dirname(os.path.abspath(__file__))
FWD_CFG = os.path.join(HERE, "c02", "FwdChecks.json")
U64 = 2 ** 64
U32 = 2 ** 32
M = 1000000


# ------------------------------------------------------------------ generation
def generate(ctx):
    """Regenerates the Gen modules C02 depends on. Returns list of refusal strings (empty = ok)."""
    from vlib import gen
    from rs2v import rs2v as R
    metas, errors = gen.regen(ctx, ["Consts", "CltvChecks", "CfgChecks", "ChanUtilsFees", "TxBuilder"])
    errs = ["%s: %s" % kv for kv in sorted(errors.items())]
    out = os.path.join(core.COQ, "Gen", "FwdChecks.v")
    meta = list(getattr(ctx, "gen_meta", []) or [])
    try:
        with core.Lock("rs2v-gen"):
            text, m = R.translate_with_meta(json.load(open(FWD_CFG)), repo=core.REPO, config_dir=gen.CONFIG_DIR)
            core.write_if_changed(out, text)
        meta += [dict(x, module="FwdChecks") for x in m]
    except R.Rs2vError as ex:
        errs.append("FwdChecks: RS2V-REFUSED: %s" % ex)
        for p in (out, out + "o"):
            if os.path.exists(p):
                os.remove(p)
    ctx.gen_meta = meta
    ctx.gen_errors_c02 = errs
    return errs


# ------------------------------------------------------------------ structural pins
def structural_pins():
    """Facts about the SHAPE of the source that the hand-written glue relies on and that rs2v's anchored
    expressions cannot express. Returns list of failure strings (empty = ok).
    Pin 1: in ChannelManager::can_forward_htlc_should_intercept, `None =>` arm (no channel for the onion's
    SCID), the amount sanity check `next_hop.outgoing_amt_msat > msg.amount_msat` sits directly in the arm
    (brace depth 1) and BEFORE the phantom / intercept classification, so it dominates both outcomes
    (Model/FwdAdmission.v no_channel_admission)."""
    bad = []
    try:
        src = open(os.path.join(core.REPO, "lightning/src/ln/channelmanager.rs")).read()
        i = src.index("fn can_forward_htlc_should_intercept(")
        fn = src[i:i + 9000]
        j = fn.index("None => {", fn.index("do_funded_channel_callback"))
        arm = fn[j + len("None => {"):]
        depth, k, end = 1, 0, None
        pos_amt = pos_cltv = pos_phantom = None
        depth_amt = None
        while k < len(arm):
            c = arm[k]
            if arm.startswith("//", k):
                k = arm.index("\n", k)
                continue
            if c == "{":
                depth += 1
            elif c == "}":
                depth -= 1
                if depth == 0:
                    end = k
                    break
            if pos_amt is None and arm.startswith("if next_hop.outgoing_amt_msat > msg.amount_msat", k):
                pos_amt, depth_amt = k, depth
            if pos_cltv is None and arm.startswith("if cltv_delta < MIN_CLTV_EXPIRY_DELTA", k):
                pos_cltv = k
            if pos_phantom is None and arm.startswith("fake_scid::is_valid_phantom(", k):
                pos_phantom = k
            k += 1
        if pos_amt is None:
            bad.append("pin 1: the amount sanity check is gone from the no-channel arm of can_forward_htlc_should_intercept")
        elif depth_amt != 1 or pos_phantom is None or pos_amt > pos_phantom:
            bad.append("pin 1: the amount sanity check of the no-channel arm no longer dominates the phantom and intercept outcomes (brace depth %s, %s the phantom/intercept classification)" % (depth_amt, "after" if pos_phantom is not None and pos_amt > pos_phantom else "relative to"))
        if pos_cltv is None or (pos_phantom is not None and pos_cltv > pos_phantom):
            bad.append("pin 1: the CLTV sanity check of the no-channel arm no longer precedes the classification")
    except (ValueError, OSError) as ex:
        bad.append("pin 1: can_forward_htlc_should_intercept / its `None =>` arm not found (%r)" % (ex,))
    return bad


# ------------------------------------------------------------------ exact reference arithmetic (judge only)
def gross(a, base, prop):
    return a + (a * prop // M + base)


def judge_a2f(inbound, base, prop, res):
    """Property-level predicate on the IMPLEMENTATION's answer: the forwarded amount leaves the node
    its full fee and is the largest such amount (else the node over- or under-charges)."""
    if res == "PANIC":
        return "arithmetic panic"
    if res == "None":
        if gross(1, base, prop) <= inbound:
            return "refuses although 1 msat (and its fee) fits"
        return None
    a = int(res.split()[1])
    if a <= 0:
        return "forwards a non-positive amount"
    if gross(a, base, prop) > inbound:
        return "forwards %d but amount+fee = %d exceeds the %d received (node loses %d msat of fee)" % (a, gross(a, base, prop), inbound, gross(a, base, prop) - inbound)
    if gross(a + 1, base, prop) <= inbound:
        return "forwards %d although %d also leaves the full fee (overcharges the payer)" % (a, a + 1)
    return None


def judge_blind(c, res):
    in_amt, in_cltv, base, prop, delta, hmin, maxc = c
    if res == "PANIC":
        return "arithmetic panic"
    if res == "Err":
        return None
    _, a, oc = res.split()
    a, oc = int(a), int(oc)
    if a <= 0 or gross(a, base, prop) > in_amt:
        return "blinded forward offers %d downstream; with fee that is %d > %d received" % (a, gross(a, base, prop), in_amt)
    if oc + delta > in_cltv:
        return "blinded forward offers expiry %d downstream; with delta %d that exceeds the %d received" % (oc, delta, in_cltv)
    if in_amt < hmin or in_cltv > maxc:
        return "blinded forward accepted outside the path's constraints"
    return None


def cfg_ok(cfg, in_amt, in_cltv, out_amt, out_cltv):
    prop, base, delta = cfg
    return out_amt + (out_amt * prop // M + base) <= in_amt and out_cltv + delta <= in_cltv


def judge_chk(state, c, res):
    """state = (cur, prev|None) as SHOWN BY THE IMPLEMENTATION; an accepted forward must satisfy one of them."""
    if res == "PANIC":
        return "arithmetic panic"
    if res != "Ok":
        return None
    cur, prev = state
    in_amt, in_cltv, out_amt, out_cltv = c
    if cfg_ok(cur, in_amt, in_cltv, out_amt, out_cltv) or (prev is not None and cfg_ok(prev, in_amt, in_cltv, out_amt, out_cltv)):
        return None
    return "accepted a forward that satisfies neither the current nor the previous config (amount/fee or CLTV delta)"


# ------------------------------------------------------------------ case generation
AMTS = [0, 1, 2, 999, 1000, 1001, M - 1, M, M + 1, 10 ** 9, U32 - 1, U32, U32 + 1, 21 * 10 ** 17, 2 ** 63 - 1, 2 ** 63, U64 - 2, U64 - 1]
BASES = [0, 1, 2, 999, 1000, 1001, U32 - 2, U32 - 1]
PROPS = [0, 1, 2, 999, 1000, 999999, M, M + 1, 2 * M, 3 * M + 7, U32 - 1]


def r_amt(rng):
    k = rng.below(6)
    if k == 0:
        return rng.choice(AMTS)
    if k == 1:
        return rng.below(5000)
    if k == 2:
        return rng.below(10 ** 10)
    if k == 3:
        return U64 - 1 - rng.below(10 ** 7)
    if k == 4:
        return rng.below(2 ** 48)
    return rng.below(U64)


def r_base(rng):
    return rng.choice(BASES) if rng.chance(1, 2) else rng.choice([rng.below(5000), rng.below(U32)])


def r_prop(rng):
    return rng.choice(PROPS) if rng.chance(1, 2) else rng.choice([rng.below(20000), rng.below(3 * M), rng.below(U32)])


def a2f_cases(rng, tier):
    cs = set()
    for i in [0, 1, 2, 1000, M, U32, U64 - 1]:
        for b in [0, 1, 1000, U32 - 1]:
            for p in [0, 1, 1000, M, M + 1, U32 - 1]:
                cs.add((i, b, p))
                for e in (-1, 0, 1):
                    if 0 <= b + e < U64:
                        cs.add((b + e, b, p))
    n = 1500 if tier == "quick" else 60000
    for _ in range(n):
        b, p = r_base(rng), r_prop(rng)
        if rng.chance(1, 2):
            # aim at the rounding boundary: inbound = a + fee(a) + e
            a = max(1, r_amt(rng) // (1 + p // M + 1)) if rng.chance(1, 2) else 1 + rng.below(10 ** 7)
            g = gross(a, b, p) + rng.range(-2, 2)
            if 0 <= g < U64:
                cs.add((g, b, p))
        else:
            cs.add((r_amt(rng), b, p))
    return sorted(cs)


def blind_cases(rng, tier):
    cs = set()
    n = 600 if tier == "quick" else 30000
    for _ in range(n):
        b, p = r_base(rng), r_prop(rng)
        a = 1 + rng.below(10 ** 9)
        in_amt = max(0, min(U64 - 1, gross(a, b, p) + rng.range(-2, 2))) if rng.chance(2, 3) else r_amt(rng)
        delta = rng.choice([0, 1, 40, 48, 144, 65535, rng.below(65536)])
        in_cltv = rng.choice([delta - 1, delta, delta + 1, rng.below(U32), 800000 + rng.below(1000), U32 - 1])
        in_cltv = max(0, min(U32 - 1, in_cltv))
        hmin = rng.choice([0, 1, in_amt - 1, in_amt, in_amt + 1, rng.below(U64)])
        hmin = max(0, min(U64 - 1, hmin))
        maxc = rng.choice([in_cltv - 1, in_cltv, in_cltv + 1, U32 - 1, 0])
        maxc = max(0, min(U32 - 1, maxc))
        cs.add((in_amt, in_cltv, b, p, delta, hmin, maxc))
    return sorted(cs)


def r_cfg(rng):
    prop = rng.choice([0, 1, 1000, 999999, M, U32 - 1, rng.below(20000), rng.below(U32)])
    base = rng.choice([0, 1, 1000, U32 - 1, rng.below(5000), rng.below(U32)])
    delta = rng.choice([47, 48, 49, 72, 144, 65535, 40 + rng.below(200), rng.below(65536)])
    return (prop, base, delta)


def r_chk(rng, cfgs):
    """a check aimed at the acceptance boundary of one of the configs currently honoured"""
    prop, base, delta = rng.choice(cfgs)
    k = rng.below(8)
    if k == 0 and prop > 0:  # u64 overflow of amt * prop
        out_amt = max(0, min(U64 - 1, U64 // prop + rng.range(-2, 2)))
    elif k == 1:
        out_amt = U64 - 1 - rng.below(3 * 10 ** 9)
    else:
        out_amt = r_amt(rng) if rng.chance(1, 3) else rng.below(10 ** 10)
    fee = out_amt * prop // M + base
    in_amt = out_amt + fee + rng.choice([-1, 0, 0, 1, -base, rng.range(-5, 5)])
    in_amt = max(0, min(U64 - 1, in_amt))
    out_cltv = rng.choice([rng.below(U32), 800000 + rng.below(2000), U32 - 1 - rng.below(70000)])
    in_cltv = out_cltv + delta + rng.choice([-1, 0, 0, 1, rng.range(-3, 3), 1000])
    in_cltv = max(0, min(U32 - 1, in_cltv))
    return (in_amt, in_cltv, out_amt, out_cltv)


def seq_chunks(rng, tier):
    """Operation chunks for the config state machine. Every chunk first expires the previous config
    (5 ticks; more than the constant would be equally fine) so that its start state is fully visible
    through `show`; inside a chunk the generator mirrors the state only to AIM the checks."""
    nchunks = 12 if tier == "quick" else 200
    chunks = []
    for ci in range(nchunks):
        r = rng.fork("seq%d" % ci)
        ops = []
        cur, prev = None, None  # unknown until the first update; checks before that aim at the default config
        guess = [(0, 1000, 48)]
        age = 0
        for _ in range(220):
            k = r.below(10)
            if k < 2:
                c = r_cfg(r)
                ops.append(("upd",) + c)
                if c[2] >= 48:
                    if cur is not None and c != cur:
                        prev, age = cur, 0
                    elif cur is None:
                        prev, age = guess[0], 0
                    cur = c
            elif k < 4:
                ops.append(("tick",))
                if prev is not None:
                    age += 1
                    if age >= 5:
                        prev = None
            else:
                cfgs = [c for c in (cur, prev) if c is not None] or guess
                if r.chance(1, 6):
                    cfgs = cfgs + [r_cfg(r)]
                ops.append(("chk",) + r_chk(r, cfgs))
        chunks.append(ops)
    return chunks


# ------------------------------------------------------------------ Coq side
COQ_IMPORTS = ["LdkV.Prim.U64", "LdkV.Prim.Rs2vLib", "LdkV.Gen.Consts", "LdkV.Gen.CltvChecks", "LdkV.Gen.CfgChecks",
               "LdkV.Gen.FwdChecks", "LdkV.Model.FwdAdmission"]
PRELUDE = """
Open Scope Z_scope.
Definition show_a2f (c : Z * Z * Z) : Z :=
  let '(i, b, p) := c in
  let r := mkPaymentRelay 0 p b in
  if amt_to_forward_msat_safe i r then match amt_to_forward_msat i r with Some a => a | None => -1 end else -2.
Definition show_blind (c : Z * Z * Z * Z * Z * Z * Z) : Z * Z :=
  let '(ia, ic, b, p, d, hmin, maxc) := c in
  let r := mkPaymentRelay d p b in let pc := mkPaymentConstraints maxc hmin in
  if check_blinded_forward_safe ia ic r pc false
  then match check_blinded_forward ia ic r pc false with ROk (a, oc) => (a, oc) | RErr _ => (-1, -1) end
  else (-2, -2).
Definition err_code (r : rres unit) : Z :=
  match r with
  | ROk _ => 0
  | RErr e => if String.eqb e "FeeInsufficient" then 1 else if String.eqb e "IncorrectCLTVExpiry" then 2 else 99
  end.
Definition show_state (s : cfg_state) : list Z :=
  let c := cs_cur s in
  [cc_forwarding_fee_proportional_millionths c; cc_forwarding_fee_base_msat c; cc_cltv_expiry_delta c] ++
  match cs_prev s with
  | None => [-1; -1; -1]
  | Some (p, _) => [cc_forwarding_fee_proportional_millionths p; cc_forwarding_fee_base_msat p; cc_cltv_expiry_delta p]
  end.
Definition chk_safe (s : cfg_state) (a b c d : Z) : bool :=
  internal_htlc_satisfies_config_safe a b c d (cs_cur s) &&
  match internal_htlc_satisfies_config a b c d (cs_cur s), cs_prev s with
  | RErr _, Some (p, _) => internal_htlc_satisfies_config_safe a b c d p
  | _, _ => true
  end.
Definition obs (s : cfg_state) (o : cfg_op) : list Z :=
  let s' := cfg_step s o in
  match o with
  | OpUpdate c => (if snd (api_update_config s c) then 1 else 0) :: show_state s'
  | OpTick => 1 :: show_state s'
  | OpCheck a b c d => [if chk_safe s a b c d then err_code (htlc_satisfies_config s a b c d) else -2]
  end.
Fixpoint run_obs (s : cfg_state) (ops : list cfg_op) : list (list Z) :=
  match ops with
  | [] => []
  | o :: t => obs s o :: run_obs (cfg_step s o) t
  end.
Definition U (p b d : Z) := OpUpdate (mkChannelConfig p b d).
Definition T := OpTick.
Definition C := OpCheck.
Definition S0 (p b d : Z) := {| cs_cur := mkChannelConfig p b d; cs_prev := None |}.
"""


def tup(c):
    return "(" + ", ".join(str(x) for x in c) + ")"


def chunks_of(xs, n):
    return [xs[i:i + n] for i in range(0, len(xs), n)]


def coq_op(o):
    if o[0] == "upd":
        return "U %d %d %d" % o[1:]
    if o[0] == "tick":
        return "T"
    return "C %d %d %d %d" % o[1:]


def parse_zs(v):
    return [int(x) for x in re.findall(r"-?\d+", v)]


def parse_zlists(v):
    """'[[1; 2]; [3]]' -> [[1,2],[3]]"""
    inner = v.strip()
    return [parse_zs(x) for x in re.findall(r"\[([^\[\]]*)\]", inner)]


# ------------------------------------------------------------------ implementation side
def run_impl(ctx, a2f, blind, seqs):
    lines = ["a2f %d %d %d" % c for c in a2f] + ["blind %d %d %d %d %d %d %d" % c for c in blind]
    for ops in seqs:
        lines += ["tick"] * 5 + ["show"]
        for o in ops:
            lines.append(" ".join([o[0]] + [str(x) for x in o[1:]]))
    rc, out = ctx.run_bin("h_fwdadm", "\n".join(lines) + "\n", timeout=1200)
    res = [l[2:] for l in out if l.startswith("R ")]
    if rc != 0 or len(res) != len(lines):
        ctx.violation("harness h_fwdadm did not produce one result per case",
                      {"broken": "correspondence:h_fwdadm", "rc": rc, "n_out": len(res), "n_in": len(lines), "tail": out[-5:]}, False)
        return None
    i = 0
    r_a2f = res[i:i + len(a2f)]
    i += len(a2f)
    r_blind = res[i:i + len(blind)]
    i += len(blind)
    r_seqs = []
    for ops in seqs:
        i += 5
        start = res[i]
        i += 1
        r_seqs.append((start, res[i:i + len(ops)]))
        i += len(ops)
    return r_a2f, r_blind, r_seqs


def parse_state(line):
    """'Ok cur p b d prev none|p b d' -> ((p,b,d), prev|None, okflag)"""
    t = line.split()
    ok = 1 if t[0] == "Ok" else 0
    cur = (int(t[2]), int(t[3]), int(t[4]))
    prev = None if t[6] == "none" else (int(t[6]), int(t[7]), int(t[8]))
    return cur, prev, ok


def impl_obs(line, op):
    if op[0] in ("upd", "tick"):
        if line in ("PANIC", "NOCHAN", "BADCMD"):
            return [-2]
        cur, prev, ok = parse_state(line)
        return [ok] + list(cur) + (list(prev) if prev else [-1, -1, -1])
    return [{"Ok": 0, "Err FeeInsufficient": 1, "Err IncorrectCLTVExpiry": 2, "PANIC": -2}.get(line, 98)]


def functional(ctx, model_ok):
    rng = ctx.rng.fork("fwdadm")
    a2f = a2f_cases(rng.fork("a2f"), ctx.tier)
    blind = blind_cases(rng.fork("blind"), ctx.tier)
    seqs = seq_chunks(rng.fork("seq"), ctx.tier)
    impl = run_impl(ctx, a2f, blind, seqs)
    if impl is None:
        return None, []
    r_a2f, r_blind, r_seqs = impl
    # ---- judge on the implementation alone
    fails = []
    for c, r in zip(a2f, r_a2f):
        w = judge_a2f(c[0], c[1], c[2], r)
        if w:
            fails.append({"function": "amt_to_forward_msat", "input": {"inbound_amt_msat": c[0], "fee_base_msat": c[1], "fee_proportional_millionths": c[2]},
                          "impl": r, "why": w, "line": "a2f %d %d %d" % c})
            break
    for c, r in zip(blind, r_blind):
        w = judge_blind(c, r)
        if w:
            fails.append({"function": "check_blinded_forward", "input": dict(zip(["inbound_amt_msat", "inbound_cltv_expiry", "fee_base_msat", "fee_proportional_millionths", "cltv_expiry_delta", "htlc_minimum_msat", "max_cltv_expiry"], c)),
                          "impl": r, "why": w, "line": "blind %d %d %d %d %d %d %d" % c})
            break
    hist = {}
    n_ops = 0
    for ops, (start, rs) in zip(seqs, r_seqs):
        cur, prev, _ = parse_state(start)
        hist_lines = ["tick"] * 5
        done = False
        for o, r in zip(ops, rs):
            n_ops += 1
            hist_lines.append(" ".join([o[0]] + [str(x) for x in o[1:]]))
            if o[0] == "chk":
                hist[r] = hist.get(r, 0) + 1
                w = judge_chk((cur, prev), o[1:], r)
                if w and not done:
                    fails.append({"function": "htlc_satisfies_config", "state_shown_by_impl": {"current": cur, "previous": prev},
                                  "input": dict(zip(["in_amount_msat", "in_cltv_expiry", "amt_to_forward", "outgoing_cltv_value"], o[1:])),
                                  "impl": r, "why": w, "lines": [l for l in hist_lines if not l.startswith("chk")] + [hist_lines[-1]]})
                    done = True
            elif r not in ("PANIC", "NOCHAN", "BADCMD"):
                k = "upd " + r.split()[0] if o[0] == "upd" else "tick"
                hist[k] = hist.get(k, 0) + 1
                ncur, nprev, ok = parse_state(r)
                # the API must refuse deltas below the minimum and otherwise install exactly what was asked
                if o[0] == "upd":
                    if ok and ncur != tuple(o[1:]):
                        fails.append({"function": "update_channel_config", "why": "accepted update did not install the requested parameters", "impl": r, "op": o})
                    if not ok and (ncur, nprev) != (cur, prev):
                        fails.append({"function": "update_channel_config", "why": "rejected update changed the config", "impl": r, "op": o})
                cur, prev = ncur, nprev
    ctx.coverage["functional_cases"] = {"amt_to_forward_msat": len(a2f), "check_blinded_forward": len(blind),
                                        "config_state_machine_ops": n_ops, "config_chunks": len(seqs)}
    ctx.coverage["config_op_result_histogram"] = hist
    ctx.coverage["a2f_result_histogram"] = {"None": sum(1 for r in r_a2f if r == "None"), "Some": sum(1 for r in r_a2f if r.startswith("Some"))}
    ctx.coverage["blind_result_histogram"] = {"Err": sum(1 for r in r_blind if r == "Err"), "Ok": sum(1 for r in r_blind if r.startswith("Ok"))}
    ctx.samples.append({"a2f": list(a2f[len(a2f) // 2]), "impl": r_a2f[len(a2f) // 2]})
    ctx.samples.append({"blind": list(blind[len(blind) // 3]), "impl": r_blind[len(blind) // 3]})
    ctx.samples.append({"config_chunk_start": r_seqs[0][0], "ops": [" ".join(str(x) for x in o) for o in seqs[0][:6]], "impl": r_seqs[0][1][:6]})
    if not model_ok:
        return None, fails
    # ---- model side
    B = 400
    exprs = []
    ach, bch = chunks_of(a2f, B), chunks_of(blind, B)
    for ch in ach:
        exprs.append("map show_a2f [" + "; ".join(tup(c) for c in ch) + "]")
    for ch in bch:
        exprs.append("map show_blind [" + "; ".join(tup(c) for c in ch) + "]")
    for ops, (start, rs) in zip(seqs, r_seqs):
        cur, prev, _ = parse_state(start)
        if prev is not None:
            ctx.violation("previous config still present after EXPIRE_PREV_CONFIG_TICKS ticks on the live channel",
                          {"broken": "correspondence:h_fwdadm prev-config expiry", "shown": start}, False)
            return None, fails
        exprs.append("run_obs (S0 %d %d %d) [%s]" % (cur[0], cur[1], cur[2], "; ".join(coq_op(o) for o in ops)))
    vals = ctx.coq_eval("corr_fwdadm", COQ_IMPORTS, exprs, prelude=PRELUDE, shards=min(16, len(exprs)))
    m_a2f = [z for v in vals[:len(ach)] for z in parse_zs(v)]
    m_blind_flat = [z for v in vals[len(ach):len(ach) + len(bch)] for z in parse_zs(v)]
    m_blind = list(zip(m_blind_flat[0::2], m_blind_flat[1::2]))
    dis = []
    for c, m, r in zip(a2f, m_a2f, r_a2f):
        i = -2 if r == "PANIC" else (-1 if r == "None" else int(r.split()[1]))
        if i != m:
            dis.append({"topic": "amt_to_forward_msat", "input": list(c), "model": m, "impl": r})
    for c, m, r in zip(blind, m_blind, r_blind):
        i = (-2, -2) if r == "PANIC" else ((-1, -1) if r == "Err" else tuple(int(x) for x in r.split()[1:]))
        if i != tuple(m):
            dis.append({"topic": "check_blinded_forward", "input": list(c), "model": list(m), "impl": r})
    for k, (ops, (start, rs)) in enumerate(zip(seqs, r_seqs)):
        mo = parse_zlists(vals[len(ach) + len(bch) + k])
        if len(mo) != len(ops):
            dis.append({"topic": "config state machine", "chunk": k, "why": "model produced %d observations for %d ops" % (len(mo), len(ops))})
            continue
        for j, (o, r, m) in enumerate(zip(ops, rs, mo)):
            io = impl_obs(r, o)
            if io != m:
                dis.append({"topic": "config state machine", "chunk": k, "step": j, "start": start,
                            "ops_so_far": [" ".join(str(x) for x in q) for q in ops[:j + 1] if q[0] != "chk" or q is o],
                            "model": m, "impl": r})
                break
    return dis, fails


# ------------------------------------------------------------------ traces of three real nodes (h_fwd)
def _fwd_worker(args):
    """One shard: run the scenarios, judge every trace, map it to model labels. Runs in a worker process."""
    import collections
    import subprocess
    from props.c02 import fwdjudge as J, fwdmodel as FM
    if args[0] == "scripted":
        return _scripted_worker(args)
    binp, seed, first, count, out = args
    if os.path.basename(binp) == "h_fwdm":
        return _fwdm_worker(args)
    try:
        rc = subprocess.call([binp, "run", str(seed), str(first), str(count), out], cwd=os.path.dirname(out),
                             stdout=subprocess.DEVNULL, stderr=subprocess.DEVNULL, timeout=1700)
    except subprocess.TimeoutExpired:
        rc = 124
    agg = collections.Counter()
    violating, model_items = [], []
    if rc != 0 or not os.path.exists(out):
        violating.append((first, {}, [{"judge": "harness", "why": "h_fwd exited with %s for scenarios %d..%d" % (rc, first, first + count - 1), "step": 0}], []))
        return violating, agg, model_items, 0
    sc = J.parse(out)
    total = 0
    for idx in range(first, first + count):
        recs = sc.get(idx)
        if not recs:
            violating.append((idx, {}, [{"judge": "harness", "why": "no trace for scenario %d" % idx, "step": 0}], []))
            continue
        V, F = J.judge(recs)
        total += 1
        for k, v in F.items():
            if isinstance(v, int):
                agg[k] += v
            else:
                agg["%s=%s" % (k, v)] += 1
        labels, checks, info = FM.to_labels(recs)
        agg["model_stop=" + info["stop"].split(" in phase")[0]] += 1
        agg["model_labels"] += info["mapped_labels"]
        agg["model_window_checks"] += info["window_checks"]
        agg["model_crashes_mapped"] += info["crash_mapped"]
        if labels and checks:
            model_items.append((idx, labels, checks))
        if V:
            ex = [" ".join([kind] + ["%s=%s" % kv for kv in d.items() if kv[0] != "raw"]) + " @%d" % step
                  for (_, step, kind, d) in recs
                  if kind not in ("PERSISTFULL", "MGRPERSIST") and not (kind == "BLOCK" and not d.get("txs"))]
            params = dict((k, v) for k, v in recs[0][3].items() if k != "raw") if recs[0][2] == "PARAMS" else {}
            violating.append((idx, params, V, ex[-160:]))
    if not violating:
        os.remove(out)
    return violating, agg, model_items, total


def _fwdm_worker(args):
    """One shard of h_fwdm (several concurrent forwards, dust band + feerate changes, late preimages)."""
    import collections
    import subprocess
    from props.c02 import fwdjudge as J, fwdmjudge as JM
    binp, seed, first, count, out = args
    try:
        rc = subprocess.call([binp, "run", str(seed), str(first), str(count), out], cwd=os.path.dirname(out),
                             stdout=subprocess.DEVNULL, stderr=subprocess.DEVNULL, timeout=1700)
    except subprocess.TimeoutExpired:
        rc = 124
    agg = collections.Counter()
    violating, samples = [], []
    if rc != 0 or not os.path.exists(out):
        violating.append((first, {"harness": "h_fwdm"}, [{"key": "harness", "judge": "harness", "why": "h_fwdm exited with %s for scenarios %d..%d" % (rc, first, first + count - 1), "step": 0}], []))
        return violating, agg, [("dust", samples)], 0
    sc = J.parse(out)
    total = 0
    for idx in range(first, first + count):
        recs = sc.get(idx)
        if not recs:
            violating.append((idx, {"harness": "h_fwdm"}, [{"key": "harness", "judge": "harness", "why": "no trace for scenario %d" % idx, "step": 0}], []))
            continue
        V, F, S = JM.judge(recs)
        total += 1
        for k, v in F.items():
            if isinstance(v, int):
                agg["m_" + k] += v
            else:
                agg["m_%s=%s" % (k, v)] += 1
        if len(samples) < 40:
            samples += S
        if V:
            ex = [" ".join([kind] + ["%s=%s" % kv for kv in d.items() if kv[0] != "raw"]) + " @%d" % step
                  for (_, step, kind, d) in recs
                  if kind not in ("MGRPERSIST",) and not (kind == "BLOCK" and not d.get("txs"))]
            violating.append((idx, {"harness": "h_fwdm", "params": recs[0][3].get("raw", "")[:600]}, V, ex[-200:]))
    if not violating:
        os.remove(out)
    return violating, agg, [("dust", samples)], total


def _scripted_worker(args):
    """Scripted families of h_fwdm: ('scripted', bin, subcmd, a, b, outfile)."""
    import collections
    import subprocess
    from props.c02 import fwdjudge as J, fwdmjudge as JM
    _, binm, sub, a, b, out = args
    try:
        rc = subprocess.call([binm, sub, str(a), str(b), out], cwd=os.path.dirname(out),
                             stdout=subprocess.DEVNULL, stderr=subprocess.DEVNULL, timeout=1700)
    except subprocess.TimeoutExpired:
        rc = 124
    agg = collections.Counter()
    violating, cases = [], []
    if rc != 0 or not os.path.exists(out):
        violating.append((0, {"harness": "h_fwdm", "script": sub}, [{"key": "harness", "judge": "harness", "why": "h_fwdm %s exited with %s" % (sub, rc), "step": 0}], []))
        return violating, agg, [("scripted", cases)], 0
    n = 0
    for (k, recs) in sorted(J.parse(out).items()):
        V, F = JM.judge_scripted(recs)
        for kk, vv in F.items():
            agg["s_" + kk] += vv
        for (_, step, kind, kv) in recs:
            if kind in ("ICPT", "ONCH"):
                cases.append((kind, kv))
                n += 1
            if kind == "SPLICE":
                n += 1
                if int(kv.get("claims", "0")) == 0 and kv.get("htlc_output") == "true":
                    V.append({"key": "c:late-preimage-onchain", "judge": "c:claim-whenever-known (on chain)",
                              "why": "B learned the preimage %s the upstream commitment (splice state %s) confirmed, the HTLC has an output there, and B broadcast no claim for it" % (
                                  {"0": "before", "1": "right after", "2": "six blocks after"}.get(kv.get("timing"), "?"),
                                  {"0": "none", "1": "splice confirmed, not locked"}.get(kv.get("splice"), "?")), "step": 0, "case": kv})
        if V:
            violating.append((k, {"harness": "h_fwdm", "script": sub, "case": V[0].get("case", {}),
                                  "rerun": "%s %s %s %s /tmp/c02s.trace" % (binm, sub, a, b)}, V, []))
    if not violating:
        os.remove(out)
    return violating, agg, [("scripted", cases)], n


def scripted_model_check(ctx, cases):
    """The model's prediction for every scripted interception / on-chain case against what the node did."""
    exprs, meta = [], []
    for (kind, kv) in cases:
        if kind == "ICPT" and kv["kind"] in ("0", "1"):
            k, fi, fu = ("ScidIntercept", "true", "false") if kv["kind"] == "0" else ("ScidOther", "false", "true")
            exprs.append("match no_channel_admission %s %s %s %s %s %s %s %s with ROk b => if b then 1 else 0 | RErr _ => -1 end" % (
                k, fi, fu, kv["height"], kv["in_amt"], kv["in_cltv"], kv["onion_amt"], kv["onion_cltv"]))
            meta.append((kind, kv, 1 if kv["intercepted"] == "1" else -1))
        elif kind == "ICPT" and kv["kind"] in ("2", "3", "4"):
            # a known channel: the regenerated config check and CLTV check decide (htlc_minimum is far below)
            exprs.append("match internal_htlc_satisfies_config %s %s %s %s (mkChannelConfig %s %s %s) with ROk _ => match check_incoming_htlc_cltv %s %s %s MIN_CLTV_EXPIRY_DELTA with ROk _ => 1 | RErr _ => -1 end | RErr _ => -1 end" % (
                kv["in_amt"], kv["in_cltv"], kv["onion_amt"], kv["onion_cltv"], kv["prop"], kv["base"], kv["delta"],
                kv["height"], kv["onion_cltv"], kv["in_cltv"]))
            meta.append((kind, kv, 1 if kv["intercepted"] == "1" else -1))
        elif kind == "ONCH":
            # the judge's "live output" (read off the confirmed transaction) against the regenerated is_dust
            # of Gen/TxBuilder.v for the commitment that confirmed: B's own (HTLC offered) or C's (HTLC received)
            if "feerate" in kv:
                holder = kv["which"] in ("0", "1")
                exprs.append("if is_dust (mkHTLCAmountDirection true %s) %s %s 354 (mkChannelTypeFeatures false false) then 0 else 1" % (
                    kv["amt"], "true" if holder else "false", kv["feerate"]))
                outs0 = [int(x) for x in kv["outs"].split("/") if x]
                meta.append(("ONCH-dust", kv, 1 if (int(kv["amt"]) // 1000) in outs0 else 0))
            ck = {"0": "HolderCurrent", "1": "HolderPrevious", "2": "CounterpartyCurrent"}[kv["which"]]
            outs = [int(x) for x in kv["outs"].split("/") if x]
            live = (int(kv["amt"]) // 1000) in outs
            pre = "; LFailMsg; LCommitFail" if kv["which"] == "1" else ""
            exprs.append("cu (up (m (run init [LForward%s; LCloseD %s %s; LChainNoOutputBuried])))" % (pre, ck, "true" if live else "false"))
            meta.append((kind, kv, 3 if int(kv["failed_at_depth"]) >= 0 else 0))
    if not exprs:
        return [], 0
    from props.c02 import fwdmodel as FM
    B = 60
    groups = [exprs[i:i + B] for i in range(0, len(exprs), B)]
    vals = ctx.coq_eval("corr_scripted", ["LdkV.Prim.U64", "LdkV.Gen.Consts", "LdkV.Gen.CltvChecks", "LdkV.Gen.CfgChecks", "LdkV.Gen.FwdChecks",
                                          "LdkV.Gen.ChanUtilsFees", "LdkV.Gen.TxBuilder", "LdkV.Model.FwdAdmission", "LdkV.Model.Fwd"],
                        ["[" + "; ".join("(%s)" % e for e in g) + "]" for g in groups], prelude=FM.PRELUDE, shards=min(8, len(groups)))
    got = [int(x) for v in vals for x in re.findall(r"-?\d+", v)]
    bad = []
    for (kind, kv, exp), g in zip(meta, got):
        if g != exp:
            bad.append({"scripted_case": kind, "case": kv, "model": g, "implementation": exp})
    return bad, len(exprs)


def dust_crosscheck(ctx, samples):
    """The judge's own dust arithmetic (fwdmjudge.dust_sum) against the regenerated get_dust_exposure_stats of
    Gen/TxBuilder.v on the HTLC sets met in the traces. Returns list of disagreements."""
    if not samples:
        return []
    exprs = []
    for (hs, f, dl, cdl, loc, rem) in samples:
        lst = "[" + "; ".join("mkHTLCAmountDirection %s %d" % ("true" if o else "false", a) for (o, a) in hs) + "]"
        exprs.append("(fst (get_dust_exposure_stats true %s %d None %d (mkChannelTypeFeatures false false)), fst (get_dust_exposure_stats false %s %d None %d (mkChannelTypeFeatures false false)))" % (lst, f, dl, lst, f, cdl))
    vals = ctx.coq_eval("corr_dust", ["LdkV.Prim.U64", "LdkV.Gen.ChanUtilsFees", "LdkV.Gen.TxBuilder"], exprs, prelude="Import ListNotations.\nOpen Scope Z_scope.", shards=min(8, max(1, len(exprs) // 10)))
    bad = []
    for (hs, f, dl, cdl, loc, rem), v in zip(samples, vals):
        got = [int(x) for x in re.findall(r"-?\d+", v)]
        if got != [loc, rem]:
            bad.append({"htlcs": hs, "feerate": f, "judge": [loc, rem], "generated": got})
    return bad


def trace_check(ctx, model_ok):
    """Runs the seeded scenarios of h_fwd in parallel, evaluates the judges of tools/props/c02/fwdjudge.py on
    every trace and checks that Model/Fwd.v accepts the mapped traces (tools/props/c02/fwdmodel.py).
    Returns (violating, coverage, mismatches)."""
    import collections
    import multiprocessing
    import time as _t
    from props.c02 import fwdmodel as FM
    shards = core.NPROC
    per_round = 150 if ctx.tier == "quick" else 1000
    per_round_m = 75 if ctx.tier == "quick" else 400
    rounds = 1 if ctx.tier == "quick" else int(os.environ.get("C02_THOROUGH_ROUNDS", "3"))
    binp = ctx.bin_path("h_fwd")
    binm = ctx.bin_path("h_fwdm")
    agg = collections.Counter()
    violating, items, dust_samples = [], [], []
    total = 0
    t0 = _t.time()
    jobs = []
    for rnd in range(rounds):
        for sh in range(shards):
            first = (rnd * shards + sh) * per_round
            jobs.append((binp, ctx.seed, first, per_round, os.path.join(ctx.tmp, "fwd_%d_%d.trace" % (rnd, sh))))
            if HAVE_FWDM:
                firstm = (rnd * shards + sh) * per_round_m
                jobs.append((binm, ctx.seed, firstm, per_round_m, os.path.join(ctx.tmp, "fwdm_%d_%d.trace" % (rnd, sh))))
    scripted_cases = []
    if HAVE_FWDM:
        jobs.append(("scripted", binm, "intercept", 0, 0, os.path.join(ctx.tmp, "fwdm_intercept.trace")))
        jobs.append(("scripted", binm, "splice", 0, 0, os.path.join(ctx.tmp, "fwdm_splice.trace")))
        for sh in range(8):
            jobs.append(("scripted", binm, "onchain", sh, 8, os.path.join(ctx.tmp, "fwdm_onchain_%d.trace" % sh)))
    with multiprocessing.Pool(shards) as pool:
        for (v, a, mi, n) in pool.imap_unordered(_fwd_worker, jobs):
            violating += v
            agg.update(a)
            total += n
            if mi and mi[0][0] == "scripted":
                scripted_cases += mi[0][1]
            elif mi and mi[0][0] == "dust":
                if len(dust_samples) < 400:
                    dust_samples += mi[0][1]
            elif len(items) < (4000 if ctx.tier == "quick" else 20000):
                items += mi
    # the scripted reproduction of finding F1 (deterministic; reported as KNOWN-FINDING while it reproduces)
    from props.c02 import fwdjudge as J
    outp = os.path.join(ctx.tmp, "fwd_script1.trace")
    core.sh([binp, "script1", "7", "0", outp], cwd=ctx.tmp, timeout=600)
    try:
        sc1 = J.parse(outp)
        V1, _ = J.judge(sc1.get(0, []))
        cov_script = [v["key"] for v in V1]
        if V1:
            violating.append((-1, {"script": "script1"}, V1, []))
    except Exception as ex:
        cov_script = ["error: %r" % (ex,)]
    agg["script1_violation_keys=" + ",".join(sorted(set(cov_script)))] += 1
    violating.sort(key=lambda x: (x[1].get("harness", ""), x[0]))
    items.sort(key=lambda x: x[0])
    ctx.timed("fwd_traces_s", _t.time() - t0)
    cov = dict(agg)
    cov["scenarios"] = total
    # ---- the model must accept the real traces
    mism = []
    if model_ok and items:
        exprs = [FM.coq_expr(labels) for (_, labels, _) in items]
        vals = ctx.coq_eval("corr_fwd", FM.IMPORTS, exprs, prelude=FM.PRELUDE, shards=min(16, max(1, len(exprs) // 20)))
        nchecks = 0
        for (idx, labels, checks), v in zip(items, vals):
            obs = [[int(x) for x in re.findall(r"-?\d+", grp)] for grp in re.findall(r"\[([^\[\]]*)\]", v)]
            nchecks += len(checks)
            bad = FM.compare(obs, checks)
            if bad:
                mism.append({"scenario_index": idx, "labels": labels, "mismatches": bad[:4]})
        cov["model_traces_checked"] = len(items)
        cov["model_checks"] = nchecks
        cov["model_mismatching_traces"] = len(mism)
    if model_ok and scripted_cases:
        bad, nsc = scripted_model_check(ctx, scripted_cases)
        cov["scripted_model_checks"] = nsc
        if bad:
            mism.append({"scripted_cases_vs_model": bad[:4], "n": len(bad)})
    if model_ok and dust_samples:
        bad = dust_crosscheck(ctx, dust_samples[:400])
        cov["dust_crosscheck_points"] = len(dust_samples[:400])
        if bad:
            mism.append({"dust_arithmetic_vs_generated": bad[:3]})
    return violating, cov, mism


# ------------------------------------------------------------------ run
def run(ctx):
    ok_build, out = ctx.build_harness(BINS)
    if not ok_build:
        ctx.violation("harness does not build against the current tree", {"broken": "harness-build", "log_tail": out[-3000:]}, False)
        ctx.write_evidence(LEVEL)
        return
    gen_errs = generate(ctx)
    pins = structural_pins()
    for e in pins:
        ctx.log("structural pin failed:", e)
        ctx.obligations.append(("structural-pin", False, e))
    if not pins:
        ctx.obligations.append(("structural-pin", True, "no-channel arm of can_forward_htlc_should_intercept: amount and CLTV sanity checks dominate the phantom/intercept outcomes"))
    for e in gen_errs:
        ctx.log("generation refused:", e)
        ctx.obligations.append(("rs2v-generation", False, e))
    proved = False
    model_ok = False
    fwd_model_ok = False
    if not gen_errs:
        model_ok, outm = ctx.coq_make(["Model/FwdAdmission.vo"])
        if not model_ok:
            ctx.log("model does not build:", outm[-1500:])
        fwd_model_ok, outf = ctx.coq_make(["Model/Fwd.vo"])
        proved = ctx.prove("C02")
    ctx.trusted_base += [
        "Coq 8.16.1 kernel + vm_compute (no native_compute)",
        "tools/rs2v translation of internal_htlc_satisfies_config, amt_to_forward_msat, check_blinded_forward, check_incoming_htlc_cltv and the anchored expressions of update_config / maybe_expire_prev_config / update_partial_channel_config / can_forward_htlc_should_intercept (regenerated every run; rewrites listed in evidence)",
        "Model/FwdAdmission.v glue (state update + current-then-previous fallback), tied by functional correspondence on a live channel through lightning feature _verif_hooks",
        "harness crate /verif/harness (h_fwdadm) and LDK functional_test_utils",
    ]
    ctx.assumptions += ["hooks call the same functions the library calls (thin wrappers, add-only)"]
    dis, fails = functional(ctx, model_ok)
    n = sum(v for k, v in ctx.coverage.get("functional_cases", {}).items() if k != "config_chunks")
    tviol, tcov, tmism = ([], {}, [])
    if HAVE_FWD:
        tviol, tcov, tmism = trace_check(ctx, fwd_model_ok)
        ctx.coverage["fwd_trace_coverage"] = tcov
        ctx.trusted_base.append("harness h_fwd (scheduler, scripted persister with durable-snapshot model, block builder) and the judges of tools/props/c02/fwdjudge.py")
        ctx.assumptions += ["a restart finds, per monitor, a version at least as new as the newest one reported complete, and the most recently written manager",
                            "on restart monitors and manager are brought to the chain tip before use (as lightning-block-sync does)"]
    ctx.coverage["evaluations"] = n + tcov.get("scenarios", 0)
    ctx.coverage["distinct_nontrivial"] = n + tcov.get("forwarded", 0)
    ctx.coverage["rule"] = ("admission: distinct inputs by construction (sets) for amt_to_forward_msat / check_blinded_forward; "
                            "every config-state-machine op is one evaluation compared after the op; non-trivial = reaches the function under test. "
                            "traces: one seeded scenario (parameters + schedule) each, all distinct by construction; non-trivial = B actually offered the HTLC downstream")
    ctx.coverage["translated_items"] = getattr(ctx, "gen_meta", [])
    ctx.coverage["hand_functions"] = ["FundedChannel::htlc_satisfies_config (fallback glue)", "ChannelContext::update_config (state update)",
                                      "ChannelContext::maybe_expire_prev_config (state update)", "update_partial_channel_config (reject applies nothing)"]
    # ---- decide (DESIGN.md section 9)
    broken = []
    if gen_errs:
        broken.append({"obligation": "rs2v regeneration", "detail": gen_errs})
    elif not proved:
        broken.append({"obligation": "Coq proof of Props/C02.v", "detail": getattr(ctx, "proof_failure", {})})
    if pins:
        broken.append({"obligation": "structural pin", "detail": pins})
    if dis:
        broken.append({"correspondence": "h_fwdadm vs generated/hand model", "first_disagreements": dis[:5], "n": len(dis)})
    if tmism:
        broken.append({"correspondence": "h_fwd traces vs Model/Fwd.v", "first_disagreements": tmism[:3], "n": len(tmism)})
    seen_fn = set()
    for f in fails:
        if f["function"] in seen_fn:
            continue
        seen_fn.add(f["function"])
        ctx.violation("C02 admission fails on the implementation: %s: %s" % (f["function"], f["why"]),
                      {"broken": broken or "implementation-side judge", "failing_input": f,
                       "replay_cmd": "printf '%s\\n' | %s | grep '^R '" % ("\\n".join(f.get("lines", [f.get("line", "")])), ctx.bin_path("h_fwdadm"))},
                      True, key="adm:" + f["function"] + ":" + f["why"][:40])
    n_before = len(ctx.violations)
    # every distinct kind of violation is reported (a recorded finding must not hide another one)
    seen_keys = set()
    reported = 0
    for (idx, params, V, ex) in tviol:
        v = V[0]
        if v.get("key", v["judge"]) in seen_keys or reported >= 6:
            continue
        seen_keys.add(v.get("key", v["judge"]))
        reported += 1
        ctx.violation("C02 fails on real nodes: %s: %s" % (v["judge"], v["why"][:300]),
                      {"broken": broken or "implementation-side trace judge", "judge": v["judge"], "scenario_index": idx, "scenario_params": params,
                       "harness": params.get("harness", "h_fwd"),
                       "all_violations": V[:5], "trace_tail": ex,
                       "replay_cmd": "%s one %d %d /tmp/c02.trace >/dev/null 2>&1; grep -v PERSISTFULL /tmp/c02.trace" % (ctx.bin_path(params.get("harness", "h_fwd")), ctx.seed, idx)},
                      True, key="fwd:" + v.get("key", v["judge"]))
    if tviol:
        ctx.coverage["fwd_violating_scenarios"] = len(tviol)
    if broken and not fails and len(ctx.violations) == n_before:
        what = "rs2v refused the changed source" if gen_errs else ("proof" if not proved else "correspondence")
        ctx.violation("C02 admission no longer shown: %s broken" % what,
                      {"broken": broken, "search": "implementation-side judges over %d boundary-biased and random evaluations found no failing input" % n}, False)
    ctx.write_evidence(LEVEL)


def replay(ctx, rep):
    """Re-runs a recorded failing input on the implementation and prints what the judges say."""
    print(json.dumps(dict((k, v) for k, v in rep.items() if k != "trace_tail"), indent=1)[:6000])
    ok_build, out = ctx.build_harness(BINS)
    if not ok_build:
        print("harness does not build")
        return 1
    if "scenario_index" in rep:
        from props.c02 import fwdjudge as J
        idx = int(rep["scenario_index"])
        outp = os.path.join(ctx.tmp, "replay_%d.trace" % idx)
        if rep.get("harness") == "h_fwdm":
            from props.c02 import fwdmjudge as JM
            core.sh([ctx.bin_path("h_fwdm"), "one", str(rep.get("seed", ctx.seed)), str(idx), outp], cwd=ctx.tmp, timeout=600)
            sc = J.parse(outp)
            V, F, _ = JM.judge(sc.get(idx, []))
            for l in open(outp, errors="replace"):
                if " MGRPERSIST " not in l and not re.search(r"BLOCK height=\d+ txs=$", l.rstrip()):
                    print(l.rstrip()[:300])
            print("judges:", json.dumps(V, indent=1))
            return 1 if V else 0
        if idx < 0:
            core.sh([ctx.bin_path("h_fwd"), "script1", "7", "0", outp], cwd=ctx.tmp, timeout=600)
            idx = 0
        else:
            core.sh([ctx.bin_path("h_fwd"), "one", str(rep.get("seed", ctx.seed)), str(idx), outp], cwd=ctx.tmp, timeout=600)
        sc = J.parse(outp)
        V, F = J.judge(sc.get(idx, []))
        for l in open(outp, errors="replace"):
            if " PERSISTFULL " not in l and " MGRPERSIST " not in l and not re.search(r"BLOCK height=\d+ txs=$", l.rstrip()):
                print(l.rstrip()[:300])
        print("judges:", json.dumps(V, indent=1))
        return 1 if V else 0
    f = rep.get("failing_input")
    if not f:
        return 0
    lines = f.get("lines") or [f.get("line", "")]
    rc, out = ctx.run_bin("h_fwdadm", "\n".join(lines) + "\n")
    print("\n".join(l for l in out if l.startswith("R ")))
    return 0
