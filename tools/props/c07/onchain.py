"""C07 layer 2: real channels closed unilaterally in generated states (harness/src/bin/h_onchain.rs).
Every judge runs inside the harness on the real nodes; this module only schedules scenarios, aggregates
the verdicts and maps known behaviours to their known_findings.json keys."""
import json
import os
import subprocess

from vlib import core

KNOWN_WHAT = {
    "F1-stale-holder-htlc-timeout-after-counterparty-claim":
        "non-anchor holder commitment: pre-signed HTLC-timeout is broadcast at its locktime although the counterparty's preimage claim of that output confirmed (and matured) long before",
    "F2-duplicate-timelocked-holder-htlc-claim-after-late-preimage":
        "holder commitment + anchors: a preimage provided after the close re-requests the aggregated time-locked HTLC-timeout package; the duplicate is not recognised and trips debug_assert at onchaintx.rs (second claim with the same ClaimId)",
    "F3-late-preimage-on-holder-commitment-reclaims-resolved-htlcs":
        "holder commitment: a preimage provided after the close re-requests claims of HTLC outputs whose spend already matured; with anchors they are aggregated with the fresh HTLC-success claim into a transaction that can never confirm, and the HTLC is lost to the counterparty's timeout",
}


def _run_parallel(ctx, first, count, tier, procs, budget):
    exe = ctx.bin_path("h_onchain")
    per = (count + procs - 1) // procs
    ps = []
    for i in range(procs):
        lo = first + i * per
        n = min(per, first + count - lo)
        if n <= 0:
            break
        cmd = "VERIF_DEADLINE_S=%d %s run %d %d %s model 2>/dev/null | grep -a '^R '" % (budget, exe, lo, n, tier)
        ps.append((lo, n, subprocess.Popen(["timeout", "2400", "bash", "-c", cmd], cwd=ctx.tmp, stdout=subprocess.PIPE, universal_newlines=True, errors="replace")))
    recs, missing = [], []
    for lo, n, p in ps:
        out, _ = p.communicate()
        got = []
        for l in out.split("\n"):
            if l.startswith("R {"):
                try:
                    got.append(json.loads(l[2:]))
                except ValueError:
                    pass
        recs += got
        seen = set(r.get("seed") for r in got)
        missing += [s for s in range(lo, lo + n) if s not in seen]
    return recs, missing


MODEL_IMPORTS = ["LdkV.Prim.U64", "LdkV.Gen.Consts", "LdkV.Model.PackageTimer", "LdkV.Model.OnchainClaims"]
MODEL_PRELUDE = """
Open Scope Z_scope.
Definition code_of (b : balance) : Z * Z :=
  match b with BalAwaiting a => (1, a) | BalContentious a => (2, a) | BalMaybeTimeout a => (3, a) | BalMaybePreimage a => (4, a) end.
Definition obs_of (c : closure) (st : mstate) : Z * list (Z * Z) * list Z :=
  (spendable_total st, map code_of (balances c st), map Z.of_nat (claiming c st)).
Fixpoint scan (c : closure) (st : mstate) (ops : list op) : list (Z * list (Z * Z) * list Z) :=
  match ops with [] => [] | o :: t => let st' := step c st o in obs_of c st' :: scan c st' t end.
Definition scan_all (c : closure) (k0 : list nat) (ops : list op) := obs_of c (init c k0) :: scan c (init c k0) ops.
"""
KIND = {"A": 1, "C": 2, "T": 3, "M": 4, "X": 9}


def _parse_model_trace(m):
    """-> (coq expression, [(position, expected observation)])"""
    toks = m.split(" ")
    hd = toks[0][1:].split("|")
    side = "HolderTx" if hd[0] == "holder" else "CounterpartyTx"
    htlcs = []
    for h in [x for x in hd[4].split(",") if x]:
        o, amt, exp, has, hid = h.split(".")
        htlcs.append("mkHtlc %s %s %s %s %s" % ("true" if o == "1" else "false", amt, exp, "true" if has == "1" else "false", hid))
    known0 = [x for x in hd[5].split(",") if x]
    ops, marks = [], []
    for t in toks[1:]:
        if t.startswith("P"):
            ops.append("OpPreimage %s%%nat" % t[1:])
        elif t.startswith("B") or t.startswith("S"):
            sp = []
            for x in [y for y in t[1:].split(",") if y]:
                i, ours, pre = x.split(".")
                sp.append("mkSpend %s%%nat %s %s" % (i, "true" if ours == "1" else "false", "true" if pre == "1" else "false"))
            ops.append("OpBlock %s [%s]" % ("true" if t.startswith("B") else "false", "; ".join(sp)))
        elif t.startswith("O"):
            body, handed, cov = t[1:].split("#")
            bl = sorted((KIND[x[0]], int(x[1:])) for x in body.split(".") if x)
            marks.append((len(ops), (int(handed), bl, sorted(int(x) for x in cov.split(".") if x))))
    expr = "scan_all (mkClosure %s %s %s %s [%s]) [%s] [%s]" % (
        side, hd[1], hd[2], hd[3], "; ".join(htlcs), "; ".join(k + "%nat" for k in known0), "; ".join(ops))
    return expr, marks


def model_correspondence(ctx, recs, limit):
    """The real monitor's balances and cumulative spendable value after every block against Model/OnchainClaims.v."""
    import ast
    cases = []
    for r in recs:
        if not r.get("ok") or r.get("aborted"):
            continue
        for m in r.get("model", []):
            if m.startswith("H"):
                cases.append((r["seed"], m))
        if len(cases) >= limit:
            break
    if not cases:
        return [], 0, 0
    exprs, marks = [], []
    for seed, m in cases:
        e, mk = _parse_model_trace(m)
        exprs.append(e)
        marks.append(mk)
    vals = ctx.coq_eval("corr_onchain", MODEL_IMPORTS, exprs, prelude=MODEL_PRELUDE, shards=min(core.NPROC, max(1, len(exprs) // 4)))
    dis, nobs = [], 0
    for (seed, m), mk, v in zip(cases, marks, vals):
        try:
            res = ast.literal_eval(v.replace(";", ","))
        except (ValueError, SyntaxError):
            dis.append({"seed": seed, "error": "unparsable model output", "value": v[:200]})
            continue
        for pos, (handed, bl, cov) in mk:
            nobs += 1
            if pos >= len(res):
                dis.append({"seed": seed, "error": "model trace shorter than the observation"})
                break
            msp, mbl, mcl = res[pos]
            mbl = sorted((int(a), int(b)) for a, b in mbl)
            mcl = sorted(int(a) for a in mcl)
            if msp != handed or mbl != bl or mcl != cov:
                dis.append({"seed": seed, "op_index": pos, "model": {"spendable_total": msp, "balances": mbl, "claiming": mcl},
                            "impl": {"spendable_total": handed, "balances": bl, "claiming": cov}, "trace_head": m[:300]})
                break
    return dis, len(cases), nobs


def run(ctx):
    import time
    t0 = time.time()
    rng = ctx.rng.fork("c07-onchain")
    tier = "quick" if ctx.tier == "quick" else "thorough"
    count = 600 if ctx.tier == "quick" else 20000
    first = 1 + rng.below(10 ** 9)
    # time budget per process: scenarios not started in time are skipped (reported), never guessed
    recs, missing = _run_parallel(ctx, first, count, tier, min(core.NPROC, 14), 50 if ctx.tier == "quick" else 660)
    skipped = sum(1 for r in recs if r.get("skipped"))
    recs = [r for r in recs if not r.get("skipped")]
    ctx.coverage["onchain_skipped_for_time"] = skipped
    ctx.timed("onchain_s", time.time() - t0)
    fails = []
    for s in missing[:3]:
        fails.append({"why": "scenario produced no verdict (harness crashed or timed out)", "seed": s, "tier": tier,
                      "replay_cmd": "%s replay %d %s" % (ctx.bin_path("h_onchain"), s, tier)})
    agg = {}
    kinds = {"chan_type": {}, "closer": {}, "prev_commitment": {}, "n_htlcs": {}, "splice": {}}
    splice_names = {0: "none", 1: "splice-in confirmed, closed on the new funding", 2: "splice-out confirmed, closed on the new funding",
                    3: "splice-in never confirmed, closed on the original funding", 4: "splice-out never confirmed, closed on the original funding"}
    splice_holder_judged = 0
    known_hit = {}
    nontrivial = 0
    for r in recs:
        cfg = r.get("cfg") or {}
        if isinstance(cfg, dict):
            for k in ("chan_type", "closer", "prev_commitment"):
                v = str(cfg.get(k))
                kinds[k][v] = kinds[k].get(v, 0) + 1
            sp = (cfg.get("splice") or [0])[0]
            kinds["splice"][splice_names.get(sp, str(sp))] = kinds["splice"].get(splice_names.get(sp, str(sp)), 0) + 1
            if sp in (1, 2) and r.get("ok") and not r.get("aborted"):
                splice_holder_judged += 1
            nh = str(len(cfg.get("htlcs", [])))
            kinds["n_htlcs"][nh] = kinds["n_htlcs"].get(nh, 0) + 1
        st = r.get("stats") or {}
        for k, v in st.items():
            if isinstance(v, int):
                agg[k] = agg.get(k, 0) + v
        if st.get("claims_confirmed", 0) > 0 or r.get("aborted"):
            nontrivial += 1
        for f in st.get("findings", []):
            known_hit.setdefault(f, r)
        if not r.get("ok"):
            r = dict(r)
            r["replay_cmd"] = "%s replay %d %s" % (ctx.bin_path("h_onchain"), r.get("seed"), tier)
            fails.append(r)
    for key, r in sorted(known_hit.items()):
        ctx.violation("closed-channel scenario: " + KNOWN_WHAT.get(key, key),
                      {"broken": "trace judge", "scenario": {"seed": r.get("seed"), "tier": tier, "cfg": r.get("cfg"), "detail": r.get("detail")},
                       "replay_cmd": "%s replay %d %s" % (ctx.bin_path("h_onchain"), r.get("seed"), tier)}, True, key=key)
    ctx.coverage["onchain_scenarios"] = len(recs)
    ctx.coverage["onchain_aborted_on_known_finding"] = sum(1 for r in recs if r.get("aborted"))
    ctx.coverage["onchain_totals"] = agg
    ctx.coverage["onchain_scenario_histograms"] = kinds
    ctx.coverage["onchain_first_seed"] = first
    ctx.coverage["onchain_input_distribution"] = (
        "ASYMMETRIC nodes by default: our_to_self_delay drawn per node from 144..215, never equal; our_htlc_minimum_msat "
        "per node from 1..1000; per-node fee estimators moving independently during the run; channel type (non-anchor, "
        "anchors with zero-fee HTLC transactions, zero-fee commitments) per channel; the dust limit is a constant of the "
        "implementation and the same on both sides. One scenario in four (never with the previous-commitment mode) "
        "negotiates a splice-in or splice-out first that is never locked: in half of them it confirms and the channel "
        "is closed by a commitment on the new funding (the monitor's pending scope), in the other half it never "
        "confirms and the original funding's commitment closes the channel.")
    # the scope judges are vacuous without scenarios in which the pending scope's commitment confirmed
    ok_sp = len(recs) < 150 or splice_holder_judged > 0
    ctx.obligations.append(("coverage:pending-funding-scope-closes", ok_sp, "%d judged scenarios in which a commitment on a confirmed, never locked splice closed the channel" % splice_holder_judged))
    if not ok_sp:
        fails.append({"why": "no scenario closed the channel on a pending funding scope: the funding-scope judges were vacuous", "seed": first, "tier": tier,
                      "replay_cmd": "%s replay %d %s" % (ctx.bin_path("h_onchain"), first, tier)})
    ok = [r for r in recs if r.get("ok") and not r.get("aborted")]
    if ok:
        for r in (ok[0], ok[len(ok) // 2]):
            r = dict(r)
            r["model"] = [m[:400] for m in r.get("model", [])]
            ctx.samples.append(r)
    return fails, nontrivial, recs


def replay(ctx, sc):
    seed, tier = sc.get("seed"), sc.get("tier", "quick")
    exe = ctx.bin_path("h_onchain")
    cmd = "%s replay %d %s 2>/dev/null | grep -a '^[RT] '" % (exe, seed, tier)
    p = subprocess.run(["bash", "-c", cmd], stdout=subprocess.PIPE, universal_newlines=True, errors="replace")
    print(p.stdout[-20000:])
    for l in p.stdout.split("\n"):
        if l.startswith("R {"):
            try:
                return 0 if json.loads(l[2:]).get("ok") else 1
            except ValueError:
                pass
    return 1
