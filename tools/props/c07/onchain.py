"""C07 layer 2: real channels closed unilaterally in generated states (harness/src/bin/h_onchain.rs).
Every judge runs inside the harness on the real nodes; this module only schedules scenarios, aggregates
the verdicts and maps known behaviours to their known_findings.json keys."""
import json
import os
import subprocess

from vlib import core

KNOWN_WHAT = {
    "F1-stale-holder-htlc-timeout-after-counterparty-claim":
        "non-anchor holder commitment: pre-signed HTLC-timeout is broadcast at its locktime although the counterparty's preimage claim of that output confirmed (and matured) long before",
    "F2-duplicate-timelocked-holder-htlc-claim-after-late-preimage":
        "holder commitment + anchors: a preimage provided after the close re-requests the aggregated time-locked HTLC-timeout package; the duplicate is not recognised and trips debug_assert at onchaintx.rs (second claim with the same ClaimId)",
    "F3-late-preimage-on-holder-commitment-reclaims-resolved-htlcs":
        "holder commitment: a preimage provided after the close re-requests claims of HTLC outputs whose spend already matured; with anchors they are aggregated with the fresh HTLC-success claim into a transaction that can never confirm, and the HTLC is lost to the counterparty's timeout",
}


def _run_parallel(ctx, first, count, tier, procs):
    exe = ctx.bin_path("h_onchain")
    per = (count + procs - 1) // procs
    ps = []
    for i in range(procs):
        lo = first + i * per
        n = min(per, first + count - lo)
        if n <= 0:
            break
        cmd = "%s run %d %d %s 2>/dev/null | grep -a '^R '" % (exe, lo, n, tier)
        ps.append((lo, n, subprocess.Popen(["timeout", "2400", "bash", "-c", cmd], cwd=ctx.tmp, stdout=subprocess.PIPE, universal_newlines=True, errors="replace")))
    recs, missing = [], []
    for lo, n, p in ps:
        out, _ = p.communicate()
        got = []
        for l in out.split("\n"):
            if l.startswith("R {"):
                try:
                    got.append(json.loads(l[2:]))
                except ValueError:
                    pass
        recs += got
        seen = set(r.get("seed") for r in got)
        missing += [s for s in range(lo, lo + n) if s not in seen]
    return recs, missing


def run(ctx):
    import time
    t0 = time.time()
    rng = ctx.rng.fork("c07-onchain")
    tier = "quick" if ctx.tier == "quick" else "thorough"
    count = 900 if ctx.tier == "quick" else 40000
    first = 1 + rng.below(10 ** 9)
    recs, missing = _run_parallel(ctx, first, count, tier, min(core.NPROC, 14))
    ctx.timed("onchain_s", time.time() - t0)
    fails = []
    for s in missing[:3]:
        fails.append({"why": "scenario produced no verdict (harness crashed or timed out)", "seed": s, "tier": tier,
                      "replay_cmd": "%s replay %d %s" % (ctx.bin_path("h_onchain"), s, tier)})
    agg = {}
    kinds = {"chan_type": {}, "closer": {}, "prev_commitment": {}, "n_htlcs": {}}
    known_hit = {}
    nontrivial = 0
    for r in recs:
        cfg = r.get("cfg") or {}
        if isinstance(cfg, dict):
            for k in ("chan_type", "closer", "prev_commitment"):
                v = str(cfg.get(k))
                kinds[k][v] = kinds[k].get(v, 0) + 1
            nh = str(len(cfg.get("htlcs", [])))
            kinds["n_htlcs"][nh] = kinds["n_htlcs"].get(nh, 0) + 1
        st = r.get("stats") or {}
        for k, v in st.items():
            if isinstance(v, int):
                agg[k] = agg.get(k, 0) + v
        if st.get("claims_confirmed", 0) > 0 or r.get("aborted"):
            nontrivial += 1
        for f in st.get("findings", []):
            known_hit.setdefault(f, r)
        if not r.get("ok"):
            r = dict(r)
            r["replay_cmd"] = "%s replay %d %s" % (ctx.bin_path("h_onchain"), r.get("seed"), tier)
            fails.append(r)
    for key, r in sorted(known_hit.items()):
        ctx.violation("closed-channel scenario: " + KNOWN_WHAT.get(key, key),
                      {"broken": "trace judge", "scenario": {"seed": r.get("seed"), "tier": tier, "cfg": r.get("cfg"), "detail": r.get("detail")},
                       "replay_cmd": "%s replay %d %s" % (ctx.bin_path("h_onchain"), r.get("seed"), tier)}, True, key=key)
    ctx.coverage["onchain_scenarios"] = len(recs)
    ctx.coverage["onchain_aborted_on_known_finding"] = sum(1 for r in recs if r.get("aborted"))
    ctx.coverage["onchain_totals"] = agg
    ctx.coverage["onchain_scenario_histograms"] = kinds
    ctx.coverage["onchain_first_seed"] = first
    ok = [r for r in recs if r.get("ok") and not r.get("aborted")]
    if ok:
        ctx.samples.append(ok[0])
        ctx.samples.append(ok[len(ok) // 2])
    return fails, nontrivial


def replay(ctx, sc):
    seed, tier = sc.get("seed"), sc.get("tier", "quick")
    exe = ctx.bin_path("h_onchain")
    cmd = "%s replay %d %s 2>/dev/null | grep -a '^[RT] '" % (exe, seed, tier)
    p = subprocess.run(["bash", "-c", cmd], stdout=subprocess.PIPE, universal_newlines=True, errors="replace")
    print(p.stdout[-20000:])
    for l in p.stdout.split("\n"):
        if l.startswith("R {"):
            try:
                return 0 if json.loads(l[2:]).get("ok") else 1
            except ValueError:
                pass
    return 1
