"""C13 — Peer messages round-trip through the wire format and decoding is total.

Proof: Coq theorems over a Gallina transliteration of util/ser.rs + ser_macros.rs (Codec/*.v) for ANY
well-formed schema, instantiated on the message schemas regenerated from ln/msgs.rs + ln/wire.rs on
every run (Gen/MsgSchemas.v, `schema_wf` by vm_compute).
Tie: regeneration + functional correspondence of the model decoder/encoder against the real
`wire::read` (hook `wire::verif_hooks_wire`) on a valid stream and a malformed stream.
Judge on the implementation: no panic, re-encode stable, canonical frames decode to themselves,
unknown odd TLV ignored / unknown even TLV, non-minimal BigSize rejected."""
import json
import os
import re

from vlib import core
from codec import schemas as sch

BINS = ["h_wire"]
LEVEL = "proof"
MANIFEST = {
    "category": "proof",
    "text": "Coq theorems (round trip, BigSize canonicity, unknown-odd-ignored, reject cases, no over-read, dispatch) for every well-formed schema, instantiated on the wire-message schemas regenerated from msgs.rs/wire.rs each run; model decoder/encoder diffed against the real wire::read on valid, truncated, mutated and extended frames; implementation-side judge (no panic, re-encode stability, canonical round trip, odd/even TLV rule).",
    "note": "Trusted: Coq kernel, schema extractor + Rust-type->codec table, secp256k1 point validity as an oracle. 10 irregular hand-written codecs (Init, Ping, Pong, TxAddInput, TxSignatures, OnionMessage, NodeAnnouncement, ChannelUpdate, QueryShortChannelIds, ReplyChannelRange) are covered by the implementation-side judge only.",
    "technique": "machine-checked proof in Coq over regenerated schemas + differential correspondence",
}

COQ_IMPORTS = ["Coq.Strings.Ascii", "LdkV.Prim.U64", "LdkV.Codec.Combinators", "LdkV.Codec.Tlv", "LdkV.Codec.Wire", "LdkV.Gen.MsgSchemas", "LdkV.Gen.WireLens", "LdkV.Codec.Addr"]
WIRELENS_CFG = os.path.join(os.path.dirname(os.path.abspath(sch.__file__)), "rs2v_configs", "WireLens.json")
PRELUDE = r"""
Open Scope Z_scope.
Definition nib (c : ascii) : Z := let n := Z.of_N (N_of_ascii c) in if n <? 58 then n - 48 else n - 87.
Fixpoint unhex (s : string) : bytes :=
  match s with
  | String a (String b t) => (nib a * 16 + nib b) :: unhex t
  | _ => []
  end.
Definition hexd (n : Z) : ascii := ascii_of_N (Z.to_N (if n <? 10 then n + 48 else n + 87)).
Fixpoint hex (b : bytes) : string :=
  match b with [] => EmptyString | x :: t => String (hexd (x / 16)) (String (hexd (x mod 16)) (hex t)) end.
Definition mk_pk (valid : list Z) : bytes -> bool := fun b => existsb (Z.eqb (be_val 0 b)) valid.
Fixpoint beqb (a b : bytes) : bool :=
  match a, b with [], [] => true | x :: a', y :: b' => (x =? y) && beqb a' b' | _, _ => false end.
(* a case: (base index or -1, cut, pos or -1, val, suffix hex, extra valid keys); the frame is
   (first [cut] bytes of the base, byte [pos] replaced by [val]) ++ suffix *)
Definition mkframe (bases : list (list Z * bytes)) (c : Z * Z * Z * Z * string * list Z) : list Z * bytes :=
  let '(k, cut, pos, val, suf, extra) := c in
  let '(bvalid, b) := if k <? 0 then ([], []) else nth (Z.to_nat k) bases ([], []) in
  let b1 := ztake cut b in
  let b2 := if pos <? 0 then b1 else ztake pos b1 ++ (match zdrop pos b1 with [] => [] | _ :: t => val :: t end) in
  (bvalid ++ extra, b2 ++ unhex suf).
Definition run (c : list Z * bytes) : string * Z * string :=
  let '(valid, b) := c in
  let pk := mk_pk valid in
  match read_u 2 b with
  | RErr e => (String.append "Err " e, 0, EmptyString)
  | ROk (ty, r) =>
    match find_schema all_schemas ty with
    | None => ("Unknown"%string, ty, EmptyString)
    | Some s =>
      match msg_dec pk s r with
      | RErr e => (String.append "Err " e, 0, EmptyString)
      | ROk (m, rest) =>
        let e := msg_enc s m in
        ("Ok"%string, len rest, if beqb e (ztake (len r - len rest) r) then "="%string else hex e)
      end
    end
  end.
"""

PRELUDE_FIELDS = r"""
Definition show_dec (r : rres (Z * bytes)) : string * Z * Z :=
  match r with ROk (v, rest) => ("Ok"%string, v, len rest) | RErr e => (String.append "Err " e, 0, 0) end.
Definition show_sa (h : string) : string * string * Z :=
  let b := unhex h in
  match sa_dec b with
  | ROk (inl a, r) => ("Ok"%string, hex (sa_enc a), len b - len r)
  | ROk (inr t, r) => ("Unknown"%string, hex [t], len b - len r)
  | RErr e => (String.append "Err " e, EmptyString, 0)
  end.
"""

SECP_N = 0xFFFFFFFFFFFFFFFFFFFFFFFFFFFFFFFEBAAEDCE6AF48A03BBFD25E8CD0364141


# ------------------------------------------------------------------ value/bytes generation from schemas
def parse_codec(c):
    """'FB (BU 8)' -> ('FB', ('BU', 8)); 'FSeq [BBytes 32; BU 1]' -> ('FSeq', [..]) ..."""
    def base(b):
        b = b.strip().strip("()").strip()
        p = b.split()
        return (p[0], int(p[1])) if len(p) == 2 else (p[0], None)
    c = c.strip()
    if c.startswith("FB"):
        return ("FB", base(c[2:]))
    if c.startswith("FSeq"):
        inner = c[c.index("[") + 1:c.rindex("]")]
        return ("FSeq", [base(x) for x in inner.split(";") if x.strip()])
    if c.startswith("FVecCL"):
        return ("FVecCL", base(c[6:]))
    if c.startswith("FRestVec"):
        return ("FRestVec", base(c[8:]))
    if c == "FRest":
        return ("FRest", None)
    if c == "FOpaque":
        return ("FOpaque", None)
    raise ValueError("codec " + c)


def bigsize(v):
    if v <= 0xFC:
        return bytes([v])
    if v <= 0xFFFF:
        return b"\xfd" + v.to_bytes(2, "big")
    if v <= 0xFFFFFFFF:
        return b"\xfe" + v.to_bytes(4, "big")
    return b"\xff" + v.to_bytes(8, "big")


def rbytes(rng, n):
    return bytes(rng.below(256) for _ in range(n))


FORCE = {"len": None}


def pick_len(rng):
    if FORCE["len"] is not None:  # the first variable-length field of the frame gets the forced length
        l, FORCE["len"] = FORCE["len"], None
        return l
    return rng.choice([0, 1, 2, rng.below(40), rng.below(40), 252, 253, 300])


OM_HOP_LENS = [0, 1, 65, 1300, 4095, 4096, 4097, 5000, 8191, 8192, 8193]


def gen_base(rng, b, keys):
    k, n = b
    if k == "BU":
        mx = 256 ** n - 1
        v = rng.choice([0, 1, mx, mx - 1, rng.below(mx + 1), rng.below(mx + 1), rng.below(min(mx, 1000) + 1)])
        return v.to_bytes(n, "big")
    if k == "BBool":
        return bytes([rng.below(2)])
    if k == "BAcct":
        return bytes([rng.choice([0, 7])])
    if k == "BBytes":
        return rbytes(rng, n)
    if k == "BPk":
        return rng.choice(keys)
    if k == "BSig":
        while True:
            s = rbytes(rng, 64)
            if int.from_bytes(s[:32], "big") < SECP_N and int.from_bytes(s[32:], "big") < SECP_N:
                return s
    if k == "BVarCL" or k == "BVar16":
        ln = pick_len(rng)
        return ln.to_bytes(2, "big") + rbytes(rng, ln)
    if k == "BUtf8":
        s = "".join(chr(rng.choice([rng.range(32, 126), rng.range(0xA0, 0x7FF), rng.range(0x800, 0xD7FF), rng.range(0x10000, 0x10FFFF)])) for _ in range(rng.below(20))).encode("utf-8")
        return len(s).to_bytes(2, "big") + s
    if k == "BOnion":
        key = rng.choice(keys) if rng.chance(4, 5) else bytes(33)
        return bytes([rng.below(2)]) + key + rbytes(rng, 1300) + rbytes(rng, 32)
    if k == "BOmPacket":
        hop = pick_len(rng) if FORCE["len"] is not None else rng.choice(OM_HOP_LENS[:8])
        pkt = bytes([rng.below(2)]) + rng.choice(keys) + rbytes(rng, hop) + rbytes(rng, 32)
        return len(pkt).to_bytes(2, "big") + pkt
    if k == "BBig":
        return bigsize(rng.choice([0, 0xFC, 0xFD, 0xFFFF, 0x10000, 0xFFFFFFFF, 0x100000000, 2 ** 64 - 1]))
    raise ValueError(k)


def gen_field(rng, c, keys):
    k, a = c
    if k == "FB":
        return gen_base(rng, a, keys)
    if k == "FSeq":
        return b"".join(gen_base(rng, b, keys) for b in a)
    if k == "FVecCL":
        n = rng.choice([0, 1, 2, 3, rng.below(6)])
        return n.to_bytes(2, "big") + b"".join(gen_base(rng, a, keys) for _ in range(n))
    if k == "FRest":
        return rbytes(rng, pick_len(rng))
    if k == "FRestVec":
        return b"".join(gen_base(rng, a, keys) for _ in range(rng.below(4)))
    raise ValueError(k)


def gen_frame(rng, s, keys, subset=None, overlong=False):
    """One canonical frame of schema s (write side). subset: bitmask of TLVs to include (None = random).
    overlong: the last present TLV whose codec has a fixed size declares (and carries) one byte more."""
    side = s["write"]
    out = s["type"].to_bytes(2, "big")
    for _, c in side["fixed"]:
        out += gen_field(rng, parse_codec(c), keys)
    kind, tl = side["tail"]
    info = {"tlv": kind == "TTlv", "present": []}
    if kind == "TTlv":
        for i, (t, name, k, c) in enumerate(tl):
            pc = parse_codec(c)
            if pc[0] == "FOpaque":
                continue
            inc = rng.chance(1, 2) if subset is None else bool((subset >> i) & 1)
            if not inc:
                continue
            v = gen_field(rng, pc, keys)
            if k == "KOptVec" and len(v) == 0:
                continue
            fixed_size = pc[0] == "FSeq" or (pc[0] == "FB" and pc[1][0] in ("BU", "BBool", "BAcct", "BBytes", "BPk", "BSig"))
            last_inc = subset is not None and (subset >> (i + 1)) == 0
            if overlong and fixed_size and last_inc:
                v += b"\x00"
                info["overlong"] = True
            out += bigsize(t) + bigsize(len(v)) + v
            info["present"].append(t)
    elif kind == "TRest":
        out += rbytes(rng, rng.choice([0, 0, 1, rng.below(30)]))
    return out, info


def sample_positions(rng, n, dense=120, extra=40):
    if n <= 2 * dense:
        return list(range(n))
    pos = set(range(dense)) | set(range(n - dense, n))
    for _ in range(extra):
        pos.add(rng.below(n))
    return sorted(pos)


class Cases(list):
    """Frames in a compact form shared with the model: a frame is (first `cut` bytes of base `k`, byte
    `pos` replaced by `val`) + suffix."""

    def __init__(self):
        super().__init__()
        self.bases = []

    def base(self, fr):
        self.bases.append(fr)
        return len(self.bases) - 1

    def add(self, kind, name, k=-1, cut=None, pos=-1, val=0, suffix=b"", **kw):
        b = self.bases[k] if k >= 0 else b""
        cut = len(b) if cut is None else cut
        b1 = b[:cut]
        if pos >= 0 and pos < len(b1):
            b1 = b1[:pos] + bytes([val]) + b1[pos + 1:]
        d = {"frame": b1 + suffix, "kind": kind, "name": name, "rep": (k, cut, pos, val, suffix)}
        d.update(kw)
        self.append(d)


def build_cases(ctx, meta, keys, gen_frames):
    """Returns Cases (list of dicts {frame, kind, name, rep, expectations...})"""
    rng = ctx.rng.fork("cases")
    quick = ctx.tier == "quick"
    cases = Cases()
    per_schema_valid = 4 if quick else 20
    mut_samples = 1 if quick else 3
    n_trunc, n_mut = (40, 60) if quick else (100, 200)
    for s in meta["schemas"]:
        side = s["write"]
        ntlv = len(side["tail"][1]) if side["tail"][0] == "TTlv" else 0
        valid = []
        for sub in range(1 << min(ntlv, 4 if quick else 5)):
            valid.append(gen_frame(rng, s, keys, subset=sub))
        for _ in range(per_schema_valid):
            valid.append(gen_frame(rng, s, keys))
        for fr, info in valid[:-mut_samples]:
            cases.add("valid", s["name"], suffix=fr, expect_payload=fr[2:])
        for fr, info in valid[-mut_samples:]:
            n = len(fr)
            k = cases.base(fr)
            cases.add("valid", s["name"], k=k, expect_payload=fr[2:])
            for cut in sample_positions(rng, n, n_trunc // 4, n_trunc // 2):
                cases.add("trunc", s["name"], k=k, cut=cut)
            for pos in sample_positions(rng, n, n_mut // 4, n_mut // 2):
                vals = [fr[pos] ^ 0x01, rng.choice([0x00, 0xFF, fr[pos] ^ 0x80, rng.below(256)])]
                for val in sorted(set(vals) - {fr[pos]}):
                    cases.add("mut", s["name"], k=k, pos=pos, val=val)
            # extensions
            big_odd = rng.choice([0xFFFFFFFF, 0x100000001, 2 ** 64 - 1, 0x1FFFF, 251, 253])
            big_odd |= 1
            junk = rbytes(rng, rng.choice([0, 1, 5, 253]))
            last_t = max(info["present"]) if info["present"] else -1
            if info["tlv"]:
                if big_odd > last_t:
                    known = [t for (t, _, _, _) in side["tail"][1]]
                    if big_odd not in known:
                        cases.add("ext_odd", s["name"], k=k, suffix=bigsize(big_odd) + bigsize(len(junk)) + junk, expect_payload=fr[2:])
                even = big_odd + 1 if big_odd < 2 ** 64 - 1 else 2 ** 64 - 2
                if even > last_t and even not in [t for (t, _, _, _) in side["tail"][1]]:
                    cases.add("ext_even", s["name"], k=k, suffix=bigsize(even) + bigsize(len(junk)) + junk, expect_err="UnknownRequiredFeature")
                # non-minimal BigSize type / length
                for nm in (b"\xfd\x00\xf1", b"\xfd\x00\xfc", b"\xfe\x00\x00\xff\xff", b"\xff\x00\x00\x00\x00\xff\xff\xff\xff"):
                    cases.add("ext_nonminimal", s["name"], k=k, suffix=nm + b"\x00", expect_err="InvalidValue")
                cases.add("ext_nonminimal_len", s["name"], k=k, suffix=bigsize(big_odd if big_odd > last_t else last_t + 2 | 1) + b"\xfe\x00\x00\x00\x05" + b"\x00" * 5, expect_err="InvalidValue")
                # duplicate / out-of-order: repeat the last present record's type
                if info["present"]:
                    cases.add("ext_dup", s["name"], k=k, suffix=bigsize(last_t) + b"\x00", expect_err="InvalidValue")
                # declared length longer than what is left
                cases.add("ext_short", s["name"], k=k, suffix=bigsize(big_odd if big_odd > last_t else 2 ** 64 - 1) + bigsize(len(junk) + 1) + junk, expect_err="ShortRead")
            for _ in range(2):
                cases.add("ext_rand", s["name"], k=k, suffix=rbytes(rng, 1 + rng.below(8)))
        # a known fixed-size TLV carrying one byte too many must be rejected
        for sub in range(1, 1 << min(ntlv, 4)):
            fr, info = gen_frame(rng, s, keys, subset=sub, overlong=True)
            if info.get("overlong"):
                cases.add("tlv_overlong", s["name"], suffix=fr, expect_err="InvalidValue")
        # random payloads for this type
        for _ in range(3 if quick else 30):
            cases.add("random", s["name"], suffix=s["type"].to_bytes(2, "big") + rbytes(rng, rng.below(120)))
    # lengths straddling every buffer/chunk constant found in the decoder sources (k-1, k, k+1, 2k-1, 2k+1):
    # each threshold is given to the first variable-length field of a schema that has one (round-robin in the
    # quick tier, every such schema in the thorough tier); onion messages get every hop_data length
    var_schemas = [s for s in meta["schemas"] if any(("BVarCL" in c or "BVar16" in c or "BUtf8" in c) for _, c in s["write"]["fixed"])]
    cap = 4097 if quick else 8193
    thr = [t for t in meta.get("length_thresholds", []) if t <= cap]
    for ti, t in enumerate(thr):
        targets = [var_schemas[ti % len(var_schemas)]] if (quick and var_schemas) else var_schemas
        for s in targets:
            FORCE["len"] = t
            fr, info = gen_frame(rng, s, keys, subset=0)
            FORCE["len"] = None
            cases.add("threshold_len", s["name"], suffix=fr, expect_payload=fr[2:])
    for s in meta["schemas"]:
        if any("BOmPacket" in c for _, c in s["write"]["fixed"]):
            for hop in OM_HOP_LENS + [t for t in thr if t > 8193]:
                FORCE["len"] = hop
                fr, info = gen_frame(rng, s, keys)
                FORCE["len"] = None
                cases.add("threshold_len", s["name"], suffix=fr, expect_payload=fr[2:])
                # one byte short / one byte of slack: the declared packet length no longer matches
                cases.add("trunc", s["name"], suffix=fr[:-1])
    # frames of values built by the Rust generator (irregular codecs): valid + truncations + mutations
    nmut = 22 if quick else 150
    for gi, (name, fr, ok) in enumerate(gen_frames):
        if gi >= nmut:
            cases.add("gen", name, suffix=fr, rt=ok, expect_payload=fr[2:] if name != "Init" else None)
            continue
        n = len(fr)
        k = cases.base(fr)
        cases.add("gen", name, k=k, rt=ok, expect_payload=fr[2:] if name != "Init" else None)
        for cut in sample_positions(rng, n, 15, 10):
            cases.add("trunc", name, k=k, cut=cut)
        for pos in sample_positions(rng, n, 40, 20):
            for val in sorted({fr[pos] ^ 0x01, rng.below(256)} - {fr[pos]}):
                cases.add("mut", name, k=k, pos=pos, val=val)
        cases.add("ext_rand", name, k=k, suffix=rbytes(rng, 1 + rng.below(6)))
    # crafted malformed frames for the irregular hand-written codecs (boundaries of their length logic)
    ch = rbytes(rng, 32)
    crafted = [
        ("QueryShortChannelIds", (261).to_bytes(2, "big") + ch + b"\x00\x00\x00", "InvalidValue"),          # encoding_len = 0
        ("QueryShortChannelIds", (261).to_bytes(2, "big") + ch + b"\x00\x02\x00\x01", "InvalidValue"),      # (len-1) % 8 != 0
        ("QueryShortChannelIds", (261).to_bytes(2, "big") + ch + b"\x00\x01\x01", "UnsupportedCompression"),
        ("QueryShortChannelIds", (261).to_bytes(2, "big") + ch + b"\x00\x09\x00" + b"\x01" * 7, "ShortRead"),
        ("QueryShortChannelIds", (261).to_bytes(2, "big") + ch + b"\x00", "ShortRead"),
        ("ReplyChannelRange", (264).to_bytes(2, "big") + ch + b"\x00" * 8 + b"\x01" + b"\x00\x00\x00", "InvalidValue"),
        ("ReplyChannelRange", (264).to_bytes(2, "big") + ch + b"\x00" * 8 + b"\x02" + b"\x00\x01\x00", "InvalidValue"),  # bool = 2
        ("ReplyChannelRange", (264).to_bytes(2, "big") + ch + b"\x00" * 8 + b"\x01" + b"\xff\xff\x00", "InvalidValue"),
        ("Ping", (18).to_bytes(2, "big") + b"\x00\x01\x00\x05\x00\x00", "ShortRead"),
        ("Ping", (18).to_bytes(2, "big") + b"\x00\x01\xff\xff" + b"\x00" * 100, "ShortRead"),
        ("Pong", (19).to_bytes(2, "big") + b"\x00\x03\x00\x00", "ShortRead"),
        ("ChannelUpdate", (258).to_bytes(2, "big") + b"\x01" * 64 + ch + b"\x00" * 8 + b"\x00" * 4 + b"\x00" + b"\x00" * 27, "InvalidValue"),  # must_be_one clear
        ("ErrorMessage", (17).to_bytes(2, "big") + ch + b"\x00\x02\xc3\x28", "InvalidValue"),   # invalid UTF-8
        ("ErrorMessage", (17).to_bytes(2, "big") + ch + b"\x00\x03\xed\xa0\x80", "InvalidValue"),  # surrogate
        ("ErrorMessage", (17).to_bytes(2, "big") + ch + b"\x00\x02\xc0\x80", "InvalidValue"),   # overlong NUL
        ("ErrorMessage", (17).to_bytes(2, "big") + ch + b"\x00\x04\xf4\x90\x80\x80", "InvalidValue"),  # > U+10FFFF
        ("ErrorMessage", (17).to_bytes(2, "big") + ch + b"\x00\x04\xf4\x8f\xbf\xbf", None),
        ("Stfu", (2).to_bytes(2, "big") + ch + b"\x02", "InvalidValue"),                          # bool = 2
        ("FundingSigned", (35).to_bytes(2, "big") + ch + b"\xff" * 64, "InvalidValue"),          # r, s >= group order
        ("FundingSigned", (35).to_bytes(2, "big") + ch + SECP_N.to_bytes(32, "big") + b"\x00" * 31 + b"\x01", "InvalidValue"),
        ("FundingSigned", (35).to_bytes(2, "big") + ch + (SECP_N - 1).to_bytes(32, "big") + (SECP_N - 1).to_bytes(32, "big"), None),
        ("FundingSigned", (35).to_bytes(2, "big") + ch + b"\x00" * 64, None),
        ("TxAbort", (74).to_bytes(2, "big") + ch + b"\xff\xff" + b"\x00" * 8 + b"\x01" * 30, "ShortRead"),      # CollectionLength escape
        ("TxAbort", (74).to_bytes(2, "big") + ch + b"\xff\xff" + b"\xff" * 8, "InvalidValue"),                   # overflowing escape
        ("CommitmentSigned", (132).to_bytes(2, "big") + ch + b"\x00" * 64 + b"\x00\x02" + b"\x00" * 64, "ShortRead"),
    ]
    for name, fr, exp in crafted:
        if exp is None:
            cases.add("crafted_ok", name, suffix=fr)
        else:
            cases.add("crafted", name, suffix=fr, expect_err=exp)
    # unknown / unassigned message types and tiny frames
    known_types = set(meta["types"].values())
    for t in [0, 3, 4, 5, 6, 8, 10, 20, 31, 37, 40, 41, 42, 100, 129, 137, 255, 260, 266, 512, 514, 1000, 32768, 32769, 65534, 65535]:
        if t not in known_types:
            cases.add("unknown_type", "?", suffix=t.to_bytes(2, "big") + rbytes(rng, rng.below(20)), expect_unknown=t)
    for fr in [b"", b"\x00", b"\x01", b"\xff"]:
        cases.add("tiny", "?", suffix=fr, expect_err="ShortRead")
    # dedupe by frame keeping the first (expectations are attached to first occurrences)
    seen = set()
    out = Cases()
    out.bases = cases.bases
    for c in cases:
        if c["frame"] in seen and c["kind"] in ("trunc", "mut", "random", "ext_rand"):
            continue
        seen.add(c["frame"])
        out.append(c)
    return out


def parse_impl_line(l):
    """-> dict(status, type, unknown, remaining, stable, payload, err, valid_offsets)"""
    p = l.split()
    if not p:
        return {"status": "MISSING"}
    if p[0] == "PANIC":
        return {"status": "PANIC", "valid": []}
    v = [int(x) for x in p[-1][1:].split(",") if x] if p[-1].startswith("V") else []
    if p[0] == "Ok":
        return {"status": "Ok", "type": int(p[1]), "unknown": p[2] == "1", "remaining": int(p[3]), "stable": p[4] == "1",
                "payload": b"" if p[5] == "-" else bytes.fromhex(p[5]), "valid": v}
    if p[0] == "Err":
        return {"status": "Err", "err": p[1].split("(")[0], "valid": v}
    return {"status": "BAD:" + l[:40], "valid": []}


def run_impl(ctx, cases):
    inp = "\n".join(c["frame"].hex() if c["frame"] else "#empty" for c in cases) + "\n"
    # an empty frame cannot be a non-empty line: encode it as a line holding a single space-free marker the
    # harness skips; handle empty frames separately below
    lines_in = []
    idx = []
    for i, c in enumerate(cases):
        if c["frame"]:
            lines_in.append(c["frame"].hex())
            idx.append(i)
    rc, lines = ctx.run_bin("h_wire", "\n".join(lines_in) + "\n", args=["dec"], timeout=1200)
    lines = [l for l in lines if l.strip() != ""]
    if rc != 0 or len(lines) != len(lines_in):
        return None, {"rc": rc, "n_out": len(lines), "n_in": len(lines_in), "tail": lines[-3:]}
    res = [None] * len(cases)
    for i, l in zip(idx, lines):
        res[i] = parse_impl_line(l)
    for i, c in enumerate(cases):
        if res[i] is None:  # empty frame: wire::read on no bytes
            res[i] = {"status": "Err", "err": "ShortRead", "valid": []}
    return res, None


def run_model(ctx, cases, impl, meta):
    """Model results for the frames whose type has a schema. Returns dict index -> (status, n, payload)."""
    schema_types = set(s["type"] for s in meta["schemas"])
    todo = []
    for i, c in enumerate(cases):
        fr = c["frame"]
        if len(fr) < 2 or int.from_bytes(fr[:2], "big") in schema_types or int.from_bytes(fr[:2], "big") not in set(meta["types"].values()):
            todo.append(i)
    # valid public keys of every base frame (asked from the implementation run of the unmodified base)
    base_valid = [set() for _ in cases.bases]
    for i, c in enumerate(cases):
        k, cut, pos, val, suffix = c["rep"]
        if k >= 0 and cut == len(cases.bases[k]) and pos < 0 and not suffix:
            base_valid[k] = set(int.from_bytes(c["frame"][off:off + 33], "big") for off in impl[i].get("valid", []))
    bases_def = "Definition bases : list (list Z * bytes) := [" + "; ".join(
        '([%s], unhex "%s")' % ("; ".join(str(v) for v in sorted(bv)), b.hex()) for bv, b in zip(base_valid, cases.bases)) + "]."
    exprs = []
    B = 400
    chunks = [todo[i:i + B] for i in range(0, len(todo), B)]
    for ch in chunks:
        items = []
        for i in ch:
            c = cases[i]
            fr = c["frame"]
            k, cut, pos, val, suffix = c["rep"]
            valid = set(int.from_bytes(fr[off:off + 33], "big") for off in impl[i].get("valid", []))
            extra = valid - (base_valid[k] if k >= 0 else set())
            items.append('(%d, %d, %d, %d, "%s"%%string, [%s])' % (k, cut, pos, val, suffix.hex(), "; ".join(str(v) for v in sorted(extra))))
        exprs.append("map (fun c => run (mkframe bases c)) [" + "; ".join(items) + "]")
    vals = ctx.coq_eval("corr_wire", COQ_IMPORTS, exprs, prelude=PRELUDE + bases_def + "\n", shards=min(core.NPROC, max(1, len(exprs))), timeout=1500)
    out = {}
    rx = re.compile(r'\("((?:[^"]|"")*)"(?:%string)?,\s*(-?\d+),\s*"([0-9a-f=]*)"(?:%string)?\)')
    for ch, v in zip(chunks, vals):
        found = rx.findall(v)
        if len(found) != len(ch):
            raise RuntimeError("model output parse: %d results for %d cases: %s" % (len(found), len(ch), v[:300]))
        for i, (st, n, pl) in zip(ch, found):
            fr = cases[i]["frame"]
            out[i] = (st, int(n), (fr[2:len(fr) - int(n)] if pl == "=" else bytes.fromhex(pl)))
    return out


def judge_impl(cases, impl):
    """The C13 statement evaluated on the implementation's outputs only."""
    fails = []
    for c, r in zip(cases, impl):
        why = None
        if r["status"] == "PANIC":
            why = "decoder panicked"
        elif r["status"] not in ("Ok", "Err"):
            why = "harness produced no result: " + r["status"]
        elif r["status"] == "Ok":
            if not r["stable"]:
                why = "re-encoding the decoded message does not decode to the same message"
            elif r["remaining"] > len(c["frame"]):
                why = "reported more unread bytes than the frame holds"
            elif c.get("expect_err"):
                why = "accepted a frame that must be rejected with " + c["expect_err"]
            elif c.get("expect_payload") is not None and c["kind"] in ("valid", "gen", "threshold_len") and r["payload"] != c["expect_payload"] and not r["unknown"]:
                why = "canonical encoding does not decode/re-encode to itself"
            elif c.get("expect_payload") is not None and c["kind"] == "ext_odd" and r["payload"] != c["expect_payload"]:
                why = "unknown odd TLV was not ignored (decoded message differs from the one without it)"
            elif c.get("expect_unknown") is not None and not (r["unknown"] and r["type"] == c["expect_unknown"]):
                why = "unassigned message type not reported as Unknown"
        else:
            if c["kind"] in ("valid", "gen", "ext_odd", "threshold_len"):
                why = "valid frame rejected with " + r["err"]
            elif c.get("expect_err") and r["err"] != c["expect_err"]:
                why = "rejected with %s instead of %s" % (r["err"], c["expect_err"])
            elif c.get("expect_unknown") is not None:
                why = "unassigned message type not reported as Unknown"
        if c["kind"] == "gen" and not c.get("rt", True) and why is None:
            why = "encode(m) does not decode to m (value built with the public constructors)"
        if why:
            fails.append({"why": why, "kind": c["kind"], "message": c["name"], "frame": c["frame"].hex(), "impl": {k: (v.hex() if isinstance(v, bytes) else v) for k, v in r.items() if k != "valid"}})
    return fails


def compare(cases, impl, model):
    dis = []
    skipped = 0
    for i, m in model.items():
        c, r = cases[i], impl[i]
        st, n, pl = m
        if st.startswith("Err Unmodelled"):
            skipped += 1
            continue
        if "OutOfFuel" in st:
            dis.append({"i": i, "why": "model ran out of fuel", "frame": c["frame"].hex()})
            continue
        if st == "Unknown":
            ok = r["status"] == "Ok" and r["unknown"] and r["type"] == n
        elif st == "Ok":
            ok = r["status"] == "Ok" and not r["unknown"] and r["payload"] == pl and r["remaining"] == n
        else:
            ok = r["status"] == "Err" and r["err"] == st[4:]
        if not ok:
            dis.append({"i": i, "message": c["name"], "kind": c["kind"], "frame": c["frame"].hex(), "model": [st, n, pl.hex()],
                        "impl": {k: (v.hex() if isinstance(v, bytes) else v) for k, v in r.items() if k != "valid"}})
    return dis, skipped


def generate(ctx):
    text, meta = sch.generate(core.REPO)
    core.write_if_changed(os.path.join(core.COQ, "Gen", "MsgSchemas.v"), text)
    # SocketAddress::len and the two CollectionLength branch conditions, translated by rs2v
    from rs2v import rs2v as R
    try:
        wl_text, wl_meta = R.translate_with_meta(json.load(open(WIRELENS_CFG)), repo=core.REPO, config_dir=os.path.dirname(WIRELENS_CFG))
    except R.Rs2vError as ex:
        raise sch.Refused("rs2v refused WireLens (SocketAddress::len / CollectionLength conditions): %s" % ex)
    core.write_if_changed(os.path.join(core.COQ, "Gen", "WireLens.v"), wl_text)
    meta["translated_items"] = wl_meta
    ctx.gen_meta = meta
    return meta


def field_tier(ctx, okm, release=False):
    """Field codecs outside a frame (h_wire fields): judged round trips at every length threshold, and
    CollectionLength / BigSize / SocketAddress encode+decode diffed against the model.
    Returns (judge failures, model disagreements, counts)."""
    thr = ",".join(str(t) for t in (getattr(ctx, "gen_meta", None) or {}).get("length_thresholds", []))
    rc, lines = ctx.run_bin("h_wire", "", args=["fields", str(ctx.seed)] + ([thr] if thr else []), timeout=900, release=release)
    rows = [l.split() for l in lines if l.startswith("F ")]
    fails, dis = [], []
    tag = "release" if release else "debug"
    if rc != 0 or len(rows) < 100:
        fails.append({"why": "h_wire fields crashed or produced too few lines (%s build)" % tag, "kind": "fields", "message": "-", "rc": rc, "n": len(rows)})
        return fails, dis, {}
    counts = {}
    cl, cldec, bs, bsdec, sa = [], [], [], [], []
    for r in rows:
        counts[r[1]] = counts.get(r[1], 0) + 1
        if r[1] == "RT":
            if r[4] != "ok":
                fails.append({"why": "field codec round trip at a length threshold: %s (%s build)" % (r[4], tag), "kind": "fields", "message": r[2], "param": r[3], "frame": "",
                              "replay": "h_wire fields %d | grep 'F RT %s %s'" % (ctx.seed, r[2], r[3])})
        elif r[1] == "HOSTMSG":
            # F HOSTMSG <msg:tag@pos> <name hex> <expect_ok|expect_reject> <result>
            if (r[4] == "expect_reject" and not r[5].startswith("Err_")) or (r[4] == "expect_ok" and r[5] != "Ok"):
                fails.append({"why": "hostname with a byte outside [A-Za-z0-9._-] %s inside %s (%s build)" % ("was ACCEPTED" if r[5] == "Ok" else "gave " + r[5], r[2].split(":")[0], tag) if r[4] == "expect_reject"
                              else "valid hostname gave %s inside %s (%s build)" % (r[5], r[2].split(":")[0], tag),
                              "kind": "fields", "message": r[2], "param": bytes.fromhex(r[3]).decode("utf-8", "replace"), "frame": r[3]})
        elif "PANIC" in r:
            fails.append({"why": "field codec panicked (%s build)" % tag, "kind": "fields", "message": r[1], "param": r[2], "frame": ""})
        elif r[1] == "CL":
            cl.append((int(r[2]), r[3]))
        elif r[1] == "BS":
            bs.append((int(r[2]), r[3]))
        elif r[1] == "CLDEC":
            cldec.append(("" if r[2] == "-" else r[2], r[3:]))
        elif r[1] == "BSDEC":
            bsdec.append(("" if r[2] == "-" else r[2], r[3:]))
        elif r[1] == "SA":
            sa.append(("" if r[2] == "-" else r[2], r[3:]))
    # implementation-only judge of the integer codecs: decode(encode n) = n, consuming exactly the encoding
    for name, enc, dec in (("CollectionLength", cl, cldec), ("BigSize", bs, bsdec)):
        d = dict(dec)
        for n, h in enc:
            got = d.get(h)
            if name == "BigSize":
                got = d.get(h + "7f")
                want = ["Ok", str(n), "1"]
            else:
                want = ["Ok", str(n), "0"]
            if got is not None and got != want:
                fails.append({"why": "%s: encoding of %d decodes as %s (%s build)" % (name, n, " ".join(got), tag), "kind": "fields", "message": name, "param": str(n), "frame": h})
    # the BOLT 7 rule (LDK also admits '_'): a hostname descriptor decodes iff every byte of the name is an ASCII
    # alphanumeric, '.', '-' or '_' -- judged on the implementation alone
    allowed = set(b"ABCDEFGHIJKLMNOPQRSTUVWXYZabcdefghijklmnopqrstuvwxyz0123456789.-_")
    for h, res in sa:
        b = bytes.fromhex(h)
        if len(b) >= 2 and b[0] == 5 and len(b) >= 2 + b[1] + 2:
            name = b[2:2 + b[1]]
            want_ok = all(x in allowed for x in name)
            if want_ok != (res[0] == "Ok"):
                fails.append({"why": "SocketAddress hostname %s although %s (%s build)" % ("ACCEPTED" if res[0] == "Ok" else "rejected with " + " ".join(res), "a byte is outside [A-Za-z0-9._-]" if not want_ok else "every byte is in [A-Za-z0-9._-]", tag),
                              "kind": "fields", "message": "SocketAddress", "param": name.decode("utf-8", "replace"), "frame": h})
    if not okm or release:
        return fails, dis, counts
    def q(h):
        return '"%s"%%string' % h
    exprs = [
        "map (fun n => hex (cl_enc n)) [%s]" % "; ".join(str(n) for n, _ in cl),
        "map (fun h => show_dec (cl_dec (unhex h))) [%s]" % "; ".join(q(h) for h, _ in cldec),
        "map (fun n => hex (bigsize_enc n)) [%s]" % "; ".join(str(n) for n, _ in bs),
        "map (fun h => show_dec (bigsize_dec (unhex h))) [%s]" % "; ".join(q(h) for h, _ in bsdec),
        "map show_sa [%s]" % "; ".join(q(h) for h, _ in sa),
    ]
    vals = ctx.coq_eval("corr_fields", COQ_IMPORTS, exprs, prelude=PRELUDE + PRELUDE_FIELDS, shards=1, timeout=600)
    strs = lambda v: re.findall(r'"([0-9a-f]*)"', v)
    m_cl, m_bs = strs(vals[0]), strs(vals[2])
    for (n, h), m in zip(cl, m_cl):
        if h != m:
            dis.append({"topic": "CollectionLength::write", "n": n, "impl": h, "model": m})
    for (n, h), m in zip(bs, m_bs):
        if h != m:
            dis.append({"topic": "BigSize::write", "n": n, "impl": h, "model": m})
    rx3 = re.compile(r'\("((?:[^"]|"")*)"(?:%string)?,\s*(-?\d+),\s*(-?\d+)\)')
    for topic, cases, v in (("CollectionLength::read", cldec, vals[1]), ("BigSize::read", bsdec, vals[3])):
        found = rx3.findall(v)
        for (h, impl), (st, val, rem) in zip(cases, found):
            mm = [st, val, rem] if st == "Ok" else st.split()
            if impl != mm:
                dis.append({"topic": topic, "bytes": h, "impl": impl, "model": mm})
        if len(found) != len(cases):
            dis.append({"topic": topic, "why": "model output parse"})
    rxs = re.compile(r'\("((?:[^"]|"")*)"(?:%string)?,\s*"([0-9a-f]*)"(?:%string)?,\s*(-?\d+)\)')
    found = rxs.findall(vals[4])
    if len(found) != len(sa):
        dis.append({"topic": "SocketAddress", "why": "model output parse"})
    for (h, impl), (st, hx, n) in zip(sa, found):
        if st == "Ok":
            mm = ["Ok", hx, n]
        elif st == "Unknown":
            mm = ["Unknown", str(int(hx, 16)), n]
        else:
            mm = st.split()
        if impl != mm:
            dis.append({"topic": "SocketAddress descriptor", "bytes": h, "impl": impl, "model": mm})
    return fails, dis, counts


def run(ctx):
    ok_build, out = ctx.build_harness(BINS)
    if not ok_build:
        ctx.violation("harness does not build against the current tree", {"broken": "harness-build", "log_tail": out[-3000:]}, False)
        ctx.write_evidence(LEVEL)
        return
    ctx.trusted_base += [
        "Coq 8.16.1 kernel + vm_compute (no native_compute)",
        "tools/codec/schemas.py: schema extraction from msgs.rs/wire.rs and the fixed Rust-type -> codec table (TYPE_TABLE), regenerated every run",
        "tools/rs2v translation of SocketAddress::len and of the two CollectionLength branch conditions (Gen/WireLens.v, config tools/codec/rs2v_configs/WireLens.json incl. its three rewrites), regenerated every run",
        "oracle pk_valid (secp256k1 compressed-point validity): universally quantified in the theorems, supplied by the harness in the correspondence",
        "Codec/*.v transliteration of util/ser.rs + ser_macros.rs, tied by functional correspondence through lightning feature _verif_hooks (wire::verif_hooks_wire::wire_read)",
        "hand schemas of ErrorMessage/WarningMessage pinned to the hash of the Rust impl text (tools/codec/hand_hashes.json)",
        "harness crate /verif/harness (h_wire)",
    ]
    ctx.assumptions += ["message values are within the codecs' domains (msg_dom): integers in range, vectors/scripts shorter than 2^16 where the format has a u16 length, public keys valid"]
    gen_err = None
    meta = None
    try:
        meta = generate(ctx)
    except sch.Refused as ex:
        gen_err = "schema extraction refused: " + str(ex)
    except Exception as ex:  # extractor crashed on an unexpected construct: same treatment
        gen_err = "schema extraction failed: %r" % (ex,)
    proved = False
    okm = False
    if gen_err is None:
        okm, outm = ctx.coq_make(["Codec/Wire.vo", "Gen/MsgSchemas.vo", "Gen/WireLens.vo", "Codec/Addr.vo"])
        if not okm:
            ctx.log(outm[-2000:])
        proved = ctx.prove("C13")
    else:
        ctx.log(gen_err)
        ctx.obligations.append(("schema-extraction", False, gen_err))
        # fall back to the last generated schemas for case generation, if any
        try:
            meta = json.load(open(os.path.join(ctx.tmp, "last_meta.json")))
        except Exception:
            meta = None
    if meta is not None and gen_err is None:
        with open(os.path.join(ctx.tmp, "last_meta.json"), "w") as f:
            json.dump(meta, f, default=str)
    if meta is None:
        ctx.violation("C13 no longer shown: " + gen_err, {"broken": "schema-extraction", "detail": gen_err, "search": "no schemas available to aim the search"}, False)
        ctx.write_evidence(LEVEL)
        return
    # normalise meta loaded from JSON (tuples became lists)
    for s in meta["schemas"]:
        for sd in ("write", "read"):
            s[sd]["fixed"] = [tuple(x) for x in s[sd]["fixed"]]
            s[sd]["tail"] = (s[sd]["tail"][0], [tuple(x) for x in s[sd]["tail"][1]] if s[sd]["tail"][0] == "TTlv" else s[sd]["tail"][1])
    # ---- implementation side
    rc, klines = ctx.run_bin("h_wire", "", args=["keys", "24", str(ctx.seed)])
    keys = [bytes.fromhex(l.strip()) for l in klines if len(l.strip()) == 66]
    ngen = 110 if ctx.tier == "quick" else 2200
    rc2, glines = ctx.run_bin("h_wire", "", args=["gen", str(ngen), str(ctx.seed)])
    gen_frames = []
    gen_panics = []
    for l in glines:
        p = l.split()
        if len(p) == 4 and p[0] == "G":
            if p[2] == "PANIC":
                gen_panics.append(p[1])
            else:
                gen_frames.append((p[1], bytes.fromhex(p[2]), p[3] == "1"))
    if rc != 0 or rc2 != 0 or len(keys) != 24 or not gen_frames:
        ctx.violation("harness h_wire keys/gen failed", {"broken": "correspondence:h_wire", "rc": [rc, rc2]}, False)
        ctx.write_evidence(LEVEL)
        return
    cases = build_cases(ctx, meta, keys, gen_frames)
    impl, err = run_impl(ctx, cases)
    if impl is None:
        ctx.violation("harness h_wire did not produce one result per frame", {"broken": "correspondence:h_wire", "detail": err}, False)
        ctx.write_evidence(LEVEL)
        return
    judged = judge_impl(cases, impl)
    for g in gen_panics:
        judged.append({"why": "encoding/decoding a constructed value panicked", "kind": "gen", "message": g})
    # ---- field codecs outside a frame, at every length threshold
    try:
        f_fails, f_dis, f_counts = field_tier(ctx, okm)
    except RuntimeError as ex:
        f_fails, f_dis, f_counts = [], [{"topic": "field tier", "why": "model evaluation failed", "detail": str(ex)[-1500:]}], {}
    judged += f_fails
    ctx.coverage["field_tier_lines"] = f_counts
    if ctx.tier != "quick":
        # release build: overflow wraps instead of panicking, so a wrong length shows as a failed round trip
        okr, outr = ctx.build_harness(BINS, release=True)
        if okr:
            r_fails, _, r_counts = field_tier(ctx, False, release=True)
            judged += r_fails
            rcg, gl = ctx.run_bin("h_wire", "", args=["gen", str(ngen), str(ctx.seed)], release=True)
            for l in gl:
                p = l.split()
                if len(p) == 4 and p[0] == "G" and (p[2] == "PANIC" or p[3] != "1"):
                    judged.append({"why": "encode(m) does not decode to m in the release build", "kind": "gen-release", "message": p[1], "frame": p[2] if p[2] != "PANIC" else ""})
            ctx.coverage["field_tier_lines_release"] = r_counts
        else:
            ctx.log("release harness build failed; release tier skipped")
            ctx.coverage["field_tier_lines_release"] = "release build failed"
    # ---- model side
    dis, skipped, model = None, 0, {}
    if okm:
        try:
            model = run_model(ctx, cases, impl, meta)
            dis, skipped = compare(cases, impl, model)
        except RuntimeError as ex:
            dis = [{"why": "model evaluation failed", "detail": str(ex)[-1500:]}]
    if f_dis:
        dis = (dis or []) + f_dis
    # ---- coverage
    kinds, names, errs = {}, {}, {}
    for c, r in zip(cases, impl):
        kinds[c["kind"]] = kinds.get(c["kind"], 0) + 1
        names[c["name"]] = names.get(c["name"], 0) + 1
        key = r["status"] if r["status"] != "Err" else "Err " + r["err"]
        errs[key] = errs.get(key, 0) + 1
    ctx.coverage["frames"] = len(cases)
    ctx.coverage["frames_by_kind"] = kinds
    ctx.coverage["frames_by_message"] = names
    ctx.coverage["impl_result_histogram"] = errs
    ctx.coverage["model_compared"] = len(model) - skipped
    ctx.coverage["model_skipped_unmodelled_tlv"] = skipped
    ctx.coverage["schemas"] = [s["name"] for s in meta["schemas"]]
    ctx.coverage["unmodelled_messages_impl_judge_only"] = meta["unmodelled"]
    ctx.coverage["evaluations"] = len(cases) + len(model)
    ctx.coverage["distinct_nontrivial"] = len(set(c["frame"] for c in cases if len(c["frame"]) > 2))
    ctx.coverage["rule"] = "distinct frames longer than the 2-byte type (valid frames: all 2^k TLV subsets per schema (k<=5) + random values; truncations, single-byte mutations, extensions, random payloads of them; values of irregular messages built by the Rust generator)"
    ctx.coverage["frame_length_max"] = max(len(c["frame"]) for c in cases)
    vi = [i for i, c in enumerate(cases) if c["kind"] == "valid"]
    for i in (vi[0], vi[len(vi) // 2], vi[-1]):
        ctx.samples.append({"message": cases[i]["name"], "frame": cases[i]["frame"].hex()[:160], "impl": impl[i]["status"], "model": (model.get(i) or ["-"])[0]})
    # ---- decide (DESIGN.md section 9)
    broken = []
    if gen_err:
        broken.append({"obligation": "schema extraction", "detail": gen_err})
    elif not proved:
        broken.append({"obligation": "Coq proof of Props/C13.v", "detail": getattr(ctx, "proof_failure", {})})
    if dis:
        broken.append({"correspondence": "h_wire (wire::read) vs Codec model", "n": len(dis), "first_disagreements": dis[:5]})
    replay_cmd = "printf '<frame hex>\\n' | %s dec" % ctx.bin_path("h_wire")
    if judged:
        # shrink: shortest failing frame first
        judged.sort(key=lambda f: len(f.get("frame", "")))
        by_msg = {}
        for f in judged:
            kk = "%s: %s" % (f.get("message"), f["why"])
            by_msg[kk] = by_msg.get(kk, 0) + 1
        ctx.coverage["judge_failures_by_message"] = by_msg
        ctx.violation("C13 fails on the implementation: %s (%s)" % (judged[0]["why"], judged[0].get("message")),
                      {"broken": broken or "implementation judge", "failing_input": judged[0], "n_failing": len(judged), "failures_by_message": by_msg, "more": judged[1:4], "replay_cmd": replay_cmd}, True,
                      key="judge:%s:%s" % (judged[0].get("message"), judged[0]["why"]))
    elif broken:
        ctx.violation("C13 no longer shown: " + ("schema extraction" if gen_err else ("proof" if not proved else "correspondence")) + " broken",
                      {"broken": broken, "search": "implementation judge over %d frames (valid, truncated, mutated, extended, random) found no failing input" % len(cases), "replay_cmd": replay_cmd}, False)
    ctx.write_evidence(LEVEL)


def replay(ctx, rep):
    ok_build, out = ctx.build_harness(BINS)
    fi = rep.get("failing_input") or {}
    fr = fi.get("frame")
    if not ok_build or not fr:
        print(json.dumps(rep, indent=1)[:4000])
        return 1
    rc, lines = ctx.run_bin("h_wire", fr + "\n", args=["dec"])
    print("frame:", fr)
    print("impl :", [l for l in lines if l.strip()])
    print("recorded:", json.dumps(fi, indent=1)[:2000])
    return 0
