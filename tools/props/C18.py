"""C18 — payment requests round-trip and cannot be forged or altered.

Coq: bech32 (regrouping, checksum single-substitution detection for ANY length, hrp-character change,
create/verify), BOLT 11 framing / integers / amount grammar / signed content, BOLT 12 merkle-root
injectivity and metadata binding (Props/C18.v).  Tie to the code: the harness binary h_invoice
builds objects over the builders' field grid with the real library, judges the property statement
on the implementation's outputs (round trip + every mutation stream), and the Gallina models are
compared with the real bech32 crate / lightning-invoice / lightning::offers on the same inputs."""
import json
import os
import re

from vlib import core

BINS = ["h_invoice"]
LEVEL = "proof"
MANIFEST = {
    "category": "proof",
    "text": "Coq theorems (all lengths, all field lists, all TLV streams): bech32 8<->5 regrouping round trip and padding rules; BCH checksum detects every single data-symbol substitution and every single hrp-character change and verifies what the encoder appends; BOLT 11 tagged-field / integer / timestamp / hrp-amount round trips and the exact signed content; BOLT 12 merkle root injective on non-signature records (collision-free hash as explicit premise) and stateless metadata bound to key and records. Models tied to bech32 / lightning-invoice / lightning::offers by functional correspondence; the property statement itself is judged on real built objects and on every mutation stream.",
    "note": "Partial: whole-object round trip (all accessors) and rejection of mutated strings/streams are validated on the implementation, not proved; ECDSA/Schnorr, SHA-256 collision resistance, HMAC and the bech32 crate are outside the proofs (hypotheses or correspondence). Separator-moving and case-only character changes are validated only.",
    "technique": "machine-checked proof in Coq (GF(2)-linear algebra of the checksum, list induction, tree argument for the merkle root) + differential correspondence + mutation streams on the real library",
}

CHARSET = "qpzry9x8gf2tvdw0s3jn54khce6mua7l"

# Anchored expressions that must occur, verbatim up to whitespace and comments, in the body of
# `fn verify_metadata` (offers/signer.rs). In the derived-key modes the key record is excluded from
# the MAC, so these comparisons are the only thing that binds it; the model (OfferMeta.verify_metadata)
# and C18_metadata_derived_key_binds_record state them over FULL encodings.
VERIFY_METADATA_PINS = [
    "metadata.len()==Nonce::LENGTH",
    "fixed_time_eq(&signing_pubkey.serialize(),&derived_keys.public_key().serialize())",
    "metadata.len()==Nonce::LENGTH+Sha256::LEN&&fixed_time_eq(&metadata[Nonce::LENGTH..],&hmac.to_byte_array())",
]


def _fn_body(src, name, after=None):
    start = 0
    if after is not None:
        start = src.find(after)
        if start < 0:
            return None
    m = re.compile(r"\bfn\s+%s\b" % re.escape(name)).search(src, start)
    if not m:
        return None
    i = src.index("{", src.index(")", m.end()))
    depth = 0
    for j in range(i, len(src)):
        if src[j] == "{":
            depth += 1
        elif src[j] == "}":
            depth -= 1
            if depth == 0:
                return src[i:j + 1]
    return None


def _norm(body):
    norm = re.sub(r"//[^\n]*", "", body)
    norm = re.sub(r"#\[cfg\(fuzzing\)\]\s*if[^{]*\{[^}]*\}", "", norm)
    norm = re.sub(r"#\[[^\]]*\]", "", norm)
    return re.sub(r"\s+", "", norm)


# BOLT 11: the key the signature is checked against must be the key the accessors report: the first
# `n` field (find_extract!) if any, else the recovered key. (file, impl anchor, fn, required fragments)
BOLT11_PINS = [
    ("impl SignedRawBolt11Invoice {", "check_signature",
     ["matchself.raw_invoice.payee_pub_key(){Some(pk)=>{", "secp_context.verify_ecdsa(&hash,&self.signature.to_standard(),pk);verification_result.is_ok()",
      "None=>self.recover_payee_pub_key().is_ok(),"]),
    ("impl RawBolt11Invoice {", "payee_pub_key",
     ["find_extract!(self.known_tagged_fields(),TaggedField::PayeePubKey(refx),x)"]),
    ("impl Bolt11Invoice {", "payee_pub_key", ["self.signed_invoice.payee_pub_key().map(|x|&x.0)"]),
    ("impl Bolt11Invoice {", "get_payee_pub_key", ["matchself.payee_pub_key(){Some(pk)=>*pk,None=>self.recover_payee_pub_key()"]),
    ("impl Bolt11Invoice {", "from_signed", ["invoice.check_signature()?;"]),
]


def generate(ctx):
    """Structural pin (no Gallina is generated): refuse when verify_metadata no longer compares what the
    model says it compares. The judge over the alteration sweeps then supplies the failing input."""
    import hashlib
    path = os.path.join(core.REPO, "lightning", "src", "offers", "signer.rs")
    src = open(path).read()
    body = _fn_body(src, "verify_metadata")
    if body is None:
        raise RuntimeError("offers/signer.rs: fn verify_metadata not found")
    norm = _norm(body)
    missing = [p for p in VERIFY_METADATA_PINS if p not in norm]
    meta = [{"item": "offers/signer.rs::verify_metadata", "sha256": hashlib.sha256(body.encode()).hexdigest()[:16], "pins": len(VERIFY_METADATA_PINS)}]
    problems = []
    if missing:
        problems.append("verify_metadata no longer contains the pinned comparison(s): " + "; ".join(missing) + " -- normalised body: " + norm[:900])
    lsrc = open(os.path.join(core.REPO, "lightning-invoice", "src", "lib.rs")).read()
    mac = re.search(r"macro_rules!\s*find_extract\s*\{.*?\n\}", lsrc, re.S)
    if not mac or "find_all_extract!($iter,$enm,$enm_var).next()" not in _norm(mac.group(0)):
        problems.append("find_extract! is no longer `find_all_extract!(..).next()` (first matching field)")
    for anchor, fn, frags in BOLT11_PINS:
        b = _fn_body(lsrc, fn, after=anchor)
        if b is None:
            problems.append("lightning-invoice/src/lib.rs: fn %s after `%s` not found" % (fn, anchor))
            continue
        nb = _norm(b)
        miss = [f for f in frags if f not in nb]
        meta.append({"item": "lightning-invoice/src/lib.rs::%s::%s" % (anchor.split()[1], fn), "sha256": hashlib.sha256(b.encode()).hexdigest()[:16], "pins": len(frags)})
        if miss:
            problems.append("%s::%s no longer contains: %s -- normalised body: %s" % (anchor.split()[1], fn, "; ".join(miss), nb[:700]))
    ctx.gen_meta = meta
    if problems:
        raise RuntimeError(" || ".join(problems))
    return meta
TAGS = ["lightninginvoice_requestsignature", "lightninginvoicesignature"]

IMPORTS = ["LdkV.Prim.U64", "LdkV.Crypto.Bytes", "LdkV.Crypto.Sha256", "LdkV.Model.Bech32", "LdkV.Model.Bolt11",
           "LdkV.Model.Bolt12Merkle", "LdkV.Model.OfferMeta", "LdkV.Model.Bolt12Exec"]
PRELUDE = r"""
Open Scope Z_scope.
Definition sh_dec (s : list Z) : list Z :=
  match decode_checked 7089 s with
  | ROk (h, d) => 1 :: Z.of_nat (List.length h) :: (map to_lower h ++ d)
  | RErr _ => [0]
  end.
Definition sh_decn (s : list Z) : list Z :=
  match decode_nochecksum s with
  | ROk (h, d) =>
      if negb (list_eqb (map to_lower h) [108; 110; 111]) then [3]
      else match from_u5_strict d with
           | Some bs => 1 :: bs
           | None => [2]
           end
  | RErr _ => [0]
  end.
Definition optint (o : option (list Z)) : Z :=
  match o with None => -1 | Some d => match parse_int_be 64 d with Some v => v | None => -2 end end.
Definition sh_b11 (data : list Z) : list Z :=
  match split_signature data with
  | RErr _ => [0]
  | ROk (d, sg) =>
      match parse_data d, parse_signature sg with
      | ROk (ts, fs), ROk _ => 1 :: ts :: optint (find_tag 6 fs) :: optint (find_tag 24 fs) :: map fst fs
      | _, _ => [0]
      end
  end.
Definition sh_payee (data : list Z) : string :=
  match split_signature data with
  | RErr _ => "none"%string
  | ROk (d, _) => match parse_data d with
                  | ROk (_, fs) => match first_payee_field fs with Some v => hex_of_bytes (from_u5_lax v) | None => "none"%string end
                  | RErr _ => "none"%string
                  end
  end.
Definition sh_hash (hrp data : list Z) : string :=
  match bolt11_signable_hash hrp data with Some h => hex_of_bytes h | None => "none"%string end.
Definition cur_idx (c : currency) : Z := match c with Bitcoin => 0 | BitcoinTestnet => 1 | Regtest => 2 | Simnet => 3 | Signet => 4 end.
Definition cur_of (i : Z) : currency := if i =? 0 then Bitcoin else if i =? 1 then BitcoinTestnet else if i =? 2 then Regtest else if i =? 3 then Simnet else Signet.
Definition si_idx (p : si_prefix) : Z := match p with Milli => 0 | Micro => 1 | Nano => 2 | Pico => 3 end.
Definition oz (o : option Z) : Z := match o with Some v => v | None => -1 end.
Definition sh_hrp (s : list Z) : list Z :=
  match parse_hrp s with
  | RErr _ => [0]
  | ROk h => [1; cur_idx (h_currency h); oz (h_amount h); match h_si h with Some p => si_idx p | None => -1 end; oz (amount_pico_btc h);
              if check_amount h then 1 else 0; oz (amount_msat h)]
  end.
Definition sh_amt (c m : Z) : list Z :=
  match build_amount (cur_of c) m with ROk h => 1 :: print_hrp h | RErr _ => [0] end.
Definition sh_root (tag : string) (stream : string) : string :=
  match stream_root_sha (bytes_of_hex stream), digest_sha (bytes_of_string tag) (bytes_of_hex stream) with
  | Some r, Some d => (hex_of_bytes r ++ " " ++ hex_of_bytes d)%string
  | _, _ => "PANIC"%string
  end.
Definition sh_meta (v : string * list Z) : string := (fst v ++ ":" ++ hex_of_bytes (snd v))%string.
"""


def zl(xs):
    return "[" + "; ".join(str(x) for x in xs) + "]"


def codes(s):
    return zl([ord(c) for c in s])


def ints(v):
    return [int(x) for x in re.findall(r"-?\d+", v)]


def strval(v):
    m = re.search(r'"((?:[^"]|"")*)"', v)
    return m.group(1) if m else v


def hx(s):
    return s.encode("utf-8").hex()


def fes_of(chars):
    return [CHARSET.index(c) for c in chars.lower()]


def tlv_records(b):
    out = []
    p = 0
    def bigsize():
        nonlocal p
        n = b[p]; p += 1
        k = {0xff: 8, 0xfe: 4, 0xfd: 2}.get(n)
        if k is None:
            return n
        v = int.from_bytes(b[p:p + k], "big"); p += k
        return v
    while p < len(b):
        s = p
        t = bigsize()
        l = bigsize()
        out.append((t, b[p:p + l], b[s:p + l]))
        p += l
    return out


def bigsize_enc(v):
    if v < 0xfd:
        return bytes([v])
    if v < 0x10000:
        return b"\xfd" + v.to_bytes(2, "big")
    if v < 0x100000000:
        return b"\xfe" + v.to_bytes(4, "big")
    return b"\xff" + v.to_bytes(8, "big")


class Eval:
    """Batch of line commands for `h_invoice eval`."""
    def __init__(self, ctx):
        self.ctx = ctx
        self.lines = []

    def add(self, line):
        self.lines.append(line)
        return len(self.lines) - 1

    def run(self):
        if not self.lines:
            return []
        rc, out = self.ctx.run_bin("h_invoice", "\n".join(self.lines) + "\n", args=["eval"], timeout=1200)
        out = [l for l in out if l != ""]
        if rc != 0 or len(out) != len(self.lines):
            raise RuntimeError("h_invoice eval: rc=%d, %d results for %d commands" % (rc, len(out), len(self.lines)))
        return out


# ------------------------------------------------------------------ implementation-side judge (gen mode)
def run_gen(ctx):
    tier = "thorough" if ctx.tier == "thorough" else "quick"
    rc, lines = ctx.run_bin("h_invoice", "", args=["gen", tier, str(ctx.seed)], timeout=1700)
    recs = []
    for l in lines:
        if l.startswith("{"):
            try:
                recs.append(json.loads(l))
            except ValueError:
                pass
    complete = bool(recs) and recs[-1].get("k") == "done"
    return rc, recs, complete


def judge_gen(ctx, recs):
    """Returns list of failing records (the property statement evaluated on real outputs)."""
    fails = [r for r in recs if r.get("ok") is False]
    hist = {}
    mut = {"single_char": 0, "symbol": 0, "amount": 0, "timestamp": 0, "truncation": 0}
    outcomes = {"err": 0, "same_content": 0, "other_key": 0}
    flips = 0
    for r in recs:
        key = r["k"] + ("/" + r["type"] if "type" in r else "") + ("/" + r["check"] if "check" in r else "")
        hist[key] = hist.get(key, 0) + 1
        if r["k"] == "b11mut":
            for m in mut:
                mut[m] += r[m]["total"]
                for o in outcomes:
                    outcomes[o] += r[m][o]
        if r["k"] == "b12sig":
            flips += r["flips"]
        if r["k"] == "b11struct":
            st = ctx.coverage.setdefault("bolt11_structural_mutations", {"total": 0, "err": 0, "same_content": 0, "other_key": 0})
            for o in st:
                st[o] += r["structural"][o]
    ctx.coverage["gen_record_histogram"] = hist
    ctx.coverage["bolt11_mutations"] = mut
    ctx.coverage["bolt11_mutation_outcomes"] = outcomes
    ctx.coverage["bolt12_signed_bit_flips"] = flips
    for r in recs:
        if r["k"] == "b11rand":
            ctx.coverage["bolt11_random_strings"] = r["stats"]["total"]
            ctx.coverage["bolt11_random_strings_parsed"] = r["stats"]["same_content"]
        if r["k"] == "b12fuzz":
            ctx.coverage["bolt12_fuzz_cases"] = r["cases"]
    sweeps = {}
    for r in recs:
        if r["k"] == "metasweep":
            k = "%s | %s | %s" % (r["check"], r["mode"], "every bit of every record" if r["full_bits"] else "every bit of key records, 2 bits of others")
            x = sweeps.setdefault(k, {"objects": 0, "valid_altered_objects": 0, "refused": 0, "key_record_variants": 0, "unbuildable": 0})
            x["objects"] += 1
            x["valid_altered_objects"] += r["total"]
            x["refused"] += r["refused"]
            x["key_record_variants"] += r["key_record_variants"]
            x["unbuildable"] += r["unbuildable"]
    ctx.coverage["metadata_alteration_sweeps"] = sweeps
    meta = [r for r in recs if r["k"] == "meta"]
    mh = {}
    for r in meta:
        k = "%s/%s/%s" % (r["check"], r["expect"], r["verdict"])
        mh[k] = mh.get(k, 0) + 1
    ctx.coverage["metadata_scenarios"] = mh
    return fails


# ------------------------------------------------------------------ model vs implementation
def corr_bech32(ctx, recs, rng):
    """decode verdict + hrp + symbols, regrouping, on real strings and their mutants."""
    q = ctx.tier == "quick"
    b11 = [r["s"] for r in recs if r["k"] == "b11" and r.get("built")]
    b11 = sorted(set(b11), key=len)
    base = b11[::max(1, len(b11) // (7 if q else 60))][: (7 if q else 60)]
    strings = []
    ev = Eval(ctx)
    enc_idx = []
    for s in base:
        strings.append(s)
        strings.append(s.upper())
        n = len(s)
        sep = s.rfind("1")
        for _ in range(10 if q else 40):
            i = rng.below(n)
            kind = rng.below(6)
            c = s[i]
            if kind == 0:
                c2 = CHARSET[rng.below(32)]
            elif kind == 1:
                c2 = c.upper() if c.islower() else c.lower()
            elif kind == 2:
                c2 = rng.choice(["1", "b", "i", "o", " ", "é", "~", "!"])
            elif kind == 3:
                c2 = chr(33 + rng.below(94))
            elif kind == 4:
                i = rng.below(sep + 1)
                c2 = chr(33 + rng.below(94))
            else:
                i = sep + 1 + rng.below(n - sep - 1)
                c2 = CHARSET[CHARSET.index(s[i]) ^ (1 << rng.below(5))]
            strings.append(s[:i] + c2 + s[i + 1:])
        strings.append(s[:rng.below(n)])
        strings.append(s + "q")
        # valid-checksum mutants (checksum recomputed by the real crate)
        data = s[sep + 1:-6]
        for _ in range(3 if q else 8):
            i = rng.below(len(data))
            d2 = data[:i] + CHARSET[rng.below(32)] + data[i + 1:]
            enc_idx.append(ev.add("enc %s %s" % (s[:sep], d2)))
        enc_idx.append(ev.add("enc %s %s" % (s[:sep].upper(), data)))
    for _ in range(40 if q else 400):
        n = rng.below(60)
        strings.append("".join(rng.choice(list(CHARSET) + ["1", "l", "n", "b", "c", "A", "Q", " ", "é", "1"]) for _ in range(n)))
    strings += ["", "1", "ln1", "a1qqqqqq", "1qqqqqq", "A12UEL5L", "a12uel5l", "an83characterlonghumanreadablepartthatcontainsthenumber1andtheexcludedcharactersbio1tt5tgs",
                "an84characterslonghumanreadablepartthatcontainsthenumber1andtheexcludedcharactersbio1569pvx", "x" * 84 + "1qqqqqq", "?1ezyfcl", "\x7f1axkwrx", "\x801eym55h"]
    out = ev.run()
    for r in out:
        if r.startswith("Ok "):
            strings.append(bytes.fromhex(r[3:]).decode())
    strings = list(dict.fromkeys(strings))
    ev = Eval(ctx)
    for s in strings:
        ev.add("dec " + hx(s) if s else "dec ")
    impl = ev.run()
    exprs = ["map sh_dec [" + "; ".join(codes(s) for s in strings[i:i + 25]) + "]" for i in range(0, len(strings), 25)]
    vals = ctx.coq_eval("c18_dec", IMPORTS, exprs, prelude=PRELUDE, shards=min(16, len(exprs)))
    model = []
    for v in vals:
        for m in re.findall(r"\[([^\[\]]*)\]", v[1:-1] if v.startswith("[") else v):
            model.append(ints(m))
    dis = []
    nok = 0
    for s, a, m in zip(strings, impl, model):
        if a.startswith("Ok "):
            nok += 1
            _, h, f = (a.split(" ") + [""])[:3]
            h = bytes.fromhex(h).decode().lower()
            want = [1, len(h)] + [ord(c) for c in h] + fes_of(f)
        else:
            want = [0]
        if want != m:
            dis.append({"topic": "bech32 decode (CheckedHrpstring::new::<Bolt11Bech32>)", "input": s, "impl": a[:200], "model": m[:60]})
    ctx.coverage["corr_bech32_decode"] = {"strings": len(strings), "accepted": nok}
    # regrouping
    blobs = [bytes(rng.below(256) for _ in range(n)) for n in list(range(0, 42)) + [rng.below(700) for _ in range(20 if q else 200)]]
    blobs += [b"\xff" * 5, b"\x00" * 7, b"\xff" * 33]
    fes_in = ["".join(CHARSET[rng.below(32)] for _ in range(n)) for n in list(range(0, 34)) + [rng.below(1100) for _ in range(20 if q else 200)]]
    ev = Eval(ctx)
    for b in blobs:
        ev.add("to5 " + b.hex())
    for f in fes_in:
        ev.add("from5 " + f)
    impl = ev.run()
    exprs = ["map to_u5 [" + "; ".join(zl(list(b)) for b in blobs[i:i + 40]) + "]" for i in range(0, len(blobs), 40)]
    nb = len(exprs)
    exprs += ["map from_u5_lax [" + "; ".join(zl(fes_of(f)) for f in fes_in[i:i + 40]) + "]" for i in range(0, len(fes_in), 40)]
    vals = ctx.coq_eval("c18_bits", IMPORTS, exprs, prelude=PRELUDE, shards=min(16, len(exprs)))
    def lists(vs):
        out = []
        for v in vs:
            inner = v.strip()[1:-1]
            out += [ints(m) for m in re.findall(r"\[([^\[\]]*)\]", inner)]
        return out
    m_to = lists(vals[:nb])
    m_from = lists(vals[nb:])
    for b, a, m in zip(blobs, impl[:len(blobs)], m_to):
        if fes_of(a[:-1]) != m:
            dis.append({"topic": "bytes_to_fes", "input": b.hex(), "impl": a, "model": m[:40]})
    for f, a, m in zip(fes_in, impl[len(blobs):], m_from):
        if list(bytes.fromhex(a[:-1])) != m:
            dis.append({"topic": "fes_to_bytes", "input": f, "impl": a, "model": m[:40]})
    ctx.coverage["corr_regroup"] = {"to_u5": len(blobs), "from_u5": len(fes_in)}
    # BOLT 12 string layer (no checksum, strict padding)
    offers = [r["str"] for r in recs if r["k"] == "b12" and r.get("type") == "offer" and r.get("built")]
    offers = sorted(set(offers), key=len)[:: max(1, len(offers) // (6 if q else 40))][: (6 if q else 40)]
    strs12 = []
    for s in offers:
        strs12 += [s, s.upper(), s[:-1], s + "q", s + "p", s[:-1] + CHARSET[CHARSET.index(s[-1]) ^ 1], s[:-1] + CHARSET[CHARSET.index(s[-1]) ^ 16], s[:3] + "x" + s[4:]]
        for _ in range(4):
            i = rng.below(len(s))
            strs12.append(s[:i] + CHARSET[rng.below(32)] + s[i + 1:])
    strs12 += ["lno1", "lno1q", "lno1qq", "lno1pg", "lno1pqq", "lno1zzzzzzzz", "lno", "1", "lnr1qq", "lnr1q", "LNO1PG", "lNo1pg", "lno1pb"]
    strs12 = list(dict.fromkeys(strs12))
    ev = Eval(ctx)
    for s in strs12:
        ev.add("decn " + hx(s))
    impl = ev.run()
    exprs = ["map sh_decn [" + "; ".join(codes(s) for s in strs12[i:i + 10]) + "]" for i in range(0, len(strs12), 10)]
    vals = ctx.coq_eval("c18_decn", IMPORTS, exprs, prelude=PRELUDE, shards=min(16, len(exprs)))
    model = lists(vals)
    kinds = {}
    for s, a, m in zip(strs12, impl, model):
        kinds[a.split(" ")[0]] = kinds.get(a.split(" ")[0], 0) + 1
        if a.startswith("Ok "):
            good = m == [1] + list(bytes.fromhex(a[3:]))
        elif a == "OkLayer":
            good = m[:1] == [1]
        elif a == "ErrPadding":
            good = m == [2]
        elif a == "ErrHrp":
            good = m == [3]
        else:
            good = m == [0]
        if not good:
            dis.append({"topic": "BOLT 12 string decode (Offer::from_str: NoChecksum, hrp, validate_segwit_padding, byte_iter)", "input": s[:300], "impl": a[:120], "model": m[:40]})
    ctx.coverage["corr_bolt12_strings"] = dict(kinds, total=len(strs12))
    return dis


def corr_bolt11(ctx, recs, rng):
    q = ctx.tier == "quick"
    dis = []
    invs = [r for r in recs if r["k"] == "b11" and r.get("built")]
    invs = sorted(invs, key=lambda r: r["len"])
    invs = invs[:: max(1, len(invs) // (24 if q else 120))][: (24 if q else 120)]
    # parsed structural variants (duplicated / inserted / reordered fields, several n fields)
    samples = []
    for r in recs:
        if r["k"] == "b11struct":
            samples += r["parsed_samples"]
    samples = list(dict.fromkeys(samples))
    samples = samples[:: max(1, len(samples) // (24 if q else 150))][: (24 if q else 150)]
    ev = Eval(ctx)
    for s_ in samples:
        ev.add("b11 " + hx(s_))
    for s_, o in zip(samples, ev.run()):
        if o.startswith("Ok "):
            invs.append({"s": s_, "desc": o[3:], "len": len(s_), "structural": True})
    exprs = []
    for r in invs:
        s = r["s"]
        sep = s.rfind("1")
        data = fes_of(s[sep + 1:-6])
        exprs.append("(sh_b11 %s, (sh_payee %s, sh_hash %s %s))" % (zl(data), zl(data), codes(s[:sep]), zl(data)))
    vals = ctx.coq_eval("c18_b11", IMPORTS, exprs, prelude=PRELUDE, shards=min(16, max(1, len(exprs))))
    ntags = 0
    nstruct = 0
    for r, v in zip(invs, vals):
        d = dict(kv.split("=", 1) for kv in r["desc"].split(" "))
        tags = [int(t.lstrip("u")) for t in d["tags"].split(",") if t != ""]
        ntags += len(tags)
        want = [1, int(d["ts"])]
        strs = re.findall(r'"((?:[^"]|"")*)"', v)
        m = ints(v[:v.find('"')])
        mp, mh = strs[0], strs[1]
        want_payee = d["payee"] if d["explicit"] == "true" else "none"
        if mp != want_payee:
            dis.append({"topic": "BOLT 11 authoritative payee field (first 53-symbol n field)", "input": r["s"], "impl": r["desc"], "model": mp})
            continue
        nstruct += 1 if r.get("structural") else 0
        exp_present = 6 in tags
        cltv_present = 24 in tags
        want += [int(d["expiry"]) if exp_present else -1, int(d["cltv"]) if cltv_present else -1] + tags
        if m != want or mh != d["hash"]:
            dis.append({"topic": "BOLT 11 data part: timestamp, framing, integer fields, signed hash", "input": r["s"], "impl": r["desc"], "model": {"fields": m[:40], "hash": mh}})
    ctx.coverage["corr_bolt11_invoices"] = {"invoices": len(invs), "tagged_fields": ntags, "structural_variants": nstruct}
    # hrp grammar and amounts
    hrps = ["lnbc", "lntb", "lnbcrt", "lnsb", "lntbs", "ln", "l", "", "lnb", "lnxx", "lnbc1", "lnbc1m", "lnbc1u", "lnbc1n", "lnbc1p", "lnbc10p", "lnbc11p",
            "lnbc2500u", "lnbc0m", "lnbc00001u", "lnbc1x", "lnbc1mm", "lnbc1m1", "lnbcm", "lnbc18446744073709551615p", "lnbc18446744073709551616p",
            "lnbc18446744073709551615", "lnbc18446744073m", "lnbc18446744074m", "lnbc18446744073709u", "lnbc18446744073710u", "lnbc18446744073709551n", "lnbc18446744073709552n",
            "lnbc9999999999999999999999p", "LNBC1m", "lnBC", "lnbc1M", "lntb1u", "lntbs20m", "lnbcrt1p", "lntbs1", "lntb1", "lnbc١", "lnbcé", "lnbc 1", "ln1", "ln1m", "lntbb", "lnbcr"]
    for _ in range(60 if q else 1500):
        cur = rng.choice(["bc", "tb", "bcrt", "sb", "tbs", "bx", ""])
        amt = rng.choice(["", str(rng.below(10 ** rng.range(1, 21))), "0" * rng.below(3) + str(rng.below(10 ** 6))])
        si = rng.choice(["", "m", "u", "n", "p", "x", "mu"])
        hrps.append("ln" + cur + amt + si)
    hrps = list(dict.fromkeys(hrps))
    amts = [0, 1, 9, 10, 99, 100, 101, 1000, 10 ** 5, 10 ** 8, 10 ** 8 + 1, 10 ** 11, 21 * 10 ** 17, (2 ** 64 - 1) // 10, (2 ** 64 - 1) // 10 + 1, 2 ** 64 - 1, 2 ** 63]
    for _ in range(60 if q else 1500):
        amts.append(rng.choice([rng.below(2 ** 64), rng.below(10 ** rng.range(1, 19)), rng.below(10 ** 6) * 10 ** rng.below(13)]))
    acases = [(rng.below(5), a) for a in amts]
    ev = Eval(ctx)
    for h in hrps:
        ev.add("hrp " + h if " " not in h and h else "hrp " + h.replace(" ", "_"))
    curs = ["bc", "tb", "bcrt", "sb", "tbs"]
    for c, a in acases:
        ev.add("amt %s %d" % (curs[c], a))
    hrps = [h.replace(" ", "_") for h in hrps]
    for h in hrps:
        ev.add("amtchk " + h)
    impl = ev.run()
    impl_chk = impl[len(hrps) + len(acases):]
    impl = impl[:len(hrps) + len(acases)]
    exprs = ["map sh_hrp [" + "; ".join(codes(h) for h in hrps[i:i + 60]) + "]" for i in range(0, len(hrps), 60)]
    nh = len(exprs)
    exprs += ["map (fun p => sh_amt (fst p) (snd p)) [" + "; ".join("(%d, %d)" % ca for ca in acases[i:i + 60]) + "]" for i in range(0, len(acases), 60)]
    vals = ctx.coq_eval("c18_hrp", IMPORTS, exprs, prelude=PRELUDE, shards=min(16, len(exprs)))
    def lists(vs):
        out = []
        for v in vs:
            out += [ints(m) for m in re.findall(r"\[([^\[\]]*)\]", v.strip()[1:-1])]
        return out
    mh_, ma = lists(vals[:nh]), lists(vals[nh:])
    CUR = {"Bitcoin": 0, "BitcoinTestnet": 1, "Regtest": 2, "Simnet": 3, "Signet": 4}
    SI = {"Milli": 0, "Micro": 1, "Nano": 2, "Pico": 3, "none": -1}
    nacc = 0
    nimprecise = 0
    for h, a, ck, m in zip(hrps, impl[:len(hrps)], impl_chk, mh_):
        if a.startswith("Ok "):
            nacc += 1
            p = a.split(" ")
            want = [1, CUR[p[1]], -1 if p[2] == "none" else int(p[2]), SI[p[3]], -1 if p[4] == "pico=none" else int(p[4][5:])]
        else:
            want = [0]
        if want != m[:5]:
            dis.append({"topic": "RawHrp::from_str / amount_pico_btc", "input": h, "impl": a, "model": m})
        elif m[0] == 1:
            # semantic layer: Bolt11Invoice::from_signed -> check_amount, amount_milli_satoshis
            if ck.startswith("Ok "):
                wantc = [1, -1 if ck[3:] == "none" else int(ck[3:])]
            elif "ImpreciseAmount" in ck:
                wantc = [0]
                nimprecise += 1
            else:
                wantc = ["?"]
            got = [1, m[6]] if m[5] == 1 else [0]
            if wantc != got:
                dis.append({"topic": "Bolt11Invoice::from_signed amount check (check_amount / amount_milli_satoshis)", "input": h, "impl": ck, "model": m})
        elif ck != "RawErr":
            dis.append({"topic": "RawBolt11Invoice::from_raw hrp verdict", "input": h, "impl": ck, "model": m})
    for (c, am), a, m in zip(acases, impl[len(hrps):], ma):
        want = [1] + [ord(ch) for ch in a[3:]] if a.startswith("Ok ") else [0]
        if want != m:
            dis.append({"topic": "InvoiceBuilder::amount_milli_satoshis / Display for RawHrp", "input": {"currency": curs[c], "msat": am}, "impl": a, "model": m})
    ctx.coverage["corr_bolt11_hrp"] = {"hrp_strings": len(hrps), "accepted": nacc, "imprecise_refused": nimprecise, "amounts": len(acases)}
    return dis


def corr_merkle(ctx, recs, rng):
    q = ctx.tier == "quick"
    dis = []
    sigs = [r for r in recs if r["k"] == "b12sig"]
    sigs = sigs[:: max(1, len(sigs) // (12 if q else 150))][: (12 if q else 150)]
    cases = [(r["tag"], r["bytes"], r["root"] + " " + r["digest"]) for r in sigs]
    # synthetic well-formed streams: 1..N records (all tree shapes), signature-range records interleaved,
    # multi-byte types; evaluated by the library through the hook
    ev = Eval(ctx)
    synth = []
    sizes = (list(range(1, 14)) + [16, 17, 32, 33]) if q else list(range(1, 70))
    for n in sizes:
        t = rng.below(3)
        b = b""
        for i in range(n):
            v = bytes(rng.below(256) for _ in range(rng.choice([0, 1, 2, 8, 32, 33, 64, rng.below(80)])))
            b += bigsize_enc(t) + bigsize_enc(len(v)) + v
            t += 1 + rng.choice([0, 0, 1, 5, 200, 70000, 2 ** 32])
        # signature-range records and boundary types
        recs_ = tlv_records(b)
        extra = [(ty, bytes(rng.below(256) for _ in range(64))) for ty in rng.choice([[240], [239, 240, 1000, 1001], [241, 999], [1000], []])]
        allr = {ty: raw for ty, _, raw in recs_}
        for ty, v in extra:
            allr[ty] = bigsize_enc(ty) + bigsize_enc(len(v)) + v
        b = b"".join(allr[k] for k in sorted(allr))
        tag = rng.below(2)
        synth.append((tag, b.hex()))
        ev.add("root %d %s" % (tag, b.hex()))
    ev.add("sigtypes")
    out = ev.run()
    if out[-1] != "240 1000":
        dis.append({"topic": "SIGNATURE_TYPES", "impl": out[-1], "model": "240 1000"})
    for (tag, hx_), o in zip(synth, out[:-1]):
        cases.append((tag, hx_, o))
    exprs = ['sh_root "%s" "%s"' % (TAGS[t], h) for t, h, _ in cases]
    vals = ctx.coq_eval("c18_merkle", IMPORTS, exprs, prelude=PRELUDE, shards=16)
    nrec = 0
    for (t, h, want), v in zip(cases, vals):
        nrec += len(tlv_records(bytes.fromhex(h)))
        if strval(v) != want:
            dis.append({"topic": "merkle root / signature digest (TaggedHash)", "input": {"tag": TAGS[t], "stream": h}, "impl": want, "model": strval(v)})
    ctx.coverage["corr_merkle"] = {"streams": len(cases), "real_signed_objects": len(sigs), "records": nrec}
    return dis


def corr_meta(ctx, recs, rng):
    q = ctx.tier == "quick"
    dis = []
    meta = [r for r in recs if r["k"] == "meta" and r["verdict"] in ("Ok", "Err", "DerivedKeys")]
    # balanced sample over (check, expect, verdict)
    groups = {}
    for r in meta:
        keyrec = ("of type 22" in r["case"]) or ("of type 88" in r["case"])
        groups.setdefault((r["check"], r.get("mode", ""), r["expect"], r["verdict"], keyrec), []).append(r)
    sample = []
    per = 4 if q else 40
    for k in sorted(groups):
        g = groups[k]
        sample += g[:: max(1, len(g) // per)][:per]
    exprs = []
    for r in sample:
        if r["check"] == "offer_md":
            exprs.append('sh_meta (meta_verdict_offer (bytes_of_hex "%s") (bytes_of_hex "%s"))' % (r["key"], r["stream"]))
        elif r["check"] == "offer_rd":
            exprs.append('sh_meta (meta_verdict_offer_rd (bytes_of_hex "%s") (bytes_of_hex "%s") (bytes_of_hex "%s"))' % (r["key"], r["nonce"], r["stream"]))
        else:
            exprs.append('sh_meta (meta_verdict_payer (bytes_of_hex "%s") (bytes_of_string "%s") (bytes_of_hex "%s"))' % (r["key"], r["iv"], r["stream"]))
    vals = ctx.coq_eval("c18_meta", IMPORTS, exprs, prelude=PRELUDE, shards=16)
    ev = Eval(ctx)
    pend = []
    verdicts = []
    for r, v in zip(sample, vals):
        s = strval(v)
        kind, mac = s.split(":")
        if kind == "DerivedKeys":
            pend.append((len(verdicts), ev.add("pk " + mac), r))
            verdicts.append(None)
        else:
            verdicts.append(kind)
    pks = ev.run()
    for (i, j, r) in pend:
        rs = tlv_records(bytes.fromhex(r["stream"]))
        want_ty = 88 if r["check"] == "payer" else 22
        pk = next((v.hex() for t, v, _ in rs if t == want_ty), None)
        verdicts[i] = "DerivedKeys" if pks[j] == pk else "Err"
    hist = {}
    for r, m in zip(sample, verdicts):
        a = r["verdict"]
        # the payer check returns Ok both for the MAC form and the derived-key form
        if r["check"] == "payer" and a == "Ok" and m == "DerivedKeys":
            m = "Ok"
        hist[a] = hist.get(a, 0) + 1
        if a != m:
            dis.append({"topic": "metadata verification (%s)" % r["check"], "input": {"case": r["case"], "key": r["key"], "nonce": r.get("nonce"), "stream": r["stream"]}, "impl": a, "model": m})
    ctx.coverage["corr_metadata"] = {"cases": len(sample), "impl_verdicts": hist}
    return dis


def run(ctx):
    ok_build, out = ctx.build_harness(BINS)
    if not ok_build:
        ctx.violation("harness does not build against the current tree", {"broken": "harness-build", "log_tail": out[-3000:]}, False)
        ctx.write_evidence(LEVEL)
        return
    gen_err = None
    try:
        generate(ctx)
        ctx.obligations.append(("pin:verify_metadata compares full key encodings; BOLT 11 check_signature verifies against the key the accessors report", True, "anchored expressions present"))
    except Exception as ex:
        gen_err = str(ex)
        ctx.log("structural pin refused:", gen_err[:400])
        ctx.obligations.append(("pin:verify_metadata compares full key encodings; BOLT 11 check_signature verifies against the key the accessors report", False, gen_err[:600]))
    okm, outm = ctx.coq_make(["Model/Bech32.vo", "Model/Bolt11.vo", "Model/Bolt12Merkle.vo", "Model/OfferMeta.vo", "Model/Bolt12Exec.vo"])
    proved = ctx.prove("C18")
    ctx.trusted_base += [
        "Coq 8.16.1 kernel + vm_compute (finite tables of the checksum generator: 32 / 32x32 / 31x84 cases; no native_compute)",
        "Model/Bech32.v, Bolt11.v, Bolt12Merkle.v, OfferMeta.v: hand models of bech32 0.11.1, lightning-invoice de.rs/ser.rs/lib.rs, offers/merkle.rs, offers/signer.rs; tied by functional correspondence on every run",
        "premises visible in the theorem statements: collision-free 32-byte hash (C18_merkle_injective, C18_digest_binds_records), collision-free MAC and injective secret->public key map (C18_metadata_*), ECDSA recovery soundness (C18_signed_content)",
        "coq/Crypto/Sha256.v, Hmac.v (executable instances used only for byte-exact comparison)",
        "harness crate /verif/harness (h_invoice), bitcoin::bech32 re-export, secp256k1",
        "hook lightning::offers::merkle::verif_hooks_offers_merkle (TaggedHash::from_valid_tlv_stream_bytes, SIGNATURE_TYPES)",
    ]
    ctx.assumptions += ["SHA-256 collision resistance, HMAC-SHA256 unforgeability, ECDSA/Schnorr unforgeability (secp256k1)",
                        "objects are judged on the seeded builder grid and mutation streams; whole-object round trip is validation, not proof"]
    # ---- implementation side: the property statement on real outputs
    rc, recs, complete = run_gen(ctx)
    if rc != 0 or not complete:
        ctx.violation("h_invoice gen crashed or did not finish (a panic outside catch_unwind or an abort is itself a C18 violation: parsing must never panic)",
                      {"broken": "gen:h_invoice", "rc": rc, "last_records": recs[-3:]}, found_input=bool(recs))
        ctx.write_evidence(LEVEL)
        return
    fails = judge_gen(ctx, recs)
    # ---- model vs implementation
    dis = []
    corr_err = None
    if okm:
        try:
            import time as _t
            rng = ctx.rng.fork("corr")
            for name, fn in (("bech32", corr_bech32), ("bolt11", corr_bolt11), ("merkle", corr_merkle), ("meta", corr_meta)):
                t0 = _t.time()
                dis += fn(ctx, recs, rng.fork(name))
                ctx.timed("corr_%s_s" % name, _t.time() - t0)
        except RuntimeError as ex:
            corr_err = str(ex)[-2000:]
    n_eval = sum(v if isinstance(v, int) else 0 for v in ctx.coverage.get("bolt11_mutations", {}).values()) + ctx.coverage.get("bolt12_signed_bit_flips", 0) \
        + ctx.coverage.get("bolt11_random_strings", 0) + ctx.coverage.get("bolt12_fuzz_cases", 0) + len(recs)
    n_corr = 0
    for k, v in ctx.coverage.items():
        if k.startswith("corr_") and isinstance(v, dict):
            n_corr += sum(x for kk, x in v.items() if isinstance(x, int) and kk in ("strings", "to_u5", "from_u5", "total", "invoices", "hrp_strings", "amounts", "streams", "cases"))
    ctx.coverage["evaluations"] = n_eval + n_corr
    built = len([r for r in recs if r["k"] in ("b11", "b12") and r.get("built")])
    n_sweep = sum(r["total"] for r in recs if r["k"] == "metasweep")
    ctx.coverage["evaluations"] += n_sweep
    ctx.coverage["distinct_nontrivial"] = built + n_corr + len([r for r in recs if r["k"] == "meta"]) + n_sweep
    ctx.coverage["rule"] = ("distinct built objects (distinct seeded field combinations accepted by the builders) + distinct metadata scenarios + distinct model-vs-implementation cases "
                            "(deduplicated strings / byte strings / streams) + distinct valid objects built against altered originals (metadata_alteration_sweeps); non-trivial = reaches the parser or verifier under test. Mutation counts are reported separately in bolt11_mutations / bolt12_signed_bit_flips.")
    for r in recs:
        if r["k"] == "b11" and r.get("built"):
            ctx.samples.append({"bolt11": r["s"][:160] + "...", "parsed": r["desc"]})
            break
    for r in recs:
        if r["k"] == "b11mut":
            ctx.samples.append({"mutations_of": r["s"][:80] + "...", "symbol": {k: v for k, v in r["symbol"].items() if k != "violations"}, "single_char": {k: v for k, v in r["single_char"].items() if k != "violations"}})
            break
    for r in recs:
        if r["k"] == "meta" and r["expect"] == "refuse":
            ctx.samples.append({"metadata_case": r["case"], "verdict": r["verdict"]})
            break
    # ---- decide (DESIGN.md §9)
    for f in fails[:3]:
        what = f.get("why") or f.get("case") or ""
        if f["k"] == "b11struct":
            v = f["structural"]["violations"]
            what = v[0]["why"] + " [" + v[0]["input"].split(" | ")[0] + "; " + v[0]["input"].split(" | ")[1] + "]"
            mstr = v[0]["input"].split(" | ")[-1]
            inp = {"original": f["s"], "mutation": " | ".join(v[0]["input"].split(" | ")[:-1]), "mutated": mstr, "replay_cmd": "printf 'b11 %s\\n' | %s eval" % (hx(mstr), ctx.bin_path("h_invoice"))}
        elif f["k"] == "b11mut":
            v = [x for m in ("single_char", "symbol", "amount", "timestamp", "truncation") for x in f[m]["violations"]]
            what = v[0]["why"] if v else "mutation accepted"
            inp = {"original": f["s"], "mutated": v[0]["input"] if v else None, "replay_cmd": "printf 'b11 %s\\n' | %s eval" % (hx(v[0]["input"]) if v else "", ctx.bin_path("h_invoice"))}
        elif f["k"] == "b12sig":
            what = "bit-flipped or truncated signed %s still parses" % f["type"]
            inp = {"original": f["bytes"], "violations": f["violations"] + f["trunc_violations"]}
        elif f["k"] == "metasweep":
            v = f["violations"][0]
            what = "metadata check %s accepted a valid object built against an altered original (%s)" % (f["check"], v["case"])
            inp = dict(v)
            inp["mode"] = f["mode"]
            inp["replay_cmd"] = "printf '%s %s %s\\n' | %s eval" % ("vinv" if f["check"] == "payer" else "vreq", v["key"], v["stream"], ctx.bin_path("h_invoice"))
        elif f["k"] == "meta":
            what = "metadata check %s: expected %s, got %s (%s)" % (f["check"], f["expect"], f["verdict"], f["case"])
            inp = {k: f.get(k) for k in ("check", "case", "key", "nonce", "iv", "stream", "verdict", "expect")}
            inp["replay_cmd"] = "printf '%s %s %s\\n' | %s eval" % ("vinv" if f["check"] == "payer" else "vreq", f["key"], f["stream"], ctx.bin_path("h_invoice"))
        else:
            inp = {k: (v if len(str(v)) < 4000 else str(v)[:4000]) for k, v in f.items()}
        ctx.violation("C18 fails on the implementation (%s): %s" % (f["k"] + "/" + f.get("type", f.get("check", "")), str(what)[:300]),
                      {"failing_input": inp, "record": f["k"], "n_failing_records": len(fails)}, True)
    broken = []
    if gen_err:
        broken.append({"obligation": "structural pins (tools/props/C18.py:generate)", "detail": gen_err[:1500]})
    ctx.coverage["translated_items"] = getattr(ctx, "gen_meta", [])
    if not proved:
        broken.append({"obligation": "Coq proof of Props/C18.v", "detail": getattr(ctx, "proof_failure", {"where": "model build" if not okm else "?", "log": outm[-1500:] if not okm else ""})})
    if corr_err:
        broken.append({"correspondence": "model evaluation / harness eval failed", "detail": corr_err})
    if dis:
        topics = {}
        for d in dis:
            topics[d["topic"]] = topics.get(d["topic"], 0) + 1
        broken.append({"correspondence": "model vs implementation", "topics": topics, "first_disagreements": dis[:4], "n": len(dis)})
    if broken and not fails:
        ctx.violation("C18 no longer shown: " + ("structural pin" if gen_err else "proof" if not proved else "correspondence") + " broken"
                      + ("; " + dis[0]["topic"] if dis else ""),
                      {"broken": broken, "search": "property judge over %d implementation evaluations (round trips, all mutation streams, metadata scenarios) found no failing input" % n_eval}, False)
    ctx.write_evidence(LEVEL)


def replay(ctx, rep):
    print(json.dumps(rep, indent=1)[:6000])
    fi = rep.get("failing_input") or {}
    cmd = fi.get("replay_cmd") if isinstance(fi, dict) else None
    if cmd:
        ok, _ = ctx.build_harness(BINS)
        rc, out, _ = core.sh(cmd, timeout=120)
        print("replay on the implementation:", out.strip()[:2000])
    return 0
