"""C05 helper: trace correspondence of Model/RevokeLog.v against real two-node channels (h_revoke),
and the policy judge on the implementation's own signer log. Not a plugin (name starts with '_')."""
import json

TWO48 = 1 << 48
INITIAL = TWO48 - 1
SIGNER_KINDS = ("release", "validate_holder", "sign_counterparty", "sign_holder", "validate_revocation")
EV_CODE = {"release": 1, "validate_holder": 2, "sign_counterparty": 3, "sign_holder": 4, "validate_revocation": 5}

REV_IMPORTS = ["LdkV.Prim.U64", "LdkV.Model.RevokeLog"]
REV_PRELUDE = """
Open Scope Z_scope.
Definition zstep := step Z Z (fun x => x) Z.eqb.
Definition b2z (b : bool) : Z := if b then 1 else 0.
Definition show_ev (e : ev Z Z) : list Z :=
  match e with
  | Release k => [1; k] | ValidateHolder k a b => [2; k; a; b] | SignCounterparty k => [3; k]
  | SignHolder k => [4; k] | ValidateRevocation k => [5; k]
  | StoreSecret k s => [6; k; s] | Announce k p => [7; k; p]
  end.
Definition opz (o : option Z) : Z := match o with Some x => x | None => -1 end.
Definition show_st (s : st Z Z) : list Z :=
  [holder_next s; cp_next s; b2z (awaiting_rr s); b2z (disconnected s); b2z (mon_in_progress s);
   b2z (mp_raa s); b2z (mp_cs s); b2z (raa_first s); b2z (closed s);
   b2z (chan_ready (hsk s)); b2z (our_ready (hsk s)); b2z (their_ready (hsk s)); b2z (wfb (hsk s));
   opz (cp_cur_point s); opz (cp_next_point s);
   b2z (stfu_sent (ext s)); b2z (quiescent (ext s)); opz (mon_signed (ext s))].
Fixpoint run_show (s : st Z Z) (ops : list (op Z Z)) : list (list (list Z) * list Z) :=
  match ops with
  | [] => []
  | o :: r => let '(s', evs) := zstep s o in (map show_ev evs, show_st s') :: run_show s' r
  end.
Definition accepted (l : list (ev Z Z)) : Z :=
  match chk_all Z Z (fun x => x) Z.eqb (pol_init Z) l with Some _ => 1 | None => 0 end.
Definition T := true.
Definition F := false.
"""


KNOWN_F1 = "F1-reestablish-signs-unrecorded-counterparty-commitment"
KNOWN_F2 = "F2-early-revoke-and-ack-advances-past-an-unsigned-commitment"
KNOWN = (KNOWN_F1, KNOWN_F2)


def cb(b):
    return "T" if b else "F"


def zlit(z):
    return str(z) if z >= 0 else "(%d)" % z


def py_chk(events):
    """[chk] of Model/RevokeLog.v in Python. events: tuples (kind, k[, x]). None if accepted, else
    (position, reason)."""
    vh, rv, st, ann = INITIAL, INITIAL + 1, INITIAL + 1, set()
    rel, sh = INITIAL + 1, None      # last released holder number; highest holder number signed for broadcast
    for pos, e in enumerate(events):
        kind, k = e[0], e[1]
        if kind == "sign_holder":
            if not (vh <= k < rel):
                return pos, "sign_holder_commitment(%d): %s (latest validated %d, last released %d)" % (
                    k, "that commitment was revoked: its secret was released" if k >= rel else "no such commitment was ever validated", vh, rel)
            sh = k if sh is None else max(sh, k)
        elif kind == "validate_holder":
            if k != vh - 1:
                return pos, "validate_holder(%d): holder commitment numbers must step by exactly one from %d" % (k, vh)
            if len(e) > 3 and e[2] != e[3]:
                return pos, "holder commitment %d was accepted (and its predecessor will be revoked) although it is not fully signed: %d counterparty HTLC signatures for %d non-dust HTLCs" % (k, e[2], e[3])
            vh = k
        elif kind == "release":
            if not (k == vh + 1 and k <= INITIAL):
                return pos, "release_commitment_secret(%d) while the latest fully signed holder commitment is %d: %s" % (
                    k, vh, "the state is revoked before a newer one is held" if k <= vh else "not the predecessor of the current state")
            if sh is not None and not sh < k:
                return pos, "release_commitment_secret(%d) after holder commitment %d was signed for broadcast: the node revokes a commitment it has signed and broadcast" % (k, sh)
            rel = k
        elif kind == "sign_counterparty":
            if k != st - 2:
                return pos, "sign_counterparty_commitment(%d) while the last revoked counterparty commitment is %d: %s" % (
                    k, st, "more than one earlier commitment is unrevoked" if k < st - 2 else "number does not advance by one")
        elif kind == "validate_revocation":
            if not (k == rv - 1 and st == rv):
                return pos, "validate_counterparty_revocation(%d): last validated %d, last stored %d" % (k, rv, st)
            rv = k
        elif kind == "store":
            if not (k == rv and st == k + 1 and (k, e[2]) in ann):
                return pos, "a secret for commitment %d was stored although it does not match the point announced for it" % k
            st = k
        elif kind == "announce":
            if any(k0 == k for (k0, _) in ann):
                return pos, "the per-commitment point announced for commitment %d was replaced by a later announcement" % k
            ann.add((k, e[2]))
    return None


def coq_ev(e):
    kind, k = e[0], e[1]
    if kind == "release":
        return "Release %d" % k
    if kind == "validate_holder":
        return "ValidateHolder %d %d %d" % (k, e[2] if len(e) > 3 else 0, e[3] if len(e) > 3 else 0)
    if kind == "sign_counterparty":
        return "SignCounterparty %d" % k
    if kind == "sign_holder":
        return "SignHolder %d" % k
    if kind == "validate_revocation":
        return "ValidateRevocation %d" % k
    if kind == "store":
        return "StoreSecret %d %s" % (k, zlit(e[2]))
    return "Announce %d %s" % (k, zlit(e[2]))


def view_vec(v):
    if v is None:
        return None
    return [v["hn"], v["cn"], int(v["aw"]), int(v["dc"]), int(v["mon"]), int(v["mpr"]), int(v["mpc"]), int(v["rf"]),
            int(v.get("ready", True)), int(v.get("ours", False)), int(v.get("theirs", False)), int(v.get("wfb", False)),
            v.get("pc", None), v.get("pn", None), int(v.get("sl", False)), int(v.get("qu", False))]


CS_COUNT_RE = None


def cs_params(args, obs, sig, gone_now):
    """(sig_ok, nsig, nnd, htlc_ok) of a delivered commitment_signed, as the receiver saw them: from the
    signer log when it validated, else from its closure reason."""
    import re
    nsig = args.get("nh", 0)
    vh = [l for l in obs["log"] if l[0] == "validate_holder"]
    reason = obs.get("closed") or ""
    if vh and len(vh[0]) >= 5:
        return True, vh[0][3], vh[0][4], True
    m = re.search(r"wrong number of HTLC signatures \((\d+)\) from remote. It must be (\d+)", reason)
    if m:
        return True, int(m.group(1)), int(m.group(2)), True
    if "Invalid HTLC tx signature" in reason:
        return True, nsig, nsig, False
    if gone_now and not vh:
        return False, nsig, nsig, True      # invalid commitment signature (or a consequence of an earlier corruption)
    return True, nsig, nsig, True


class NodeTrace:
    """Per node: the model operations inferred from what the harness did to it, aligned with what
    the implementation showed after each harness step."""

    def __init__(self, n, init):
        self.n = n
        self.p0, self.p1 = init["p0"], init.get("p1", -1)
        self.view = init["view"]
        self.batch = bool(self.view.get("wfb", False))
        self.groups = []          # per harness step: dict(step=i, ops=[coq op strings], impl_events=[...], impl_view=vec|None, act=...)
        self.events = [("announce", INITIAL, self.p0)]
        self.first_announced = {INITIAL: self.p0}
        self.point_fails = []
        self.release_fails = []
        self.prelude = []
        if self.view.get("ready", True):
            # the scenario starts after the channel_ready exchange
            self.prelude = ["OOurChannelReady", "ORecvChannelReady %s" % zlit(self.p1)]
            self.events.append(("announce", INITIAL - 1, self.p1))
            self.first_announced[INITIAL - 1] = self.p1
        elif self.view.get("ours", False):
            # a 0-conf acceptor has sent its channel_ready at funding time
            self.prelude = ["OOurChannelReady"]
        self.released = {}        # commitment number -> secret id this node released for it
        self.htlc_signs = []      # (position in events, number)
        self.bcast_unsigned = []
        self.signed_txids = set()
        self.reest_sent = []      # (step, nl, nr, view before)
        self.sc_signed = []       # (number, txid8, step, signed_on_reestablish_while_not_awaiting)
        self.held = False         # the harness keeps this node's manager from processing monitor events
        self.held_deliveries = 0
        self.locked = False       # the monitor signed a holder commitment (any path) in an earlier step
        self.cp_recorded = {INITIAL}   # counterparty commitment numbers handed to the monitor (its update stream)
        self.unsolicited = []     # (step, number, kind): revocation stored without a newer commitment recorded
        self.unrecorded_signs = []  # (step, number, act, t, prev_aw, prev_mpc)
        self.inject_states = []   # (kind, receiver state label)
        self.holder_update = {}   # holder commitment number -> id of the monitor update that carried it
        self.reloaded_since = {}
        self.early_release = []   # (step, number, update id, act, t)
        self.early_accepted = []  # (step, number, kind): raa_early accepted while the commitment_signed was still pending on a monitor update

    def add_step(self, step, obs):
        n = self.n
        act, node, args = step["act"], step.get("node"), step.get("args") or {}
        prev, view = self.view, obs["view"]
        log = obs["log"]
        sig = []
        for l in log:
            if l[0] == "validate_holder" and len(l) >= 5:
                sig.append((l[0], l[1], l[3], l[4]))
            elif l[0] in SIGNER_KINDS:
                sig.append((l[0], l[1]))
        for l in log:
            if l[0] in ("sign_holder",) and len(l) > 2:
                self.signed_txids.add(l[2])
        gone_now = prev is not None and view is None
        ops = []
        mine = node == n
        if mine and act == "process_events":
            self.held = False
        if mine and act == "deliver" and self.held:
            self.held_deliveries += 1
        t = args.get("t") if act == "deliver" else None
        signs_holder = any(e[0] == "sign_holder" for e in sig)
        if prev is not None:
            if act == "deliver" and mine and args.get("corrupt"):
                c = args["corrupt"]
                if c.startswith("raa_") or c == "cs_dup":
                    lab = "+".join(x for x, on in (("awaiting", prev["aw"]), ("mon", prev["mon"]), ("stfu", prev.get("sl")),
                                                     ("quiescent", prev.get("qu")), ("disconnected", prev["dc"]),
                                                     ("held", self.held)) if on) or "idle"
                    self.inject_states.append((c, lab))
            if act == "deliver" and mine and t == "cs":
                sig_ok, nsig, nnd, htlc_ok = cs_params(args, obs, sig, gone_now)
                if args.get("corrupt") in ("cs_sig", "cs_dup"):
                    sig_ok = False
                need = (not prev["aw"]) and view is not None and view["aw"]
                sync = view is not None and not view["mon"]
                ops.append("ORecvCS %s %d %d %s %s %s" % (cb(sig_ok), nsig, nnd, cb(htlc_ok), cb(need), cb(sync)))
            elif act == "deliver" and mine and t == "raa":
                commit = view is not None and view["aw"]
                sync = view is not None and not view["mon"]
                ops.append("ORecvRAA %s %s T %s %s" % (zlit(args["secret"]), zlit(args["next_point"]), cb(commit), cb(sync)))
            elif act == "deliver" and mine and t == "reest":
                ops.append("ORecvReest %s %s %s" % (zlit(args["nl"]), zlit(args["nr"]), self.sec_class(args, step)))
            elif act == "deliver" and mine and t == "ready":
                ops.append("ORecvChannelReady %s" % zlit(args["next_point"]))
            elif act in ("disconnect", "reload", "reload_stale"):
                ops.append("OReload" if (mine and act != "disconnect") else "ODisconnect")
                if gone_now:
                    ops.append("OForceClose" if signs_holder else "OChainClose")
            elif act == "mon_complete" and mine:
                if prev["mon"]:
                    ops.append("OMonitorDone")
            elif act == "force_close" and mine:
                ops.append("OForceClose")
            elif act == "mon_broadcast" and mine:
                # the user calls ChannelMonitor::broadcast_latest_holder_commitment_txn on the live channel's
                # monitor; unless the harness holds the manager back, it learns of it in the same step
                ops.append("OMonBroadcast")
                if gone_now:
                    ops.append("OProcessEvents")
            elif act == "process_events" and mine:
                if gone_now:
                    ops.append("OProcessEvents")
            elif gone_now:
                ops.append("OForceClose" if signs_holder else "OChainClose")
            # handshake progress made by the node itself (funding depth reached, batch completed); the
            # ChannelManager does it whenever blocks/messages are processed, in any step
            if view is not None and not any(o.startswith("OForceClose") or o.startswith("OChainClose") for o in ops):
                recv_ready = any(o.startswith("ORecvChannelReady") for o in ops)
                if prev.get("wfb", False) and not view.get("wfb", False):
                    ops.append("OBatchReady")
                ours_now = view.get("ours", False) and not prev.get("ours", False)
                ready_by_us = view.get("ready", True) and not prev.get("ready", True) and not (recv_ready and prev.get("ours", False))
                if ours_now or ready_by_us:
                    ops.append("OOurChannelReady")
            # A new commitment can be built in ANY step, for either node: the harness drains both nodes'
            # pending message events after every action, which lets the ChannelManager free holding cells
            # (after a reestablish, a monitor completion, ...). ORecvCS / ORecvRAA already carry that bit.
            if view is not None and prev.get("qu") and not view.get("qu") and act not in ("disconnect", "reload", "reload_stale"):
                ops.append("OExitQuiescence")      # (frees the holding cell: a commitment may follow in the same step)
            accounted = any(o.startswith("ORecvCS") or o.startswith("ORecvRAA") for o in ops)
            if not accounted and (not prev["aw"]) and view is not None and view["aw"]:
                ops.append("OCommit %s" % cb(not view["mon"]))
            if not [o for o in ops if o != "OExitQuiescence"] and view is not None and (not prev["mon"]) and view["mon"]:
                # a monitor update that carries no commitment (e.g. a preimage while the claim sits in the holding cell)
                ops.append("OMonUpdate F")
            # the stfu handshake (its conditions depend on HTLC content): the flags as the node set them
            if view is not None:
                if not prev.get("sl") and view.get("sl"):
                    ops.append("OStfuSent")
                if not prev.get("qu") and view.get("qu"):
                    ops.append("OQuiescent")
        # re-signing of the current holder commitment by the monitor after the close
        n_sh = sum(1 for e in sig if e[0] == "sign_holder")
        if self.locked:
            closes_with_sign = 0           # the funding claim exists: whatever is signed now is a re-signing
        elif act == "mon_broadcast" and mine and prev is not None:
            closes_with_sign = 1 if n_sh > 0 else 0
        else:
            closes_with_sign = 1 if (gone_now and n_sh > 0) else 0
        if n_sh > 0:
            self.locked = True
        for _ in range(n_sh - closes_with_sign):
            ops.append("OResign")
        self.groups.append({"step": step["i"], "act": act, "node": node, "args": args, "ops": ops,
                            "impl_events": [[EV_CODE[e[0]], e[1]] + list(e[2:]) for e in sig],
                            "impl_view": view_vec(view), "prev_view": view_vec(prev)})
        # ---- the monitor's update stream: which counterparty commitments exist as far as the monitor knows
        for mu in obs.get("mon", []) or []:
            for num in mu.get("cp", []):
                self.cp_recorded.add(num)
            if any(k.startswith("LatestHolderCommitment") for k in mu.get("kinds", [])):
                # the update that carries the holder commitment validated in this step
                for l in log:
                    if l[0] == "validate_holder":
                        self.holder_update[l[1]] = mu["id"]
        # (iii) a secret is released only once the monitor update carrying the successor commitment is PERSISTED
        for l in log:
            if l[0] == "release":
                uid = self.holder_update.get(l[1] - 1)
                if uid is not None and uid in (obs.get("pend") or []) and not self.reloaded_since.get(l[1] - 1):
                    self.early_release.append((step["i"], l[1], uid, act, t))
        if mine and act in ("reload", "reload_stale"):
            for k in self.holder_update:
                self.reloaded_since[k] = True
        # ---- implementation event list for the policy judge
        for l in log:
            kind, num = l[0], l[1]
            if kind == "sign_counterparty" and num not in self.cp_recorded:
                self.unrecorded_signs.append((step["i"], num, act, t, bool(prev and prev["aw"]), bool(prev and prev["mpc"]), args.get("corrupt")))
            if kind == "validate_holder" and len(l) >= 5:
                self.events.append((kind, num, l[3], l[4]))
            elif kind in SIGNER_KINDS:
                self.events.append((kind, num))
                if kind == "validate_revocation" and act == "deliver" and mine and t == "raa" and prev is not None \
                        and view is not None and view["cn"] == prev["cn"] - 1:
                    self.events.append(("store", num, args["secret"]))
                    self.events.append(("announce", num - 2, args["next_point"]))
                    if (num - 1) not in self.cp_recorded:
                        self.unsolicited.append((step["i"], num, args.get("corrupt")))
                    if args.get("corrupt") == "raa_early" and prev["mon"] and prev["mpc"]:
                        self.early_accepted.append((step["i"], num, "raa_early"))
                    self.first_announced.setdefault(num - 2, args["next_point"])
            elif kind == "sign_holder_htlc":
                self.htlc_signs.append((len(self.events), num))
        # the first channel_ready this node takes into account announces the point of INITIAL - 1
        if act == "deliver" and mine and t == "ready" and prev is not None and view is not None \
                and (INITIAL - 1) not in self.first_announced and not prev.get("dc", False):
            self.first_announced[INITIAL - 1] = args["next_point"]
            self.events.append(("announce", INITIAL - 1, args["next_point"]))
        # (ii) the points the node holds are the ones FIRST announced for their numbers
        if view is not None and view.get("pn") is not None:
            shifted = view.get("ready", True) or view.get("theirs", False)
            want_pn = self.first_announced.get(view["cn"] if shifted else view["cn"] + 1)
            want_pc = self.first_announced.get(view["cn"] + 1) if shifted else None
            if want_pn is not None and view["pn"] != want_pn:
                self.point_fails.append((step["i"], "next", view["cn"] if shifted else view["cn"] + 1, want_pn, view["pn"]))
            if want_pc is not None and view.get("pc", -1) != want_pc:
                self.point_fails.append((step["i"], "current", view["cn"] + 1, want_pc, view.get("pc")))
        # (i) a secret is released only while the monitor's current holder commitment is the successor,
        #     signed completely: commitment signature and one valid HTLC signature per non-dust HTLC
        h = obs.get("holder")
        for l in log:
            if l[0] == "release" and h is not None:
                if not (h["num"] == l[1] - 1 and h["csig"] and h["nsig"] == h["nnd"] == h["nvalid"]):
                    self.release_fails.append((step["i"], l[1], h))
        for l in log:
            if l[0] == "sign_counterparty":
                unrec = bool(act == "deliver" and mine and t == "reest" and prev is not None and not prev["aw"])
                self.sc_signed.append((l[1], l[2] if len(l) > 2 else "", step["i"], unrec))
        # secrets this node released, as seen on the wire
        rel = [l[1] for l in log if l[0] == "release"]
        raas = [m for m in obs.get("sent", []) if m.get("t") == "raa"]
        for k, m in zip(rel, raas):
            self.released[k] = m["secret"]
        for m in obs.get("sent", []):
            if m.get("t") == "reest":
                self.reest_sent.append((step["i"], m["nl"], m["nr"], prev))
        for b in obs.get("bcast", []):
            if b.get("spends_funding") and b.get("seq0", 0) != 0xffffffff and b["txid"] not in self.signed_txids:
                self.bcast_unsigned.append((step["i"], b["txid"]))
        self.view = view
        if mine and act == "mon_broadcast" and args.get("hold"):
            self.held = True

    def sec_class(self, args, step):
        sid = args.get("secret", -1)
        nr = args["nr"]
        if sid == -1:
            return "SecGarbage"
        want = self.released.get(INITIAL - nr + 1)
        return "SecMatch" if (want is not None and want == sid) else "SecWrong"

    def coq_expr(self):
        ops = self.prelude + [o for g in self.groups for o in g["ops"]]
        return "run_show (init Z Z %s %s) [%s]" % (cb(self.batch), zlit(self.p0), "; ".join(ops))

    def coq_accept_expr(self):
        return "accepted [%s]" % "; ".join(coq_ev(e) for e in self.events)


def same_view(model, impl):
    """model: show_st vector (15 entries, index 8 = closed); impl: view_vec (14 entries)."""
    m = model[:8] + model[9:]
    for a, b in zip(m, impl):
        if b is None:
            continue
        if a != b:
            return False
    return True


def parse_nested(v):
    return json.loads(v.replace(";", ",").replace("(", "[").replace(")", "]"))


def judge_node(tr):
    """The C05 predicate on the implementation's own log for one node. Returns list of reasons."""
    out = []
    r = py_chk(tr.events)
    if r is not None:
        pos, why = r
        out.append({"why": why, "event_index": pos, "events_before": [list(e) for e in tr.events[max(0, pos - 6):pos + 1]]})
    # HTLC transactions are signed only on the latest validated, unrevoked holder commitment
    vh = INITIAL
    rels = []
    idx_htlc = 0
    hs = sorted(tr.htlc_signs)
    for pos, e in enumerate(tr.events + [None]):
        while idx_htlc < len(hs) and hs[idx_htlc][0] == pos:
            k = hs[idx_htlc][1]
            if k < vh or any(k >= r_ for r_ in rels):
                out.append({"why": "an HTLC transaction of holder commitment %d was signed: %s (latest validated %d, released: %s)"
                                   % (k, "that commitment is revoked" if any(k >= r_ for r_ in rels) else "no such commitment was validated", vh, rels[-3:])})
            idx_htlc += 1
        if e is None:
            break
        if e[0] == "validate_holder":
            vh = e[1]
        elif e[0] == "release":
            rels.append(e[1])
    for (sti, which, num, want, got) in tr.point_fails[:1]:
        out.append({"why": "the %s counterparty commitment point held for commitment %d (point id %s) is not the one first announced for that number (point id %s): secrets will be checked against a substituted point (step %d)"
                           % (which, num, got, want, sti)})
    for (sti, k, h) in tr.release_fails[:1]:
        out.append({"why": "the revocation secret of commitment %d was released while the newer holder commitment is not fully signed (number %d, commitment signature valid: %s, %d HTLC signatures of which %d valid for %d non-dust HTLCs) (step %d)"
                           % (k, h["num"], h["csig"], h["nsig"], h["nvalid"], h["nnd"], sti)})
    # a number may be signed again only as a retransmission of the SAME commitment transaction
    seen = {}
    unrec_numbers = set()
    for (num, txid, sti, unrec) in tr.sc_signed:
        if unrec:
            unrec_numbers.add(num)
        if num in seen and seen[num][0] != txid and txid and seen[num][0]:
            known = num in unrec_numbers
            out.append({"why": "a second, different counterparty commitment transaction was signed for number %d (step %d: %s, earlier at step %d: %s) while it and its predecessor are unrevoked: a new commitment signed with more than one earlier one unrevoked"
                               % (num, sti, txid, seen[num][1], seen[num][0]),
                        "key_override": KNOWN_F1 if known else None})
        if num not in seen or not seen[num][0]:
            seen[num] = (txid, sti)
    for (sti, num, uid, act, t) in tr.early_release[:1]:
        out.append({"why": "the revocation secret of commitment %d was released while the monitor update carrying its successor (update_id %d) is still being persisted: the state is revoked before the newer one is durably held (step %d, %s%s)"
                           % (num, uid, sti, act, "/" + str(t) if t else "")})
    for (sti, num, kind) in tr.unsolicited[:1]:
        out.append({"why": "a revoke_and_ack was accepted and its secret stored for counterparty commitment %d although no newer commitment (%d) was ever built and handed to the monitor: the counterparty commitment number advanced without an update (step %d, delivered message: %s)"
                           % (num, num - 1, sti, kind or "as sent")})
    for (sti, num, act, t, aw, mpc, corrupt) in tr.unrecorded_signs[:1]:
        on_reest = act == "deliver" and t == "reest" and not aw
        after_early = any(k == "raa_early" for (_, _, k) in tr.early_accepted)
        out.append({"why": "commitment_signed for counterparty commitment %d was signed although that commitment was never handed to the monitor (step %d, %s%s; awaiting_remote_revoke before: %s, commitment_signed pending a monitor update before: %s)"
                           % (num, sti, act, "/" + str(t) if t else "", aw, mpc),
                    "key_override": KNOWN_F1 if on_reest else (KNOWN_F2 if after_early else None)})
    for st, txid in tr.bcast_unsigned:
        out.append({"why": "a transaction spending the funding output was broadcast that was not signed through sign_holder_commitment (step %d, txid %s)" % (st, txid)})
    return out


def revoke_corr(ctx, model_ok, release=False):
    quick = ctx.tier == "quick"
    n_scen, max_steps = (200, 140) if quick else ((300, 160) if release else (800, 200))
    pre = "release_" if release else ""
    seed = ctx.rng.fork("revoke-release" if release else "revoke").next() & ((1 << 62) - 1)
    batches = 8 if quick else 16
    per = (n_scen + batches - 1) // batches
    import subprocess
    procs = []
    flagsets = ["all", "adv,async", "reload,close", "none", "all", "async,reload", "adv,close", "all"]
    for b in range(batches):
        cmd = [ctx.bin_path("h_revoke", release), "run", str(seed + b * 1000003), str(per), str(max_steps), flagsets[b % len(flagsets)]]
        procs.append((cmd, subprocess.Popen(["timeout", "1500"] + cmd, stdout=subprocess.PIPE, stderr=subprocess.DEVNULL, universal_newlines=True, cwd=ctx.tmp)))
    recs = []
    import time
    t0 = time.time()
    for cmd, p in procs:
        out, _ = p.communicate()
        got = 0
        for l in out.split("\n"):
            if l.startswith("R "):
                try:
                    recs.append(json.loads(l[2:]))
                    got += 1
                except ValueError:
                    ctx.violation("h_revoke printed an unparsable record", {"broken": "correspondence:h_revoke", "cmd": cmd, "line": l[:300]}, False)
                    return None
        if p.returncode != 0 or got == 0:
            ctx.violation("harness h_revoke crashed or produced nothing", {"broken": "correspondence:h_revoke", "cmd": cmd, "rc": p.returncode}, False)
            return None
    ctx.timed("harness_run_s", time.time() - t0)
    res = {"disagreements": [], "judge_fails": []}
    traces = []
    act_hist, ev_hist, corrupt_hist = {}, {}, {}
    n_steps = 0
    panics = []
    n_fallen_behind = [0]
    for rec in recs:
        rp = {"seed": rec["seed"], "k": rec["k"], "max_steps": rec["max_steps"], "flags": rec["flags"]}
        early = any((st.get("args") or {}).get("corrupt") == "raa_early" for st in rec["steps"])
        # C05-F2: an early revoke_and_ack accepted while our commitment_signed still waits for its monitor update;
        # when the update completes the node signs the number after the one it built (TestChannelSigner: "N-1 doesn't come after N+1")
        early_unsigned = None
        pv = [rec["init"][0]["view"], rec["init"][1]["view"]]
        for st in rec["steps"]:
            a = st.get("args") or {}
            if st["act"] == "deliver" and a.get("corrupt") == "raa_early" and st.get("obs") and pv[st["node"]]:
                v0, v1 = pv[st["node"]], st["obs"][st["node"]]["view"]
                if v0["aw"] and v0["mon"] and v0["mpc"] and v1 is not None and v1["cn"] == v0["cn"] - 1 and v1["mpc"]:
                    early_unsigned = (st["i"], st["node"], v0["cn"])
            if st.get("obs"):
                pv = [o["view"] for o in st["obs"]]
        m2 = __import__("re").search(r"(\d+) doesn't come after (\d+)", str(rec.get("panic") or ""))
        if rec.get("panic") and early_unsigned and m2 and int(m2.group(2)) - int(m2.group(1)) == 2 and int(m2.group(1)) == early_unsigned[2] - 1:
            panics.append({"why": "after a revoke_and_ack that arrived before our commitment_signed for counterparty commitment %d was signed (its monitor update in flight, step %d) the node signs commitment %d: the signer is asked to skip a commitment number (%s)"
                                  % (early_unsigned[2], early_unsigned[0], early_unsigned[2] - 1, m2.group(0)),
                           "replay": rp, "key": KNOWN_F2, "node": early_unsigned[1]})
        elif rec.get("panic") and early and ("We have fallen behind" in str(rec["panic"])
                                             or "can only revoke the current or next unrevoked commitment" in str(rec["panic"])):
            # the harness revealed the current secret of a node from its raw key material (raa_early, accepted by the
            # other side because a revocation WAS awaited) although that node had not released it: the world then
            # runs ahead of that node. It later sees proof of a secret it never released and panics on purpose
            # (data-loss protection), or is sent a second commitment_signed before its own revoke_and_ack went out
            # and the test signer refuses to release two secrets at once. Artefacts of the injection, counted.
            n_fallen_behind[0] += 1
        elif rec.get("panic"):
            panics.append({"why": "panic in the node or in the test signer's own policy assertions: " + str(rec["panic"])[:300], "replay": rp,
                           "key": "panic:" + str(rec["panic"])[:80], "last_steps": [{"act": s["act"], "node": s.get("node"), "args": s.get("args")} for s in rec["steps"][-6:]]})
        trs = [NodeTrace(n, rec["init"][n]) for n in (0, 1)]
        for st in rec["steps"]:
            if st.get("obs") is None:      # the step panicked; rec["panic"] carries the message
                continue
            n_steps += 1
            act_hist[st["act"]] = act_hist.get(st["act"], 0) + 1
            c = (st.get("args") or {}).get("corrupt")
            if c:
                corrupt_hist[c] = corrupt_hist.get(c, 0) + 1
            a = st.get("args") or {}
            if st["act"] == "deliver" and a.get("corrupt") in ("raa_early", "raa_extra") and trs[st["node"]].view is not None:
                # the secret the harness took from the sender's key material IS that node's secret for this number
                trs[1 - st["node"]].released.setdefault(trs[st["node"]].view["cn"] + 1, a.get("secret"))
            for n in (0, 1):
                trs[n].add_step(st, st["obs"][n])
                for l in st["obs"][n]["log"]:
                    ev_hist[l[0]] = ev_hist.get(l[0], 0) + 1
        for tr in trs:
            traces.append((rp, rec, tr))
    # ---- judge on the implementation
    for rp, rec, tr in traces:
        for f in judge_node(tr):
            f["replay"] = rp
            f["node"] = tr.n
            f["key"] = f.pop("key_override", None) or f["why"].split(":")[0][:60]
            res["judge_fails"].append(f)
    res["judge_fails"] += panics
    # ---- model
    distinct = set()
    if model_ok:
        exprs = []
        for rp, rec, tr in traces:
            exprs.append(tr.coq_expr())
            exprs.append(tr.coq_accept_expr())
        vals = ctx.coq_eval("corr_revoke" + ("_rel" if release else ""), REV_IMPORTS, exprs, prelude=REV_PRELUDE, shards=min(16, max(1, len(exprs) // 8)), timeout=1200)
        for ti, (rp, rec, tr) in enumerate(traces):
            model = parse_nested(vals[2 * ti])
            acc = vals[2 * ti + 1].strip()
            if acc != "1" and not any(f.get("replay") == rp and f.get("node") == tr.n for f in res["judge_fails"]):
                res["judge_fails"].append({"why": "the Coq policy checker chk_all rejects the node's signer log", "replay": rp, "node": tr.n, "key": "chk_all"})
            pos = len(tr.prelude)
            cur = (model[pos - 1][1] if pos else None)
            if cur is None:
                cur = [INITIAL - 1, INITIAL - 1, 0, 0, 0, 0, 0, 0, 0, 0, 0, 0, int(tr.batch), -1, tr.p0, 0, 0, -1]
            bad = None
            for g in tr.groups:
                evs = []
                before = cur
                for _ in g["ops"]:
                    e, s = model[pos]
                    pos += 1
                    evs += [x for x in e if x[0] <= 5]
                    distinct.add((tuple(cur[:13]), _.split(" ")[0], tuple(_.split(" ")[3:])) if (e or s != cur) else None)
                    cur = s
                if evs != g["impl_events"]:
                    bad = {"what": "signer calls differ", "model": evs, "impl": g["impl_events"]}
                elif g["impl_view"] is None:
                    if cur[8] != 1:
                        bad = {"what": "channel closed in the implementation, open in the model", "model_state": cur}
                elif cur[8] == 1:
                    bad = {"what": "channel closed in the model, open in the implementation", "impl_view": g["impl_view"]}
                elif not same_view(cur, g["impl_view"]):
                    bad = {"what": "numbers/flags/points differ [holder_next, cp_next, awaiting_rr, disconnected, mon_in_progress, mp_raa, mp_cs, raa_first, (closed), chan_ready, our_ready, their_ready, wfb, cur_point, next_point, stfu_sent, quiescent, (mon_signed)]",
                           "model": cur, "impl": g["impl_view"]}
                if bad:
                    bad.update({"topic": "revoke-trace", "replay": rp, "node": tr.n, "step": g["step"], "act": g["act"], "acting_node": g["node"], "args": g["args"],
                                "ops": g["ops"], "model_state_before": before, "impl_view_before": g["prev_view"]})
                    res["disagreements"].append(bad)
                    break
            # channel_reestablish contents
            if not bad:
                for (sti, nl, nr, pv) in tr.reest_sent:
                    if pv is not None and (nl != INITIAL - pv["hn"] or nr != INITIAL - pv["cn"] - 1):
                        res["disagreements"].append({"topic": "reestablish-message", "replay": rp, "node": tr.n, "step": sti, "sent": [nl, nr],
                                                     "expected": [INITIAL - pv["hn"], INITIAL - pv["cn"] - 1]})
                        break
        distinct.discard(None)
    rounds = sum(1 for rp, rec, tr in traces for e in tr.events if e[0] == "store")
    ctx.coverage[pre + "revoke_scenarios"] = len(recs)
    ctx.coverage[pre + "revoke_steps"] = n_steps
    ctx.coverage[pre + "revoke_action_histogram"] = act_hist
    ctx.coverage[pre + "revoke_signer_call_histogram"] = ev_hist
    ctx.coverage[pre + "revoke_corruption_histogram"] = corrupt_hist
    ctx.coverage[pre + "revoke_completed_revocations"] = rounds
    ctx.coverage[pre + "revoke_model_ops"] = sum(len(g["ops"]) for _, _, tr in traces for g in tr.groups)
    ctx.coverage[pre + "revoke_distinct_nontrivial"] = len(distinct)
    inj = {}
    for _, _, tr in traces:
        for c, lab in tr.inject_states:
            inj["%s@%s" % (c, lab)] = inj.get("%s@%s" % (c, lab), 0) + 1
    foc = {}
    for rec in recs:
        if rec.get("focus"):
            foc[rec["focus"]] = foc.get(rec["focus"], 0) + 1
    ctx.coverage[pre + "revoke_focused_scenarios(state:kind)"] = foc
    ctx.coverage[pre + "revoke_injected_messages_by_receiver_state"] = inj
    ctx.coverage[pre + "revoke_peer_data_loss_panics_after_accepted_early_raa"] = n_fallen_behind[0]
    ctx.coverage[pre + "revoke_deliveries_while_manager_held_back"] = sum(tr.held_deliveries for _, _, tr in traces)
    ctx.coverage[pre + "revoke_monitor_api_broadcasts_on_live_channel"] = act_hist.get("mon_broadcast", 0)
    ctx.coverage[pre + "revoke_scenarios_closed"] = sum(1 for rec in recs if any(o["view"] is None for s in rec["steps"][-1:] for o in (s.get("obs") or [])))
    if traces:
        rp, rec, tr = traces[0]
        ctx.samples.append({"revoke_scenario": rp, "node": tr.n, "first_ops": [o for g in tr.groups for o in g["ops"]][:12],
                            "first_events": [list(e) for e in tr.events[:12]]})
    return res
