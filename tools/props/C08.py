"""C08 — HTLC deadlines. Translator-tied constants + CLTV predicates, timeline theorems,
functional correspondence of each predicate through the `_verif_hooks` feature, and an end-to-end
deadline sweep on real ChannelManagers (h_deadline)."""
import json
import os
import re

from vlib import core

BINS = [b for b in ["h_cltv", "h_deadline"] if os.path.exists(os.path.join(core.HARNESS, "src", "bin", b + ".rs"))]
LEVEL = "proof"
MANIFEST = {
    "category": "proof",
    "text": "Coq theorems over constants/predicates regenerated from the Rust source each run (all heights, expiries, deltas, confirmation delays up to the stated bound), plus functional correspondence of every predicate against the real functions and an end-to-end deadline sweep on real nodes.",
    "note": "Trusted: Coq kernel, rs2v extraction, hooks; hypothesis: transactions confirm within MAX_BLOCKS_FOR_CONF. Monitor/manager wiring of the predicates is validated end-to-end, not proved.",
    "technique": "machine-checked proof in Coq (lia over regenerated constants and predicates) + differential correspondence",
}
FEATURES = ["std", "_test_utils", "_verif_hooks"]

CONST_NAMES = ["COUNTERPARTY_CLAIMABLE_WITHIN_BLOCKS_PINNABLE", "MAX_BLOCKS_FOR_CONF", "CLTV_CLAIM_BUFFER",
               "LATENCY_GRACE_PERIOD_BLOCKS", "ANTI_REORG_DELAY", "HTLC_FAIL_BACK_BUFFER", "MIN_CLTV_EXPIRY_DELTA",
               "CLTV_FAR_FAR_AWAY", "MIN_FINAL_CLTV_EXPIRY_DELTA", "_ASSUMED_COUNTERPARTY_CLTV_CLAIM_BUFFER", "MPP_TIMEOUT_TICKS"]
CONST_ITEMS = [(None, n) for n in CONST_NAMES]


def generate(ctx):
    """Regenerate Gen/Consts.v and Gen/CltvChecks.v from /repo with rs2v. A refusal is recorded and
    treated as a broken obligation by run()."""
    from vlib import gen
    metas, errors = gen.regen(ctx, ["Consts", "CltvChecks"])
    if errors:
        raise RuntimeError("; ".join("%s: %s" % kv for kv in sorted(errors.items())))
    from props import _gen_cltv
    ctx.gen_meta = ctx.gen_meta + _gen_cltv.generate(ctx)
    return ctx.gen_meta


# ----------------------------------------------------------------- case generation
def fwd_cases(rng, tier):
    cases = []
    hs = [0, 1, 100, 800000, 2 ** 32 - 2100, 2 ** 32 - 2017, 2 ** 32 - 2016, 2 ** 32 - 40, 2 ** 32 - 39, 2 ** 32 - 4, 2 ** 32 - 1]
    offs = [0, 1, 3, 4, 38, 39, 40, 41, 42, 48, 87, 88, 2015, 2016, 2017, 3000]
    ds = [0, 1, 47, 48, 49, 144, 65535]
    for h in hs:
        for off in offs:
            inn = h + off
            if inn >= 2 ** 32:
                continue
            for d in ds:
                for e in (-1, 0, 1):
                    out = inn - d + e
                    if 0 <= out < 2 ** 32:
                        cases.append((h, out, inn, d))
                for o2 in (2, 3, 4, 5):
                    out = h + o2
                    if out < 2 ** 32:
                        cases.append((h, out, inn, d))
    n_rand = 2000 if tier == "quick" else 200000
    for _ in range(n_rand):
        h = rng.choice([rng.below(2 ** 32), rng.below(10 ** 6), 2 ** 32 - 1 - rng.below(3000)])
        inn = min(2 ** 32 - 1, h + rng.choice([rng.below(60), rng.below(2100), rng.below(5000)]))
        d = rng.choice([rng.below(200), rng.below(65536), 48])
        out = max(0, min(2 ** 32 - 1, inn - d + rng.range(-3, 3))) if rng.chance(1, 2) else min(2 ** 32 - 1, h + rng.below(60))
        cases.append((h, out, inn, d))
    return sorted(set(cases))


def mpp_cases(rng, tier):
    cases = []
    for cltv in list(range(0, 46)) + [100, 1000, 800000, 2 ** 32 - 1]:
        for e in range(-3, 4):
            h = cltv - 39 + e
            if 0 <= h < 2 ** 32:
                cases.append((cltv, h))
        cases.append((cltv, 0))
        cases.append((cltv, 2 ** 32 - 1))
    for _ in range(500 if tier == "quick" else 50000):
        cltv = rng.choice([rng.below(100), rng.below(2 ** 32)])
        cases.append((cltv, max(0, min(2 ** 32 - 1, cltv - 39 + rng.range(-50, 50)))))
    return sorted(set(cases))


def thr_cases(rng, tier):
    cases = []
    for h in [0, 1, 5, 6, 100, 800000, 2 ** 32 - 70000, 2 ** 32 - 6, 2 ** 32 - 5, 2 ** 32 - 1]:
        for kind in (0, 1, 2):
            for csv in (-1, 0, 1, 5, 6, 7, 144, 2016, 65535):
                if kind == 0 and csv != -1:
                    continue
                cases.append((h, kind, csv))
    return sorted(set(cases))


COQ_IMPORTS = ["LdkV.Prim.U64", "LdkV.Gen.Consts", "LdkV.Gen.CltvChecks", "LdkV.Model.CltvHand"]
PRELUDE = """
Open Scope Z_scope.
Definition thr (c : Z * Z * Z) : Z :=
  let '(h, kind, csv) := c in
  let k := if (kind =? 0) then OnchainEventKind_Other else OnchainEventKind_SpendConfirmation in
  let o := if (csv <? 0) then None else Some csv in
  (* -1 encodes a debug-build panic *)
  if confirmation_threshold_safe h k 0 o then confirmation_threshold h k 0 o else -1.
Open Scope string_scope.
Definition show_fwd (c : Z * Z * Z * Z) : string :=
  let '(h, o, i, d) := c in
  if check_incoming_htlc_cltv_safe h o i d then
    match check_incoming_htlc_cltv h o i d with ROk _ => "Ok" | RErr e => "Err " ++ e end
  else "PANIC".
Definition show_mpp (c : Z * Z) : string :=
  let '(cltv, h) := c in
  if check_onchain_timeout_safe cltv h then (if check_onchain_timeout cltv h then "true" else "false") else "PANIC".
"""


def chunks(xs, n):
    return [xs[i:i + n] for i in range(0, len(xs), n)]


def tup(c):
    return "(" + ", ".join(str(x) for x in c) + ")"


def parse_strs(v):
    return [s.replace('""', '"') for s in re.findall(r'"((?:[^"]|"")*)"', v)]


def parse_zs(v):
    return [int(x) for x in re.findall(r"-?\d+", v)]


def functional(ctx):
    """Model predicates vs. real functions, same inputs. Returns number of disagreements."""
    rng = ctx.rng.fork("functional")
    fwd = fwd_cases(rng, ctx.tier)
    mpp = mpp_cases(rng, ctx.tier)
    thr = thr_cases(rng, ctx.tier)
    inp = ["consts"] + ["fwd %d %d %d %d" % c for c in fwd] + ["mpp %d %d" % c for c in mpp] + ["thr %d %d %d" % c for c in thr]
    rc, lines = ctx.run_bin("h_cltv", "\n".join(inp) + "\n")
    lines = [l for l in lines if l != ""]
    if rc != 0 or len(lines) != len(inp):
        ctx.violation("harness h_cltv did not produce one result per case", {"broken": "correspondence:h_cltv", "rc": rc, "n_out": len(lines), "n_in": len(inp)}, False)
        return None
    impl_consts = dict((kv.split("=")[0], int(kv.split("=")[1])) for kv in lines[0].split())
    impl_fwd = lines[1:1 + len(fwd)]
    impl_mpp = lines[1 + len(fwd):1 + len(fwd) + len(mpp)]
    impl_thr = lines[1 + len(fwd) + len(mpp):]
    # model side
    exprs = []
    exprs.append("[" + "; ".join(n for _, n in CONST_ITEMS) + "]%Z")
    B = 400
    fch, mch, tch = chunks(fwd, B), chunks(mpp, B), chunks(thr, B)
    for ch in fch:
        exprs.append("map show_fwd [" + "; ".join(tup(c) for c in ch) + "]")
    for ch in mch:
        exprs.append("map show_mpp [" + "; ".join(tup(c) for c in ch) + "]")
    for ch in tch:
        exprs.append("map thr [" + "; ".join(tup(c) for c in ch) + "]")
    vals = ctx.coq_eval("corr_cltv", COQ_IMPORTS, exprs, prelude=PRELUDE, shards=min(16, len(exprs)))
    model_consts = dict(zip([n for _, n in CONST_ITEMS], parse_zs(vals[0])))
    model_fwd = [s for v in vals[1:1 + len(fch)] for s in parse_strs(v)]
    model_mpp = [s for v in vals[1 + len(fch):1 + len(fch) + len(mch)] for s in parse_strs(v)]
    model_thr = [z for v in vals[1 + len(fch) + len(mch):] for z in parse_zs(v)]
    dis = []
    for n, v in model_consts.items():
        if n.startswith("_"):
            continue
        if impl_consts.get(n) != v:
            dis.append({"topic": "const", "name": n, "model": v, "impl": impl_consts.get(n)})
    for c, a, b in zip(fwd, model_fwd, impl_fwd):
        if a != b:
            dis.append({"topic": "check_incoming_htlc_cltv", "input": {"cur_height": c[0], "outgoing_cltv": c[1], "cltv_expiry": c[2], "delta": c[3]}, "model": a, "impl": b})
    for c, a, b in zip(mpp, model_mpp, impl_mpp):
        if a != b:
            dis.append({"topic": "check_onchain_timeout", "input": {"cltv_expiry": c[0], "height": c[1]}, "model": a, "impl": b})
    for c, a, b in zip(thr, model_thr, impl_thr):
        bb = -1 if b == "PANIC" else int(b)
        if a != bb:
            dis.append({"topic": "confirmation_threshold", "input": {"height": c[0], "kind": c[1], "csv": c[2]}, "model": a, "impl": b})
    ctx.coverage["functional_cases"] = {"check_incoming_htlc_cltv": len(fwd), "check_onchain_timeout": len(mpp), "confirmation_threshold": len(thr)}
    hist = {}
    for b in impl_fwd:
        hist[b] = hist.get(b, 0) + 1
    ctx.coverage["fwd_result_histogram"] = hist
    ctx.samples.append({"fwd_case": list(fwd[len(fwd) // 2]), "impl": impl_fwd[len(fwd) // 2], "model": model_fwd[len(fwd) // 2]})
    ctx.func = {"fwd": list(zip(fwd, impl_fwd)), "mpp": list(zip(mpp, impl_mpp)), "thr": list(zip(thr, impl_thr)), "consts": impl_consts}
    return dis


def judge_impl(ctx):
    """Executable form of the C08 statement evaluated on the IMPLEMENTATION's outputs only (no model):
    used to decide whether a broken proof/correspondence comes with a concrete failing input."""
    f = ctx.func
    K = f["consts"]
    LGP, MBC, ARD, CCB, HFB = (K["LATENCY_GRACE_PERIOD_BLOCKS"], K["MAX_BLOCKS_FOR_CONF"], K["ANTI_REORG_DELAY"],
                               K["CLTV_CLAIM_BUFFER"], K["HTLC_FAIL_BACK_BUFFER"])
    MIN_D = K["MIN_CLTV_EXPIRY_DELTA"]
    fails = []
    # static relations the races depend on
    if not (MIN_D >= 2 * LGP + 2 * MBC + ARD):
        # worst-case dead-downstream timeline with the implementation's own constants
        out = 1000
        inn = out + MIN_D
        F = out + LGP + 2 * MBC + ARD - 1
        if F > inn - LGP:
            fails.append({"kind": "forward race lost", "timeline": {"out_cltv": out, "in_cltv": inn, "onchain_at": out + LGP, "commitment_confirmed": out + LGP + MBC, "timeout_confirmed": out + LGP + 2 * MBC, "failback_at": F, "upstream_peer_deadline": inn - LGP}, "constants": K})
    if CCB < 2 * MBC:
        fails.append({"kind": "claim race lost: CLTV_CLAIM_BUFFER < 2*MAX_BLOCKS_FOR_CONF", "constants": K})
    if HFB < CCB + LGP:
        fails.append({"kind": "fail-back buffer shorter than claim buffer + grace", "constants": K})
    for (h, out, inn, d), r in f["fwd"]:
        if r != "Ok":
            continue
        bad = []
        if not inn >= out + d:
            bad.append("in < out + delta")
        if not inn > h + HFB:
            bad.append("inbound expires within fail-back buffer")
        if not out > h + LGP:
            bad.append("outbound already within grace period")
        if d >= MIN_D and out + LGP + 2 * MBC + ARD - 1 > inn - LGP:
            bad.append("accepted forward cannot win the dead-downstream race")
        if bad:
            fails.append({"kind": "check_incoming_htlc_cltv accepted an unsafe forward", "input": {"cur_height": h, "outgoing_cltv": out, "cltv_expiry": inn, "delta": d}, "why": bad})
            break
    # conversely: nothing safe may be refused for a wrong reason (soundness of the reject side is part of the contract tested by the model diff)
    for (cltv, h), r in f["mpp"]:
        if r == "PANIC":
            continue
        want = h >= cltv - HFB
        if (r == "true") != want:
            fails.append({"kind": "check_onchain_timeout disagrees with the advertised claim deadline", "input": {"cltv_expiry": cltv, "height": h}, "impl": r})
            break
    for (h, kind, csv), r in f["thr"]:
        if r == "PANIC":
            continue
        if int(r) < h + ARD - 1 or (kind != 0 and csv >= 0 and int(r) < h + csv - 1):
            fails.append({"kind": "confirmation_threshold below anti-reorg depth / CSV", "input": {"height": h, "kind": kind, "csv": csv}, "impl": r})
            break
    return [x for x in fails if x]


def e2e(ctx):
    """End-to-end deadline sweep on real nodes (h_deadline). Each output line is a JSON object with
    the observed heights; the judge below is the property's statement on those observations."""
    path = ctx.bin_path("h_deadline")
    if not os.path.exists(path):
        return None
    mode = "quick" if ctx.tier == "quick" else "thorough"
    rc, lines = ctx.run_bin("h_deadline", "", args=[mode, str(ctx.seed)], timeout=1500)
    recs = []
    for l in lines:
        l = l.strip()
        if l.startswith("{"):
            try:
                recs.append(json.loads(l))
            except ValueError:
                pass
    if rc != 0 or not recs:
        ctx.violation("end-to-end deadline sweep crashed or produced nothing", {"broken": "e2e:h_deadline", "rc": rc, "tail": lines[-15:]}, False)
        return []
    fails = [r for r in recs if r.get("ok") is False]
    ctx.coverage["e2e_scenarios"] = len(recs)
    kinds = {}
    for r in recs:
        kinds[r.get("scenario", "?")] = kinds.get(r.get("scenario", "?"), 0) + 1
    ctx.coverage["e2e_scenario_histogram"] = kinds
    if recs:
        ctx.samples.append(recs[0])
        ctx.samples.append(recs[-1])
    return fails


def run(ctx):
    ok_build, out = ctx.build_harness(BINS)
    if not ok_build:
        ctx.violation("harness does not build against the current tree", {"broken": "harness-build", "log_tail": out[-3000:]}, False)
        ctx.write_evidence(LEVEL)
        return
    gen_err = None
    try:
        generate(ctx)
    except Exception as ex:  # translator refused: obligation broken
        gen_err = str(ex)
        ctx.log("generation refused:", gen_err)
    # model + proofs
    proved = False
    if gen_err is None:
        okm, outm = ctx.coq_make(["Gen/Consts.vo", "Gen/CltvChecks.vo", "Model/CltvHand.vo"])
        proved = ctx.prove("C08")
        if proved and ctx.tier == "thorough":
            proved = ctx.coqchk("C08")
    else:
        ctx.obligations.append(("rs2v-generation", False, gen_err))
        okm = False
    ctx.trusted_base += [
        "Coq 8.16.1 kernel + vm_compute (no native_compute)",
        "tools/rs2v (constant/predicate extraction from the Rust source, regenerated every run)",
        "rs2v rewrites for confirmation_threshold / should_broadcast (listed in Gen/CltvChecks.v comments); generated code additionally validated by functional correspondence through lightning feature _verif_hooks",
        "hypothesis of the timeline theorems: a broadcast transaction confirms within MAX_BLOCKS_FOR_CONF blocks (library's stated bound)",
        "harness crate /verif/harness (h_cltv, h_deadline) and LDK functional_test_utils",
    ]
    ctx.assumptions += ["blocks/transactions confirm within MAX_BLOCKS_FOR_CONF", "hooks expose the same functions the library calls"]
    dis = None
    if okm:
        dis = functional(ctx)
    else:
        # model does not build: still run the implementation so that the judge can look for a failing input
        rng = ctx.rng.fork("functional")
        fwd, mpp, thr = fwd_cases(rng, ctx.tier), mpp_cases(rng, ctx.tier), thr_cases(rng, ctx.tier)
        inp = ["consts"] + ["fwd %d %d %d %d" % c for c in fwd] + ["mpp %d %d" % c for c in mpp] + ["thr %d %d %d" % c for c in thr]
        rc, lines = ctx.run_bin("h_cltv", "\n".join(inp) + "\n")
        lines = [l for l in lines if l != ""]
        if rc == 0 and len(lines) == len(inp):
            ctx.func = {"consts": dict((kv.split("=")[0], int(kv.split("=")[1])) for kv in lines[0].split()),
                        "fwd": list(zip(fwd, lines[1:1 + len(fwd)])), "mpp": list(zip(mpp, lines[1 + len(fwd):1 + len(fwd) + len(mpp)])),
                        "thr": list(zip(thr, lines[1 + len(fwd) + len(mpp):]))}
    e2e_fails = e2e(ctx)
    nfunc = sum(ctx.coverage.get("functional_cases", {}).values()) if "functional_cases" in ctx.coverage else 0
    ctx.coverage["evaluations"] = nfunc + ctx.coverage.get("e2e_scenarios", 0)
    ctx.coverage["distinct_nontrivial"] = nfunc + ctx.coverage.get("e2e_scenarios", 0)
    ctx.coverage["rule"] = ("functional: boundary cross product (height x expiry offset x delta) plus seeded random cases, all distinct by construction (set); "
                            "e2e: one real-node scenario per (kind, offset) pair; non-trivial = reaches the predicate under test")
    ctx.coverage["translated_items"] = getattr(ctx, "gen_meta", [])
    # ---- decide
    judged = judge_impl(ctx) if hasattr(ctx, "func") else []
    broken = []
    if not proved:
        broken.append({"obligation": "Coq proof of Props/C08.v", "detail": getattr(ctx, "proof_failure", {"where": gen_err})})
    if dis:
        broken.append({"correspondence": "h_cltv (real functions) vs Gen/CltvChecks.v (rs2v output)", "first_disagreements": dis[:5], "n": len(dis)})
    if e2e_fails:
        for f in e2e_fails[:3]:
            ctx.violation("end-to-end deadline scenario violates C08: " + f.get("why", ""), {"broken": "e2e judge", "scenario": f, "replay_cmd": "%s replay '%s'" % (ctx.bin_path("h_deadline"), json.dumps(f.get("params", {})))}, True,
                          key="e2e:" + f.get("scenario", "?") + ":" + f.get("why", ""))
    if broken:
        if judged:
            ctx.violation("C08 fails on the implementation: " + judged[0]["kind"], {"broken": broken, "failing_input": judged[0], "replay_cmd": "printf '<case line>' | %s" % ctx.bin_path("h_cltv")}, True)
        elif not e2e_fails:
            ctx.violation("C08 no longer shown: " + ("proof" if not proved else "correspondence") + " broken", {"broken": broken, "search": "judge on %d implementation outputs + e2e sweep found no failing input" % nfunc}, False)
    ctx.write_evidence(LEVEL)


def replay(ctx, rep):
    print(json.dumps(rep, indent=1))
    return 0
