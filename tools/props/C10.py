"""C10 — restarting from persisted state is safe at every crash point.

Proved (Coq, PARTIAL): the reload decision of from_channel_manager_data for one channel
(Model/Restart.v: four-counter staleness test => force-close at monitor id + 1; replay of exactly the
in-flight updates the monitor lacks, in order, idempotent under a crash during recovery) and its
composition with the C09 pipeline model (a snapshot taken in ANY reachable pipeline state combined with
ANY monitor containing every update reported complete never yields DangerousValue).

Validated on real nodes (reported separately in the evidence): crash-point enumeration. For every
generated scenario, every step boundary, a set of manager lags and monitor choices (last completed /
every in-flight write landed / seeded mix), optional pending-events snapshot and optional second crash
during recovery, the crash node is rebuilt with reload_node! from the recorded bytes and everything is run
to quiescence, including an on-chain phase when a channel had to be closed. Judges: read succeeds;
OutdatedChannelManager exactly where manager id < monitor id, with ChannelForceClosed numbered monitor id
+ 1 and never resumed; in-flight updates replayed first, ids consecutive from the monitor's id; payments
reach exactly one truthful terminal event; events pending in the snapshot re-delivered; nothing stuck.
The reload decision model must predict every observed outcome (correspondence).
"""
import json
import os
import re
import time

from vlib import core
from props import _c10_trials as T

BINS = ["h_restart"]
LEVEL = "proof"
HAVE_COQ = os.path.exists(os.path.join(core.COQ, "Props", "C10.v"))
MANIFEST = {
    "claim": HAVE_COQ,
    "category": "proof",
    "text": "PARTIAL. Coq theorems about the reload decision of from_channel_manager_data (stale on any of four counters <=> force-closed at monitor id+1, never resumed; replay = exactly the in-flight updates above the monitor id, in order; idempotent under re-crash; composed with the C09 pipeline model: never DangerousValue for any reachable snapshot and any admissible monitor). Everything else (serialization, HTLC/payment reconstruction, claim replay, event re-delivery, on-chain recovery) is validated by crash-point enumeration on real nodes with implementation-side judges; the decision model must predict every observed reload outcome.",
    "note": "The enumeration is validation, reported separately from the proofs (coverage.enumeration). Not proved: C10_no_revoked_use / claims_survive / payments_survive of DESIGN.md (validated through TestChannelSigner's revocation enforcement, payment-truthfulness and stuck-HTLC judges). Balances are not audited on chain. reconstruct_manager_from_monitors (cfg(test) switch) not explored.",
    "technique": "machine-checked proof in Coq of the reload decision + crash-point enumeration on real nodes with implementation-side judges and model correspondence",
}
COQ_IMPORTS = ["LdkV.Prim.U64", "LdkV.Model.Restart"]
PRELUDE = """
Definition enc (o : outcome) : Z * Z * list Z :=
  match o with
  | Closed i => (0, i, [])
  | Resumed r e b => (1, match e with Some h => h | None => -1 end, r)
  | Dangerous => (2, 0, [])
  end.
"""


# Anchored expressions (DESIGN.md §3.1, "anchored-expression mode"): Model/Restart.v and Model/Recovery.v transliterate
# these source expressions of the reload; each must still be present verbatim (whitespace-insensitive). They are re-read
# from the tree under test on every run; a miss is a broken obligation (§9 search for a failing input, then VIOLATION
# with or without one). A tripwire for edits of exactly these lines, not evidence of their correctness.
ANCHORS = [
    ("replay-iff-id-above-monitor", "lightning/src/ln/channelmanager.rs", 1,
     r"let replay = update\.update_id > \$monitor\.get_latest_update_id\(\);"),
    ("completed-iff-id-at-most-monitor", "lightning/src/ln/channelmanager.rs", 1,
     r"update\.update_id <= \$monitor\.get_latest_update_id\(\) \}\) \.count\(\);"),
    ("all-completed-is-count-equality", "lightning/src/ln/channelmanager.rs", 1,
     r"let all_updates_completed = num_updates_completed == \$chan_in_flight_upds\.len\(\);"),
    ("stale-four-counters", "lightning/src/ln/channelmanager.rs", 1,
     r"if channel\.get_cur_holder_commitment_transaction_number\(\) > monitor\.get_cur_holder_commitment_number\(\) \|\| "
     r"channel\.get_revoked_counterparty_commitment_transaction_number\(\) > monitor\.get_min_seen_secret\(\) \|\| "
     r"channel\.get_cur_counterparty_commitment_transaction_number\(\) > monitor\.get_cur_counterparty_commitment_number\(\) \|\| "
     r"channel\.context\.get_latest_monitor_update_id\(\) < monitor\.get_latest_update_id\(\) \{"),
    ("stale-close-id-is-monitor-plus-one", "lightning/src/ln/channelmanager.rs", 1,
     r"let latest_update_id = monitor\.get_latest_update_id\(\)\.saturating_add\(1\); update\.update_id = latest_update_id;"),
    ("closed-ids-entry-is-max", "lightning/src/ln/channelmanager.rs", 2,
     r"\.and_modify\(\|v\| \*v = cmp::max\(latest_update_id, \*v\)\) \.or_insert\(latest_update_id\);"),
    ("closed-monitor-threshold", "lightning/src/ln/channelmanager.rs", 1,
     r"if !monitor\.no_further_updates_allowed\(\) \|\| monitor\.get_latest_update_id\(\) > 1 \{ "
     r"should_queue_fc_update = !monitor\.no_further_updates_allowed\(\); let mut latest_update_id = monitor\.get_latest_update_id\(\);"),
    ("closed-monitor-close-id", "lightning/src/ln/channelmanager.rs", 1,
     r"update_id: monitor\.get_latest_update_id\(\)\.saturating_add\(1\), updates: vec!\[ChannelMonitorUpdateStep::ChannelForceClosed \{ should_broadcast: true, \}\],"),
    ("dangerous-iff-unblocked-above-max", "lightning/src/ln/channelmanager.rs", 1,
     r"if funded_chan\.get_latest_unblocked_monitor_update_id\(\) > max_in_flight_update_id \{"),
    ("attempt-unblock-iff-blocked-left", "lightning/src/ln/channelmanager.rs", 1,
     r"if funded_chan\.blocked_monitor_updates_pending\(\) > 0 \{ pending_background_events\.push\( BackgroundEvent::AttemptUnblockMonitorUpdates \{"),
    ("drop-blocked-through-monitor-id", "lightning/src/ln/channelmanager.rs", 1,
     r"channel\.on_startup_drop_completed_blocked_mon_updates_through\( &logger, monitor\.get_latest_update_id\(\), \);"),
    ("drop-blocked-iff-id-at-most", "lightning/src/ln/channel.rs", 1,
     r"self\.context\.blocked_monitor_updates\.retain\(\|update\| \{ if update\.update\.update_id <= loaded_mon_update_id \{"),
    ("unblocked-id-is-first-blocked-minus-one", "lightning/src/ln/channel.rs", 1,
     r"self\.blocked_monitor_updates\[0\]\.update\.update_id - 1"),
]


def check_anchors():
    bad = []
    cache = {}
    for (name, rel, count, pat) in ANCHORS:
        path = os.path.join(core.REPO, rel)
        if path not in cache:
            try:
                cache[path] = re.sub(r"\s+", " ", open(path).read())
            except OSError:
                cache[path] = ""
        n = len(re.findall(pat, cache[path]))
        if n != count:
            bad.append({"anchor": name, "file": rel, "expected_occurrences": count, "found": n, "pattern": pat})
    return bad


def plan(ctx):
    if ctx.tier == "quick":
        return 12, 8
    return 120, 14


def gen_trials(ctx, nsc, per, tag="sc"):
    rng = ctx.rng.fork(tag)
    lines, meta = [], []
    scen = []
    for i in range(nsc):
        r = rng.fork("s%d" % i)
        crash = r.choice([1, 1, 1, 0, 2, 3])
        # stratified: every family of scenarios is present even in the smallest run
        fam = T.FAMILIES[i % len(T.FAMILIES)] if i < 3 * len(T.FAMILIES) else None
        if fam == "collide":
            crash = 1
        mode, ops = T.gen_scenario(r, crash, fam)
        scen.append((r, crash, mode, ops))
    # probe run: at which steps does the crash node have user events pending?
    probes = T.run_harness(ctx.bin_path("h_restart"), [T.probe_line(m, o, c) for (_, c, m, o) in scen], os.path.join(ctx.tmp, "run"), tag + "_probe",
                           jobs=core.NPROC, timeout=600)
    for i, ((r, crash, mode, ops), pr) in enumerate(zip(scen, probes)):
        ev = set(pr.get("event_steps", [])) if isinstance(pr, dict) else set()
        tl = T.enumerate_trials(r, mode, ops, per, crash, ev)
        lines += tl
        meta += [{"scenario": i, "n_ops": len(ops)}] * len(tl)
    return lines, meta


def run_trials(ctx, lines, tag):
    t0 = time.time()
    out = []
    B = 6000
    for i in range(0, len(lines), B):
        out += T.run_harness(ctx.bin_path("h_restart"), lines[i:i + B], os.path.join(ctx.tmp, "run"), tag, jobs=core.NPROC, timeout=1700)
    ctx.timed("harness_run_s", time.time() - t0)
    return out


def model_correspondence(ctx, results):
    """The Coq reload decision must predict what the implementation did for every channel of every trial."""
    cases = []
    for ti, r in enumerate(results):
        if r.get("panic") or not r.get("read_ok"):
            continue
        after = dict((a["chan"], a) for a in r["after_first"])
        outdated = set(c for (n, c, why) in r["closed"] if n == r["crash"] and why == "OutdatedChannelManager")
        closed_live = set(d["chan"] for d in r.get("disk", []) if not d.get("open_at_crash", True))
        for s in r["snap"]:
            if s["mgr_latest"] < 0 or s["chan"] not in after:
                continue
            if s["chan"] in closed_live and s["mgr_latest"] >= s["mon"]:
                # force-closed by the live node after the snapshot: the close dropped blocked updates and reused their
                # ids, staleness is then decided by the commitment numbers, which the harness does not observe
                continue
            # (closed after the FIRST reload: a second crash on the same bytes may find further channels stale)
            cases.append((ti, s, after[s["chan"]], s["chan"] in outdated and not after[s["chan"]]["open"]))
    if not cases:
        return []
    exprs = []
    B = 300
    for i in range(0, len(cases), B):
        items = []
        for (_, s, _, _) in cases[i:i + B]:
            items.append("reload (mkCsnap %d %d 100 100 100 %s %s) (mkMsnap %d 100 100 100)" % (
                s["mgr_latest"], s["mgr_latest"] - len(s["mgr_blocked"]), core.zlist(s["mgr_inflight"]), core.zlist(s["mgr_blocked"]), s["mon"]))
        exprs.append("map enc [" + "; ".join(items) + "]")
    vals = ctx.coq_eval("corr_restart", COQ_IMPORTS, exprs, prelude=PRELUDE, shards=min(core.NPROC, len(exprs)))
    outs = []
    for v in vals:
        for m in re.finditer(r"\(\s*(-?\d+)\s*,\s*(-?\d+)\s*,\s*\[([^\]]*)\]\s*\)", v):
            outs.append((int(m.group(1)), int(m.group(2)), [int(x) for x in re.findall(r"-?\d+", m.group(3))]))
    dis = []
    if len(outs) != len(cases):
        return [{"error": "model produced %d answers for %d cases" % (len(outs), len(cases))}]
    for (ti, s, a, was_outdated), (tag, num, lst) in zip(cases, outs):
        ups = a.get("updates", [])
        ok = True
        if tag == 0:
            ok = was_outdated and (not a["open"]) and bool(ups) and ups[0][0] == num and ups[0][1] == ["ChannelForceClosed"]
        elif tag == 1:
            ok = (not was_outdated) and [u[0] for u in ups[:len(lst)]] == lst
        else:
            ok = False
        if not ok:
            dis.append({"trial": ti, "chan": s["chan"], "snapshot": s, "model": {"outcome": ["Closed", "Resumed", "Dangerous"][tag], "id_or_event": num, "replay": lst},
                        "impl": {"outdated_close": was_outdated, "open": a["open"], "updates_after_reload": ups}})
    ctx.coverage["model_cases_compared"] = len(cases)
    ctx.coverage["model_disagreements"] = len(dis)
    return dis


def shrink_trial(ctx, line, want, budget_s=60):
    """Remove scenario ops after the crash point, then ops before it (adjusting k), keeping the violation."""
    head, rest = line.split(" ; ", 1)
    ops = rest.split(" ; ")
    m = re.search(r"k=(\d+)", head)
    k = int(m.group(1))
    ops = ops[:k]
    t0 = time.time()

    def fails(cands):
        ls = [re.sub(r"k=\d+", "k=%d" % len(o), re.sub(r"lag=(\d+)", lambda mm: "lag=%d" % min(int(mm.group(1)), len(o)), head)) + " ; " + " ; ".join(o) for o in cands]
        rs = T.run_harness(ctx.bin_path("h_restart"), ls, os.path.join(ctx.tmp, "shrink"), "s", jobs=core.NPROC, timeout=120)
        return [any(v["judge"] == want and not (v.get("key") and ctx.known_match(v["key"])) for v in T.judge(r)[0]) for r in rs], ls

    cur = ops
    changed = True
    while changed and time.time() - t0 < budget_s and len(cur) > 1:
        changed = False
        cands = [cur[:i] + cur[i + 1:] for i in range(len(cur))]
        res, ls = fails(cands)
        for c, ok in zip(cands, res):
            if ok:
                cur = c
                changed = True
                break
    res, ls = fails([cur])
    return ls[0]


def run(ctx):
    ok_build, out = ctx.build_harness(BINS)
    if not ok_build:
        ctx.violation("harness does not build against the current tree", {"broken": "harness-build", "log_tail": out[-3000:]}, False)
        ctx.write_evidence(LEVEL)
        return
    ctx.trusted_base += [
        "Coq 8.16.1 kernel + vm_compute (no native_compute)",
        "Model/Restart.v (hand transliteration of the reload decision in from_channel_manager_data) and Model/MonUpd.v, tied to the code by correspondence only",
        "harness/src/bin/h_restart.rs, tools/props/_c10_trials.py (judges) and LDK's functional_test_utils (reload_node!, TestChainMonitor, TestChannelSigner revocation enforcement)",
        "lightning feature _verif_hooks: update_step_kinds, monupd_view (read-only)",
    ]
    ctx.assumptions += [
        "durable state = for each channel any persisted monitor write whose id is >= the last one reported complete (full-monitor writes), plus any earlier ChannelManager snapshot",
        "crash points are the boundaries between public API calls of the scenario",
        "an outbound payment whose send was never contained in the restored manager snapshot is not required to produce an event",
    ]
    proved = None
    model_ok = False
    if HAVE_COQ:
        model_ok, outm = ctx.coq_make(["Model/Restart.vo"])
        proved = ctx.prove("C10")
    # ---- anchored expressions the hand models transliterate (re-read from the tree under test)
    anchor_bad = check_anchors()
    for (name, rel, count, _) in ANCHORS:
        hit = [a for a in anchor_bad if a["anchor"] == name]
        ctx.obligations.append(("anchor:" + name, not hit, "expression present in %s" % rel if not hit else "expected %d occurrence(s), found %d" % (count, hit[0]["found"])))
    nsc, per = plan(ctx)
    lines, meta = gen_trials(ctx, nsc, per)
    results = run_trials(ctx, lines, "main")
    tot = {}
    failing = []
    known_hits = 0
    distinct = set()
    for i, (l, r) in enumerate(zip(lines, results)):
        v, st = T.judge(r)
        for k, x in st.items():
            tot[k] = tot.get(k, 0) + x
        if st["stale_channels"] or st["replayed_updates"] or st["inflight_at_crash"] or st["redelivery_checked"] or st["recrash"]:
            distinct.add(json.dumps([meta[i]["scenario"], r.get("k"), r.get("lag"), r.get("mon"), r.get("pre"), r.get("recrash"), r.get("disk")], sort_keys=True))
        if v:
            unknown = [x for x in v if not (x.get("key") and ctx.known_match(x["key"]))]
            for x in v:
                if x.get("key") and ctx.known_match(x["key"]):
                    known_hits += 1
                    ctx.violation(x["what"], {}, True, key=x["key"])
            if unknown:
                failing.append((i, unknown))
    ctx.coverage["evaluations"] = len(lines)
    ctx.coverage["distinct_nontrivial"] = len(distinct)
    ctx.coverage["rule"] = ("every step boundary of every generated scenario x manager lags {0,1,2,3,5,8,13,all} x monitor choice {last completed, all in-flight landed, seeded mix} "
                            "(+ pending-events snapshot, + second crash during recovery), sampled to a fixed number per crash point; non-trivial = a stale channel, a replayed in-flight "
                            "update, a write in flight at the crash, a re-delivered event or a second crash; distinct = different (scenario, k, lag, monitor choice, disk state)")
    ctx.coverage["enumeration"] = {"scenarios": nsc, "trials": len(lines), "stats": tot,
                                   "note": "validation on real nodes, not part of the Coq obligations"}
    ctx.coverage["traces_validated_against_impl"] = len(lines)
    ctx.coverage["trials_hitting_known_findings"] = known_hits
    good = [r for r in results if not r.get("panic")]
    if good:
        ctx.samples.append({"trial": lines[results.index(good[len(good) // 2])][:400], "result": T.summarize(good[len(good) // 2])})
    corr_dis = None
    if HAVE_COQ and model_ok:
        try:
            corr_dis = model_correspondence(ctx, results)
        except Exception as ex:
            corr_dis = [{"error": "model evaluation failed: %r" % (ex,)}]
    # ---- decide (DESIGN.md §9)
    reported = set()
    for (i, v) in failing:
        key = v[0]["judge"] + ":" + v[0]["what"][:40]
        if key in reported or len(reported) >= 3:
            continue
        reported.add(key)
        small = lines[i]
        try:
            small = shrink_trial(ctx, lines[i], v[0]["judge"], 60 if ctx.tier == "quick" else 240)
        except Exception as ex:
            ctx.log("shrink failed:", ex)
        rr = T.run_harness(ctx.bin_path("h_restart"), [small], os.path.join(ctx.tmp, "shrink"), "final", jobs=1)[0]
        vv = [x for x in T.judge(rr)[0] if not (x.get("key") and ctx.known_match(x["key"]))] or v
        ctx.violation("C10 violated on the implementation (%s): %s" % (vv[0]["judge"], vv[0]["what"]),
                      {"broken": "implementation-side judge (%s)" % vv[0]["judge"], "trial": small, "violations": vv[:5], "result": T.summarize(rr),
                       "replay_cmd": "printf '%%s\\n' '%s' > t.txt && %s t.txt out.jsonl && cat out.jsonl" % (small, ctx.bin_path("h_restart"))}, True)
    broken = []
    if HAVE_COQ and not proved:
        broken.append({"obligation": "Coq proof of Props/C10.v", "detail": getattr(ctx, "proof_failure", None)})
    if corr_dis:
        broken.append({"correspondence": "h_restart reload outcomes vs Model/Restart.v", "first_disagreements": corr_dis[:3], "n": len(corr_dis)})
    if anchor_bad:
        broken.append({"anchored_expressions_changed": anchor_bad})
    if broken and not failing:
        xl, xm = gen_trials(ctx, max(4, nsc // 2), per, "search")
        xr = run_trials(ctx, xl, "search")
        found = None
        for l, r in zip(xl, xr):
            v = [x for x in T.judge(r)[0] if not (x.get("key") and ctx.known_match(x["key"]))]
            if v:
                found = (l, r, v)
                break
        if found:
            ctx.violation("C10 violated on the implementation (%s): %s" % (found[2][0]["judge"], found[2][0]["what"]),
                          {"broken": broken, "trial": found[0], "violations": found[2][:5], "result": T.summarize(found[1])}, True)
        else:
            ctx.violation("C10 no longer shown: " + ("proof" if (HAVE_COQ and not proved) else ("model/implementation correspondence" if corr_dis else "a source expression the model transliterates changed")) + " broken",
                          {"broken": broken, "search": "implementation-side judges on %d + %d further trials found no failing input" % (len(lines), len(xl))}, False)
    ctx.write_evidence(LEVEL)


def replay(ctx, rep):
    trial = rep.get("trial")
    if not trial:
        print(json.dumps(rep, indent=1))
        return 0
    ctx.build_harness(BINS)
    r = T.run_harness(ctx.bin_path("h_restart"), [trial], os.path.join(ctx.tmp, "replay"), "replay", jobs=1)[0]
    v, _ = T.judge(r)
    print(json.dumps({"result": T.summarize(r), "violations": v}, indent=1))
    return 1 if v else 0
