"""C01: generation of coq/Gen/C01Closing.v — the closing-fee range arithmetic of
`FundedChannel::calculate_closing_fee_limits` and the clamps of `closing_signed`, extracted from
lightning/src/ln/channel.rs by rs2v's anchored-expression mode, plus the argument of the non-funder's
`propose_fee!(..)` (a macro argument, which rs2v's `if_cond` / `let_init` selectors cannot reach: a
small extractor for `cmp::min/max` over the local names does it; anything else is refused)."""
import hashlib
import json
import os
import re

from vlib import core

CFG = os.path.join(os.path.dirname(os.path.abspath(__file__)), "c01cfg", "C01Closing.json")
NAMES = {"max_fee_satoshis": "max_fee_satoshis", "our_max_fee": "our_max_fee", "our_min_fee": "our_min_fee",
         "min_fee_satoshis": "min_fee_satoshis", "msg.fee_satoshis": "msg_fee_satoshis"}


class Refused(Exception):
    pass


def _tr(e):
    e = e.strip()
    m = re.match(r"^cmp::(min|max)\((.*)\)$", e, re.S)
    if m:
        inner = m.group(2)
        depth, k = 0, None
        for i, c in enumerate(inner):
            if c == "(":
                depth += 1
            elif c == ")":
                depth -= 1
            elif c == "," and depth == 0:
                k = i
                break
        if k is None:
            raise Refused("cannot split the arguments of %r" % e)
        return "(Z.%s %s %s)" % (m.group(1), _tr(inner[:k]), _tr(inner[k + 1:]))
    if e in NAMES:
        return NAMES[e]
    if re.match(r"^\d[\d_]*$", e):
        return e.replace("_", "")
    raise Refused("unsupported expression in the non-funder's propose_fee!: %r" % e)


def generate(ctx=None):
    """Returns (meta, error). Writes coq/Gen/C01Closing.v (removes it when refused)."""
    from rs2v import rs2v as R
    out = os.path.join(core.COQ, "Gen", "C01Closing.v")
    try:
        cfg = json.load(open(CFG))
        text, meta = R.translate_with_meta(cfg, repo=core.REPO, config_dir=os.path.dirname(CFG))
        src = open(os.path.join(core.REPO, "lightning/src/ln/channel.rs")).read()
        ms = list(re.finditer(r"if !self\.funding\.is_outbound\(\) \{(?:(?!\} else \{).)*?propose_fee!\((?P<e>[^;]*)\);\s*\} else \{", src, re.S))
        ms = [m for m in ms if "pick the highest fee in the overlapping range" in m.group(0)]
        if len(ms) != 1:
            raise Refused("the non-funder branch of closing_signed (`propose_fee!(..)` after 'pick the highest fee in the overlapping range') was found %d times" % len(ms))
        e = ms[0].group("e")
        line = src[:ms[0].start("e")].count("\n") + 1
        sha = hashlib.sha256(e.encode()).hexdigest()[:16]
        text += ("\n(* c01gen: lightning/src/ln/channel.rs:%d sha256:%s argument of the non-funder's propose_fee! in closing_signed: %s *)\n"
                 "Definition closing_fundee_counter_fee (max_fee_satoshis min_fee_satoshis msg_fee_satoshis our_min_fee our_max_fee : Z) : Z :=\n  %s.\n"
                 % (line, sha, " ".join(e.split()).replace("*)", "* )"), _tr(e)))
        meta = list(meta) + [{"name": "closing_fundee_counter_fee", "file": "lightning/src/ln/channel.rs", "line_start": line, "sha": sha, "kind": "macro-arg"}]
        core.write_if_changed(out, text)
        return meta, None
    except (Refused, R.Rs2vError) as ex:
        for p in (out, out + "o"):
            if os.path.exists(p):
                os.remove(p)
        return [], "C01Closing: %s" % ex
