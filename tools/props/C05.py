"""C05 -- Revoked state is never used and state is never revoked early.

Proofs: coq/Props/C05.v (shachain refinement for every hash/seed/n <= 2^48; revocation discipline of
the one-node machine Model/RevokeLog.v for every operation list).
Tie: (1) functional correspondence of Model/Shachain.v (Gallina SHA-256) against the real
`CounterpartyCommitmentSecrets` / `build_commitment_secret` (h_shachain); (2) trace correspondence of
Model/RevokeLog.v against real two-node channels driven message by message under a seeded scheduler
(h_revoke): same operations => same signer calls, same numbers/flags after every operation.
Judge on the implementation: the policy automaton `chk` (the one the theorems are about) evaluated on
the signer log recorded from the real nodes, in Python and by the Coq definition itself."""
import hashlib
import json
import os
import re

from vlib import core
from props import _c05_revoke

BINS = [b for b in ["h_shachain", "h_revoke", "h_reest_probe", "h_early_raa_probe"] if os.path.exists(os.path.join(core.HARNESS, "src", "bin", b + ".rs"))]
LEVEL = "proof"
MANIFEST = {
    "category": "proof",
    "text": "Coq theorems: (a) the 49-slot shachain store refines the map index->secret for every hash function, seed and number of updates n <= 2^48, and accepts a secret only if it re-derives every lower slot; (b) for every operation list (all interleavings of commits, peer messages honest, forged, duplicated or unsolicited, monitor-update completions, disconnect/reestablish contents, force closes, broadcasts through the monitor's public API on a live channel with the ChannelManager learning of it arbitrarily late, stfu/quiescence, re-signing) the signer log of the transliterated channel number machine satisfies the executable revocation policy (release only after the successor was validated, never sign a released number AND never release a number that was signed for broadcast, at most one earlier unrevoked counterparty commitment, numbers = initial - count, stored secret matches the announced point, reestablish resumes only from {ours, ours-1}, a revoke_and_ack while none is awaited is refused in every state). Tied to the code by functional correspondence of the shachain against the real type with Gallina SHA-256 and by trace correspondence of the machine against real two-node channels with individually delivered messages; the policy is also evaluated directly on the real signer log.",
    "note": "Trusted: Coq kernel, the hand transliterations Model/Shachain.v and Model/RevokeLog.v (validated, not proved equal to the Rust), the signer-call log hook in TestChannelSigner, LDK functional_test_utils. Abstracted: HTLC content, signature validity, secp256k1 (pub abstract). The stfu handshake's preconditions are left to the environment (what the flags forbid is modelled). Not modelled: async signers, splicing, cooperative close.",
    "technique": "machine-checked proof in Coq (bit-level induction for the shachain; simulation of a transliterated state machine by a policy automaton) + differential and trace correspondence against the implementation",
}

TWO48 = 1 << 48
INITIAL = TWO48 - 1

# ---- anchored pins: comparisons / assignments of channel.rs and channelmonitor.rs that Model/RevokeLog.v
# transliterates are re-read from the source on every run and written to coq/Gen/C05Pins.v; Props/C05.v
# proves they are what the model assumes (so an edit of any of them breaks a proof obligation even before
# any trace is run).
CH = "lightning/src/ln/channel.rs"
MON = "lightning/src/chain/channelmonitor.rs"
PINS = [
    ("htlc_sig_count_test", CH,
     r"if\s+(msg\.htlc_signatures\.len\(\)\s*\S+\s*commitment_data\.tx\.nondust_htlcs\(\)\.len\(\))\s*\{\s*return Err\(ChannelError::close\(format!\(\s*\"Got wrong number of HTLC signatures"),
    ("channel_ready_resend_test", CH,
     r"if\s+([^\n{]*?)\s*\{\s*// If we reconnected before sending our `channel_ready` they may still resend theirs\.\s*check_reconnection = true;\s*\}\s*else if"),
    # the guard in front of "Received an unexpected revoke_and_ack"
    ("raa_unexpected_test", CH,
     r"if\s+([^\n{]*?)\s*\{\s*// Our counterparty seems to have burned their coins to us \(by revoking a state when we"),
    ("can_generate_new_commitment_test", CH,
     r"fn can_generate_new_commitment\(&self\) -> bool \{\s*match self \{\s*ChannelState::ChannelReady\(flags\) =>\s*(.*?),\s*_ => \{"),
    # holder_tx_signed is set inside the function every path that queues the funding claim goes through,
    # before its manual-broadcast early return
    ("monitor_lock_in_claim_generation", MON,
     r"fn generate_claimable_outpoints_and_watch_outputs\((?:(?!\n\tfn ).)*?// new channel updates\.\s*(self\.holder_tx_signed = true;)\s*// In manual-broadcast mode, if we have not yet observed the funding transaction on-chain,"),
    ("monitor_no_further_updates_test", MON,
     r"\n\tfn no_further_updates_allowed\(&self\) -> bool \{\s*(.*?)\s*\}"),
]


def generate(ctx):
    lines = ["(* GENERATED by tools/props/C05.py from the rust-lightning sources on every run. Do not edit. *)",
             "From Coq Require Import String.", ""]
    meta = []
    srcs = {}
    for name, rel, rx in PINS:
        if rel not in srcs:
            srcs[rel] = open(os.path.join(core.REPO, rel)).read()
        ms = re.findall(rx, srcs[rel], re.S)
        if len(ms) != 1:
            raise RuntimeError("anchored pin %s: expected exactly one match in %s, found %d" % (name, rel, len(ms)))
        text = re.sub(r"\s+", " ", ms[0]).strip()
        lines.append('Definition %s : string := "%s"%%string.' % (name, text.replace('"', '""')))
        meta.append({"pin": name, "source": rel, "text": text})
    core.write_if_changed(os.path.join(core.COQ, "Gen", "C05Pins.v"), "\n".join(lines) + "\n")
    ctx.gen_meta = meta
    return meta


# ============================================================================ shachain: cases
def py_build_secret(seed, idx):
    res = bytearray(seed)
    for i in range(48):
        bitpos = 47 - i
        if idx & (1 << bitpos):
            res[bitpos // 8] ^= 1 << (bitpos & 7)
            res = bytearray(hashlib.sha256(bytes(res)).digest())
    return bytes(res)


def shachain_scripts(rng, tier):
    """Returns list of scripts; a script is a list of ops (tuples)."""
    scripts = []
    quick = tier == "quick"

    def seed_of(r):
        k = r.below(4)
        if k == 0:
            return bytes([0] * 32)
        if k == 1:
            return bytes([0xff] * 32)
        return bytes(r.below(256) for _ in range(32))

    def gets_around(r, lo, n):
        """indices to query: inside the provided range, at its edge, below it, far below, above 2^48"""
        out = []
        for _ in range(n):
            c = r.below(8)
            if c <= 2:
                out.append(r.range(lo, TWO48 - 1))
            elif c == 3:
                out.append(max(0, lo - 1 - r.below(3)))
            elif c == 4:
                out.append(lo)
            elif c == 5:
                out.append(r.below(TWO48))
            elif c == 6:
                out.append(max(0, lo - (1 << r.below(48))))
            else:
                out.append(r.choice([TWO48 - 1, TWO48, TWO48 + 1, (1 << 64) - 1, 0, 1, 1 << 47]))
        return out

    # (a) sequential feeding, gets after every few provides, round trips
    lens = [1, 2, 3, 5, 8, 17, 33, 64, 100, 129, 200] if quick else \
        [1, 2, 3, 4, 7, 8, 9, 31, 32, 33, 64, 127, 128, 129, 255, 256, 257, 500, 777, 1000, 1023, 1024, 1025, 1500, 2047, 2048, 2049, 3000]
    for n in lens:
        r = rng.fork("seq%d" % n)
        seed = seed_of(r)
        ops = []
        for k in range(n):
            idx = INITIAL - k
            ops.append(("P", idx, py_build_secret(seed, idx)))
            if r.chance(1, 6) or k == n - 1:
                for j in gets_around(r, idx, 2):
                    ops.append(("G", j))
            if r.chance(1, 40):
                ops.append(("S",))
        ops.append(("M",))
        ops.append(("D",))
        scripts.append(("seq", ops))
    # (b) power ladder: fills all 49 slots with 49 provides (2^48 - 2^p), then random gets
    for t in range(2 if quick else 6):
        r = rng.fork("ladder%d" % t)
        seed = seed_of(r)
        ops = []
        top = (20 if t == 0 else r.range(8, 16)) if quick else (48 if t == 0 else r.range(20, 40))
        for p in range(top + 1):
            idx = TWO48 - (1 << p)
            ops.append(("P", idx, py_build_secret(seed, idx)))
            if r.chance(1, 3):
                for j in gets_around(r, idx, 1):
                    ops.append(("G", j))
        ops.append(("D",))
        ops.append(("S",))
        for j in gets_around(r, TWO48 - (1 << top), 6 if quick else 20):
            ops.append(("G", j))
        scripts.append(("ladder", ops))
    # (c) injected wrong secrets / out-of-order indices. While the feeding has been honest so far
    # ([honest]), the generator knows what the property demands of the next answer and records it as
    # the 4th component: a wrong secret for an even index must be refused, a right one accepted.
    for t in range(10 if quick else 60):
        r = rng.fork("adv%d" % t)
        seed = seed_of(r)
        other = seed_of(r)
        n = r.range(2, 40 if quick else 200)
        ops = []
        k = 0
        honest = True
        while k < n:
            idx = INITIAL - k
            good = py_build_secret(seed, idx)
            c = r.below(12)
            if c == 0 or c == 1:
                if c == 0:      # one bit flipped
                    b = bytearray(good)
                    b[r.below(32)] ^= 1 << r.below(8)
                    bad = bytes(b)
                else:           # secret of another seed
                    bad = py_build_secret(other, idx)
                if bad != good:
                    if idx % 2 == 0:
                        ops.append(("P", idx, bad, "err" if honest else None))
                    else:       # odd index: nothing to check it against yet; it is accepted
                        ops.append(("P", idx, bad, None))
                        honest = False
            elif c == 2:    # right secret, wrong (earlier or later) index
                ops.append(("P", max(0, idx + r.choice([-3, -2, -1, 1, 2, 3])), good, None))
                honest = False
            elif c == 3:    # replay of an old index: never changes the store; the real code answers Ok or
                            # Err depending on what the lower slots hold by now (its consistency loop runs
                            # before the "already known" test) -- no expectation, model and code must agree
                j = INITIAL - r.below(k + 1) if k > 0 else None
                if j is not None and j > idx:
                    ops.append(("P", j, py_build_secret(seed, j), None))
            elif c == 4:    # skip ahead consistently
                k += r.range(1, 5)
                idx = INITIAL - k
                good = py_build_secret(seed, idx)
                honest = False
            elif c == 5:    # far out of range index
                ops.append(("P", r.choice([TWO48, TWO48 + 2, (1 << 64) - 1, 1 << 63, 0]), good, None))
                honest = False
            ops.append(("P", idx, good, "ok" if honest else None))
            if r.chance(1, 4):
                for j in gets_around(r, idx, 2):
                    ops.append(("G", j))
            k += 1
        ops.append(("M",))
        ops.append(("D",))
        scripts.append(("adversarial", ops))
    # (d) empty store
    scripts.append(("empty", [("M",), ("G", 0), ("G", TWO48 - 1), ("G", TWO48), ("D",), ("S",), ("P", TWO48 - 2, bytes([3] * 32)), ("P", TWO48 - 2, bytes([0] * 32)), ("D",)]))
    # (d') the all-zero secret is consistent with EMPTY lower slots (derive_secret(0.., pos, 1 << 48) = 0..),
    # so high slots (47, 46, ...) are reached without any hashing: exercises the place_secret loop bound
    zero = bytes([0] * 32)
    ops = []
    for p in range(47, 40, -1):
        ops.append(("P", 1 << p, zero))
        ops.append(("G", 1 << p))
    ops += [("M",), ("D",), ("S",), ("G", (1 << 47) + 5), ("G", (1 << 41) - 1)]
    scripts.append(("zero", ops))
    scripts.append(("zero", [("P", 3 << 46, zero), ("G", 3 << 46), ("P", 1 << 46, zero), ("G", 1 << 46), ("D",)]))
    # (e) build_commitment_secret alone
    r = rng.fork("build")
    ops = []
    for _ in range(24 if quick else 400):
        idx = r.choice([r.below(TWO48), TWO48 - 1 - r.below(1000), r.below(1 << 64), 0, INITIAL, 0xaaaaaaaaaaa, 0x555555555555])
        ops.append(("B", seed_of(r), idx))
    # split build ops over several scripts so that they shard
    for i in range(0, len(ops), 6):
        scripts.append(("build", ops[i:i + 6]))
    return scripts


def hexs(b):
    return "".join("%02x" % x for x in b)


def script_line(i, ops):
    parts = []
    for o in ops:
        if o[0] == "P":
            parts.append("P %d %s" % (o[1], hexs(o[2])))
        elif o[0] == "G":
            parts.append("G %d" % o[1])
        elif o[0] == "B":
            parts.append("B %s %d" % (hexs(o[1]), o[2]))
        else:
            parts.append(o[0])
    return "s%d " % i + ";".join(parts)


def coq_bytes(b):
    return "[" + ";".join(str(x) for x in b) + "]"


def script_coq(ops):
    parts = []
    for o in ops:
        if o[0] == "P":
            parts.append("SP %d %s" % (o[1], coq_bytes(o[2])))
        elif o[0] == "G":
            parts.append("SG %d" % o[1])
        elif o[0] == "B":
            parts.append("SB %s %d" % (coq_bytes(o[1]), o[2]))
        else:
            parts.append("S" + o[0])
    return "runs new_store [" + "; ".join(parts) + "]"


SHA_IMPORTS = ["LdkV.Prim.U64", "LdkV.Model.Shachain", "LdkV.Crypto.Sha256"]
SHA_PRELUDE = """
Open Scope Z_scope.
Inductive sop := SP (idx : Z) (s : list Z) | SG (idx : Z) | SM | SS | SD | SB (seed : list Z) (idx : Z).
Definition b2z (b : bool) : Z := if b then 1 else 0.
Fixpoint runs (st : store) (ops : list sop) : list (list Z) :=
  match ops with
  | [] => []
  | SP idx s :: r =>
      match provide_secret sha256 st idx s with
      | Some st' => [1; get_min_seen_secret st'] :: runs st' r
      | None => [0; get_min_seen_secret st] :: runs st r
      end
  | SG idx :: r =>
      (match get_secret sha256 st idx with
       | Some x => 2 :: x
       | None => if get_secret_panics sha256 st idx then [4] else [3]
       end) :: runs st r
  | SM :: r => [5; get_min_seen_secret st] :: runs st r
  | SS :: r => [8] :: runs st r
  | SD :: r => (6 :: flat_map (fun sl : slot => snd sl :: fst sl) st) :: runs st r
  | SB seed idx :: r => (7 :: build_commitment_secret sha256 seed idx) :: runs st r
  end.
"""


def canon_impl_res(op, r):
    """harness result string -> canonical python value comparable with the model's list"""
    if op[0] == "P":
        t = r.split()
        return [1 if t[0] == "ok" else 0, int(t[1])]
    if op[0] == "G":
        if r == "none":
            return [3]
        if r == "panic":
            return [4]
        return [2] + list(bytes.fromhex(r))
    if op[0] == "M":
        return [5, int(r)]
    if op[0] == "S":
        return [8] if r == "rt 1961" else [-8, r]
    if op[0] == "D":
        out = [6]
        for part in r.split(","):
            i, h = part.split(":")
            out.append(int(i))
            out += list(bytes.fromhex(h))
        return out
    if op[0] == "B":
        return [7] + list(bytes.fromhex(r))
    return [-1]


def parse_nested(v):
    return json.loads(v.replace(";", ",").replace("(", "[").replace(")", "]"))


def judge_shachain(family, ops, res):
    """The property's own predicate on the IMPLEMENTATION's answers for one script (no model):
    secrets that were accepted in sequence from one seed must all stay retrievable and equal to
    the generated ones; nothing below the lowest accepted index is answered; a wrong secret for an
    even index is refused. Uses the Python reference generator only to know the expected bytes."""
    fails = []
    accepted = {}
    lowest = TWO48
    honest_family = family in ("seq", "ladder", "zero")
    for o, r in zip(ops, res):
        if o[0] == "P":
            if len(o) > 3 and o[3] == "err" and r[0] == 1:
                fails.append({"kind": "a secret inconsistent with the stored history was accepted", "index": o[1]})
            if len(o) > 3 and o[3] == "ok" and r[0] == 0:
                fails.append({"kind": "the correctly generated next secret was refused", "index": o[1]})
            if honest_family and r[0] == 0:
                fails.append({"kind": "the correctly generated next secret was refused", "index": o[1]})
            if honest_family and r[0] == 1 and o[1] < lowest and o[1] < TWO48:
                accepted[o[1]] = o[2]
                lowest = o[1]
        elif o[0] == "G" and o[1] < TWO48 and honest_family:
            j = o[1]
            if j in accepted:
                if r[0] != 2 or bytes(r[1:]) != accepted[j]:
                    fails.append({"kind": "an accepted secret is no longer retrievable", "index": j, "got": r[:5]})
            if j < lowest and r[0] == 2:
                fails.append({"kind": "store answers for an index below everything it was given", "index": j})
            if r[0] == 4 and j in accepted:
                # (in stores fed inconsistently the assertion is reachable by design; a channel never gets there)
                fails.append({"kind": "get_secret assertion fired on an honestly fed store", "index": j})
    return fails


def shachain_corr(ctx, model_ok):
    rng = ctx.rng.fork("shachain")
    tagged = shachain_scripts(rng, ctx.tier)
    scripts = [ops for _, ops in tagged]
    families = [f for f, _ in tagged]
    inp = "\n".join(script_line(i, ops) for i, ops in enumerate(scripts)) + "\n"
    rc, lines = ctx.run_bin("h_shachain", inp, timeout=1200)
    lines = [l for l in lines if l.startswith("s")]
    if rc != 0 or len(lines) != len(scripts):
        ctx.violation("harness h_shachain did not produce one result per script", {"broken": "correspondence:h_shachain", "rc": rc, "n_out": len(lines), "n_in": len(scripts)}, False)
        return None, []
    impl = []
    for ops, l in zip(scripts, lines):
        rs = l.split(" ", 1)[1].split(";")
        if len(rs) != len(ops):
            ctx.violation("h_shachain result count mismatch", {"broken": "correspondence:h_shachain", "line": l[:200]}, False)
            return None, []
        impl.append([canon_impl_res(o, r) for o, r in zip(ops, rs)])
    # judge on the implementation
    jfails = []
    for si, (ops, res) in enumerate(zip(scripts, impl)):
        for f in judge_shachain(families[si], ops, res):
            f["script"] = si
            f["replay_line"] = script_line(si, ops)[:4000]
            jfails.append(f)
    nops = sum(len(s) for s in scripts)
    kinds = {}
    for ops in scripts:
        for o in ops:
            kinds[o[0]] = kinds.get(o[0], 0) + 1
    reskinds = {}
    for res in impl:
        for r in res:
            key = {0: "provide_err", 1: "provide_ok", 2: "get_some", 3: "get_none", 4: "get_panic", 5: "min", 6: "dump", 7: "build", 8: "roundtrip"}.get(r[0], "other")
            reskinds[key] = reskinds.get(key, 0) + 1
    fam = {}
    for f in families:
        fam[f] = fam.get(f, 0) + 1
    ctx.coverage["shachain_script_families"] = fam
    ctx.coverage["shachain_scripts"] = len(scripts)
    ctx.coverage["shachain_ops"] = nops
    ctx.coverage["shachain_op_histogram"] = kinds
    ctx.coverage["shachain_result_histogram"] = reskinds
    ctx.coverage["shachain_max_sequential"] = max(sum(1 for o in ops if o[0] == "P") for ops in scripts)
    dis = []
    if model_ok:
        exprs = [script_coq(ops) for ops in scripts]
        # heavy scripts first so that shards balance
        order = sorted(range(len(exprs)), key=lambda i: -len(scripts[i]))
        vals = ctx.coq_eval("corr_shachain", SHA_IMPORTS, [exprs[i] for i in order], prelude=SHA_PRELUDE,
                            shards=min(16, len(exprs)), timeout=1500)
        model = [None] * len(exprs)
        for pos, i in enumerate(order):
            model[i] = parse_nested(vals[pos])
        for si, (ops, a, b) in enumerate(zip(scripts, model, impl)):
            for oi, (o, x, y) in enumerate(zip(ops, a, b)):
                if x != y:
                    dis.append({"topic": "shachain", "script": si, "op_index": oi, "op": [o[0]] + [str(z) if not isinstance(z, bytes) else hexs(z) for z in o[1:]],
                                "model": x[:40], "impl": y[:40], "replay_line": script_line(si, ops[:oi + 1])[:6000]})
                    break
        ctx.samples.append({"shachain_script": script_line(0, scripts[3])[:300], "impl": [r[:6] for r in impl[3]][:6]})
    return dis, jfails


def run(ctx):
    ok_build, out = ctx.build_harness(BINS)
    if not ok_build:
        ctx.violation("harness does not build against the current tree", {"broken": "harness-build", "log_tail": out[-3000:]}, False)
        ctx.write_evidence(LEVEL)
        return
    gen_err = None
    try:
        generate(ctx)
    except Exception as ex:
        gen_err = str(ex)
        ctx.log("generation refused:", gen_err)
        ctx.obligations.append(("C05-source-pins", False, gen_err))
    ctx.coverage["translated_items"] = getattr(ctx, "gen_meta", [])
    okm, outm = ctx.coq_make(["Model/Shachain.vo", "Model/RevokeLog.vo", "Crypto/Sha256.vo"])
    if not okm:
        ctx.log("model build failed", outm[-1500:])
    proved = ctx.prove("C05") and gen_err is None
    ctx.trusted_base += [
        "Coq 8.16.1 kernel + vm_compute (no native_compute)",
        "Model/Shachain.v: hand transliteration of CounterpartyCommitmentSecrets/build_commitment_secret, tied by functional correspondence (h_shachain) with Crypto/Sha256.v as H",
        "Model/RevokeLog.v: hand transliteration of the commitment-number/flag projection of channel.rs (one node against an arbitrary environment), tied by trace correspondence (h_revoke)",
        "signer-call log hook in TestChannelSigner and RevocationView hook (feature _verif_hooks), LDK functional_test_utils (incl. TestChainMonitor's record of monitor updates), harness crate",
        "anchored source pins (Gen/C05Pins.v): six comparisons/assignments of channel.rs and channelmonitor.rs re-read on every run",
        "theorem premises: point_eqb decides equality of commitment points (true of secp256k1 PublicKey ==)",
    ]
    ctx.assumptions += [
        "a commitment_signed / revoke_and_ack is abstracted to (signature valid?, secret, next point); HTLC content is not part of this property",
        "monitor updates are applied in order; async signers, splicing and cooperative close are out of scope; the monitor is modelled by its holder_tx_signed lock only",
    ]
    broken = []
    if not proved:
        broken.append({"obligation": "Coq proof of Props/C05.v", "detail": getattr(ctx, "proof_failure", {})})
    # ---- shachain
    sdis, sjudge = shachain_corr(ctx, okm)
    if sdis:
        broken.append({"correspondence": "h_shachain vs Model/Shachain.v", "n": len(sdis), "first_disagreements": sdis[:3]})
    # ---- revocation traces
    rres = _c05_revoke.revoke_corr(ctx, okm) if "h_revoke" in BINS else None
    if rres is not None and rres.get("disagreements"):
        broken.append({"correspondence": "h_revoke vs Model/RevokeLog.v", "n": len(rres["disagreements"]), "first_disagreements": rres["disagreements"][:3]})
    if ctx.tier != "quick" and "h_revoke" in BINS and rres is not None:
        # release build: debug_assert!s of the library are compiled out, overflow wraps -- the judge must
        # still see what a production build does
        okr, outr = ctx.build_harness(["h_revoke"], release=True)
        if not okr:
            broken.append({"obligation": "release build of the harness", "log_tail": outr[-1500:]})
        else:
            rrel = _c05_revoke.revoke_corr(ctx, okm, release=True)
            if rrel is not None:
                if rrel.get("disagreements"):
                    broken.append({"correspondence": "h_revoke (release build) vs Model/RevokeLog.v", "n": len(rrel["disagreements"]), "first_disagreements": rrel["disagreements"][:3]})
                for f in rrel.get("judge_fails", []):
                    f["build"] = "release"
                rres["judge_fails"] = rres.get("judge_fails", []) + rrel.get("judge_fails", [])
    # ---- known finding C05-F1: deterministic probe on the implementation
    probe_hit = False
    if "h_reest_probe" in BINS:
        rc, lines = ctx.run_bin("h_reest_probe", "", args=["a"], timeout=300)
        pl = [l for l in lines if l.startswith("P ")]
        scs = [l for l in pl if "sign_counterparty(" in l and "signer of node0" in l]
        txids = set(l.split()[-1] for l in scs)
        nums = set(l.split("sign_counterparty(")[1].split(")")[0] for l in scs)
        nomon = any("ChannelMonitorUpdates applied by node0 for this: 0" in l for l in pl)
        ctx.coverage["reestablish_probe"] = {"rc": rc, "sign_counterparty_calls": len(scs), "distinct_txids": len(txids), "numbers": sorted(nums), "no_monitor_update": nomon}
        if rc == 0 and len(scs) >= 2 and len(nums) == 1 and len(txids) >= 2:
            probe_hit = True
            ctx.violation("C05 fails on the implementation: a forged channel_reestablish makes the node sign a never-sent counterparty commitment number without recording it; the next ordinary update signs a second, different commitment with the same number",
                          {"failing_input": {"probe": pl}, "replay_cmd": "%s a | grep '^P '" % ctx.bin_path("h_reest_probe")}, True,
                          key=_c05_revoke.KNOWN_F1)
        elif rc != 0:
            broken.append({"correspondence": "h_reest_probe crashed", "tail": lines[-10:]})
    # ---- known finding C05-F2: deterministic probe on the implementation
    if "h_early_raa_probe" in BINS:
        rc, lines = ctx.run_bin("h_early_raa_probe", "", args=["b"], timeout=300)
        pl = [l for l in lines if l.startswith("P ")]
        handed = [l for l in pl if "handed to node0's monitor:" in l]
        m_h = re.search(r"\[(\d+)\]", handed[0]) if handed else None
        signed = [int(x) for l in pl for x in re.findall(r"signer of node0: sign_counterparty\((\d+)\)", l)]
        accepted = any("after the revoke_and_ack:" in l and "awaiting_remote_revoke=false" in l for l in pl)
        sent = any("commitment_signed messages sent: 1" in l for l in pl)
        ctx.coverage["early_raa_probe"] = {"rc": rc, "handed_to_monitor": m_h.group(1) if m_h else None, "signed": signed, "early_raa_accepted": accepted, "commitment_signed_sent": sent}
        if rc == 0 and m_h and accepted and sent and signed and all(k == int(m_h.group(1)) - 1 for k in signed):
            ctx.violation("C05 fails on the implementation: a revoke_and_ack sent before our commitment_signed was signed (monitor update in flight) is accepted; the node then signs the commitment number AFTER the one it built and handed to the monitor",
                          {"failing_input": {"probe": pl}, "replay_cmd": "%s b | grep '^P '" % ctx.bin_path("h_early_raa_probe")}, True,
                          key=_c05_revoke.KNOWN_F2)
        elif rc != 0:
            broken.append({"correspondence": "h_early_raa_probe crashed", "tail": lines[-10:]})
    ev_total = ctx.coverage.get("shachain_ops", 0) + ctx.coverage.get("revoke_steps", 0)
    ctx.coverage["evaluations"] = ev_total
    ctx.coverage["distinct_nontrivial"] = ctx.coverage.get("shachain_ops", 0) + ctx.coverage.get("revoke_distinct_nontrivial", 0)
    ctx.coverage["rule"] = ("shachain: every operation of every script is a distinct (store state, op) pair by construction (fresh random seeds per script); non-trivial = provide/get/build/round-trip on a store (all of them). "
                            "revoke: distinct = distinct (model state before, operation) pairs over all scenarios; non-trivial = the operation produced a signer call or changed a number/flag")
    # ---- decide
    found = False
    for f in sjudge[:3]:
        found = True
        ctx.violation("C05 fails on the implementation (shachain): " + f["kind"], {"broken": broken, "failing_input": f,
                      "replay_cmd": "printf '%%s\\n' '<replay_line>' | %s" % ctx.bin_path("h_shachain")}, True, key="shachain:" + f["kind"])
    if rres is not None:
        jf = rres.get("judge_fails", [])
        # known findings are reported (once each) but neither count as a found input nor use up the budget
        for f in [f for f in jf if f.get("key") in _c05_revoke.KNOWN][:4]:
            ctx.violation("C05 fails on the implementation: " + f["why"], {"failing_input": f}, True, key=f["key"])
        for f in [f for f in jf if f.get("key") not in _c05_revoke.KNOWN][:3]:
            found = True
            k = f.get("key", f["why"])
            ctx.violation("C05 fails on the implementation: " + f["why"], {"broken": broken, "failing_input": f,
                          "replay_cmd": "%s replay '%s'" % (ctx.bin_path("h_revoke"), json.dumps(f.get("replay", {})))}, True,
                          key=k if k in _c05_revoke.KNOWN else "revoke:" + k)
    if broken and not found:
        what = "proof" if not proved else "correspondence"
        ctx.violation("C05 no longer shown: %s broken" % what,
                      {"broken": broken, "search": "policy judge on %d implementation shachain operations and %d real-node steps found no failing input" % (ctx.coverage.get("shachain_ops", 0), ctx.coverage.get("revoke_steps", 0))}, False)
    ctx.write_evidence(LEVEL)


def replay(ctx, rep):
    print(json.dumps(rep, indent=1)[:20000])
    fi = rep.get("failing_input") or {}
    if "replay" in fi and os.path.exists(ctx.bin_path("h_revoke")):
        rc, lines = ctx.run_bin("h_revoke", "", args=["replay", json.dumps(fi["replay"])], timeout=600)
        for l in lines:
            if l.startswith("R "):
                print(l[:4000])
        return 0
    if "replay_line" in fi and os.path.exists(ctx.bin_path("h_shachain")):
        rc, lines = ctx.run_bin("h_shachain", fi["replay_line"] + "\n")
        print("\n".join(l for l in lines if l.startswith("s")))
    return 0
