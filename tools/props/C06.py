"""C06 -- Any revoked commitment the counterparty confirms is fully punished.

Proofs: coq/Props/C06.v over Model/Justice.v (the monitor's memory as a function of the update
history + the claim set of check_spend_counterparty_transaction / check_spend_counterparty_htlc), using
the shachain refinement of C05.
Tie + runtime validation: h_justice runs real two-node channels through a generated history, captures
the cheater's commitment (+ HTLC transactions) at every point before revocation, confirms ANY revoked
one on the victim with a scripted subset of second-stage transactions, across ConnectStyles and monitor
reloads; the judge is evaluated on the implementation's own broadcasts."""
import json
import os
import subprocess
import time

from vlib import core

BINS = [b for b in ["h_justice", "h_filterblock"] if os.path.exists(os.path.join(core.HARNESS, "src", "bin", b + ".rs"))]
LEVEL = "proof"
MANIFEST = {
    "category": "proof",
    "text": "Coq theorems over a transliterated model of the ChannelMonitor's counterparty-commitment memory: for every hash function, seed, assignment of commitments (any HTLC sets, dust or not, both directions) and any number n <= 2^48 of update rounds, the monitor still derives the revocation secret of EVERY revoked commitment and still holds its HTLC list with output indices (only sources pruned); the claim set computed when such a transaction confirms is exactly its revokeable outputs plus every HTLC output, without duplicates; the block filter keeps a transaction as soon as ANY of its inputs spends a watched outpoint or an output of a transaction kept earlier in the block; for every list of cheater second-stage transactions (any number of inputs, HTLC inputs at any position) delivered later OR in the commitment's own block in any order, the tracked claims are the claims not spent by them plus every second-stage output; over the feerate_bump regenerated from package.rs, a forced or scheduled bump pays at least the capped fresh estimate whenever that exceeds the previous feerate and never lowers the fee, and a claim is re-issued within every LOW_FREQUENCY_BUMP_INTERVAL blocks under any estimate trajectory while bumps stay affordable; for every history of block connections and disconnections shallower than ANTI_REORG_DELAY (measured from the highest tip seen) that ends at its highest tip, the monitor's awaiting-confirmation table and its conclusions (spendable outputs) are those of the straight-line delivery of the final chain. Runtime validation on real nodes (not proof): every cheater-paying output of the confirmed revoked commitment and every second-stage output is spent by the victim's consensus-verified transactions, re-broadcast feerates do not decrease and follow min(fresh estimate, affordable) on scripted estimator trajectories, the monitor's filter_block agrees with the model on generated blocks, after reorganisations around every tracked confirmation (fork point on / above / below its block, Listen and Confirm APIs) the result is that of the final chain -- each recovered output reported through SpendableOutputs exactly once, as by a twin monitor fed the final chain straight --, balances drain to empty with SpendableOutputs for everything recovered, value is conserved; compared with the model's claim set.",
    "note": "Partial: script/consensus validity, signatures, weights, package aggregation/splitting and the fee estimator are validated at run time on the real implementation, not proved; fee adequacy is proved relative to the estimate handed to the regenerated feerate_bump. Trusted: Coq kernel, the hand transliteration Model/Justice.v (+ Model/Shachain.v), the rs2v translation Gen/Package.v, LDK functional_test_utils, bitcoinconsensus.",
    "technique": "machine-checked proof in Coq (history induction + the C05 shachain refinement) + end-to-end runtime validation of the implementation's justice transactions against the model's claim set",
}

TWO48 = 1 << 48
FIRSTN = TWO48 - 1

IMPORTS = ["LdkV.Prim.U64", "LdkV.Model.Shachain", "LdkV.Model.Justice", "LdkV.Crypto.Sha256"]
PRELUDE = """
Open Scope Z_scope.
Definition T := true.
Definition F := false.
Definition seed0 : list Z := repeat 7 32.
(* The claim-set correspondence does not depend on the hash function (the theorems hold for every H;
   the SHA-256 instance of the secret store is exercised by C05): a cheap H keeps this evaluation fast. *)
Definition Hc (b : list Z) : list Z := map (fun x => (x * 7 + 3) mod 256) b.
Definition run_case2 (cs : list ccommit) (n : nat) (k ctxid : Z) (funding : Z * Z) (tx : ctx) (C : stx)
    (same later : list stx) : option (list (Z * Z) * list (Z * Z)) :=
  let commit := fun j : nat => nth j cs (mkCC 0 0 []) in
  match apply_all Hc mon_init (history Hc seed0 commit n) with
  | Some m =>
      let j := justice Hc m tx in
      let '(_, cl) := process_block Hc m [funding] funding tx false [] (C :: same) in
      Some (j, fold_left (track Hc m k ctxid) later cl)
  | None => None
  end.
Definition run_case (cs : list ccommit) (n : nat) (k ctxid : Z) (tx : ctx) (S : list (Z * Z)) : option (list (Z * Z) * list (Z * Z)) :=
  let commit := fun j : nat => nth j cs (mkCC 0 0 []) in
  match apply_all Hc mon_init (history Hc seed0 commit n) with
  | Some m =>
      let j := justice Hc m tx in
      Some (j, fold_left (fun cl (hv : Z * Z) => track Hc m k ctxid cl (mkStx (fst hv) [(ctxid, snd hv, 5)] 1)) S j)
  | None => None
  end.
"""


# ---- filter_block: generated blocks, real monitor vs Model/Justice.v
FB_PRELUDE = """
Open Scope Z_scope.
Definition fb (watched : list (Z * Z)) (txs : list stx) : list Z := map s_txid (filter_block watched [] txs).
"""


def filter_cases(rng, nw, tier):
    cases = []
    n = 300 if tier == "quick" else 6000
    for c in range(n):
        ntx = rng.range(1, 7)
        txs = []
        for pos in range(ntx):
            nin = rng.range(1, 4)
            ins = []
            for _ in range(nin):
                k = rng.below(10)
                if k < 2:
                    ins.append(("w", rng.below(nw)))
                elif k == 2:
                    ins.append(("x", rng.below(nw)))
                elif k < 6 and pos > 0:
                    ins.append(("t", rng.below(pos), rng.below(3)))
                else:
                    ins.append(("r", rng.below(50)))
            txs.append((rng.range(1, 3), ins))
        cases.append(txs)
    # the shapes the property cares about: commitment first, children with the spending input at every position
    for posn in range(3):
        for extra in range(3):
            ins = [("r", 40 + i) for i in range(3)]
            ins[posn] = ("t", 0, 1)
            cases.append([(3, [("w", 0)]), (2, ins[:1 + max(posn, extra)])])
    return cases


def filter_corr(ctx, model_ok):
    rc, lines = ctx.run_bin("h_filterblock", "", timeout=300)
    wl = [l for l in lines if l.startswith("W")]
    if rc != 0 or not wl:
        ctx.violation("harness h_filterblock crashed", {"broken": "correspondence:h_filterblock", "rc": rc}, False)
        return None
    watched = [tuple(int(x) for x in t.split(":")) for t in wl[0].split()[1:]]
    rng = ctx.rng.fork("filterblock")
    cases = filter_cases(rng, len(watched), ctx.tier)

    def tok(i):
        return {"w": "w%d", "x": "x%d", "r": "r%d"}.get(i[0], "t%d.%d") % tuple(i[1:])
    inp = "\n".join("c%d %s" % (ci, "|".join("%d:%s" % (no, ",".join(tok(i) for i in ins)) for no, ins in txs)) for ci, txs in enumerate(cases)) + "\n"
    rc, lines = ctx.run_bin("h_filterblock", inp, timeout=600)
    res = {}
    for l in lines:
        if l.startswith("c") and " " in l or (l.startswith("c") and l[1:].strip().isdigit()):
            parts = l.split(" ", 1)
            res[int(parts[0][1:])] = [int(x) for x in parts[1].split(",") if x.strip() != ""] if len(parts) > 1 else []
    if rc != 0 or len(res) != len(cases):
        ctx.violation("harness h_filterblock did not answer every case", {"broken": "correspondence:h_filterblock", "rc": rc, "n": len(res)}, False)
        return None
    dis = []
    ctx.coverage["filter_block_cases"] = len(cases)
    ctx.coverage["filter_block_kept_histogram"] = {}
    for ci in res:
        k = str(len(res[ci]))
        ctx.coverage["filter_block_kept_histogram"][k] = ctx.coverage["filter_block_kept_histogram"].get(k, 0) + 1
    # judge on the implementation: a transaction with ANY input spending a watched outpoint or an output of
    # an earlier kept transaction must be kept
    jf = []
    for ci, txs in enumerate(cases):
        kept = set(res[ci])
        for pos, (no, ins) in enumerate(txs):
            should = any(i[0] == "w" or (i[0] == "t" and i[1] in kept) for i in ins)
            if should and pos not in kept:
                jf.append({"why": "the block filter drops a transaction one of whose inputs spends a watched output or an output of a transaction matched earlier in the block", "case": txs, "position": pos, "kept": sorted(kept)})
                break
    if model_ok:
        exprs = []
        wcoq = "[" + "; ".join("(%d, %d)" % (900 + t, v) for t, v in watched) + "]"
        for ci, txs in enumerate(cases):
            ts = []
            for pos, (no, ins) in enumerate(txs):
                its = []
                for i in ins:
                    if i[0] == "w":
                        its.append("(%d, %d, 0)" % (900 + watched[i[1]][0], watched[i[1]][1]))
                    elif i[0] == "x":
                        its.append("(%d, %d, 0)" % (900 + watched[i[1]][0], 1000 + watched[i[1]][1]))
                    elif i[0] == "t":
                        its.append("(%d, %d, 0)" % (i[1], i[2]))
                    else:
                        its.append("(%d, %d, 0)" % (5000 + i[1], i[1]))
                ts.append("mkStx %d [%s] %d" % (pos, "; ".join(its), no))
            exprs.append("fb %s [%s]" % (wcoq, "; ".join(ts)))
        B = 100
        batched = ["[" + "; ".join(exprs[i:i + B]) + "]" for i in range(0, len(exprs), B)]
        vals = ctx.coq_eval("corr_filterblock", ["LdkV.Prim.U64", "LdkV.Model.Shachain", "LdkV.Model.Justice"], batched, prelude=FB_PRELUDE, shards=min(8, len(batched)))
        model = []
        for v in vals:
            model += json.loads(v.replace(";", ","))
        for ci, (a, b) in enumerate(zip(model, [res[i] for i in range(len(cases))])):
            if a != b:
                dis.append({"topic": "filter_block", "case": cases[ci], "model": a, "impl": b})
    return {"disagreements": dis, "judge_fails": jf}


def zl(z):
    return str(z) if z >= 0 else "(%d)" % z


class Intern:
    def __init__(self):
        self.m = {}

    def __call__(self, txid):
        if txid not in self.m:
            self.m[txid] = 1000 + len(self.m)
        return self.m[txid]


KNOWN_BURN = "F1-forcebump-25pct-per-block-burns-claim-value"


def analyse(rec):
    """Judge of C06 on the implementation's outputs for one scenario + the data for the model comparison.
    Returns (fails, model_case | None, stats)."""
    fails = []
    stats = {}
    cheat = rec["cheat"]
    cap = rec["captures"][cheat["capture"]]
    ctx_tx = cap["commitment"]
    ctxid = cheat["txid"]
    legacy = rec.get("chan_type", "legacy") == "legacy"
    mon = [m for m in rec["mon_commitments"] if m["txid"] == ctxid]
    if not mon:
        return [{"why": "the victim's monitor was never told about the cheated commitment %s" % ctxid}], None, stats
    mon = mon[0]
    a_htlc = {t["txid"]: t for t in cap.get("htlc_txs", [])}
    for t in rec.get("S_txs", []) or []:
        a_htlc[t["txid"]] = t
    # all of B's broadcasts, by txid
    btx = {}
    bcast_seq = []
    epoch = 0      # a reorganisation starts a new epoch: claims are re-made from a lower height
    for b in rec["blocks"]:
        if b.get("phase") == "reorg_disconnect":
            epoch += 1
        for t in b.get("bcast", []):
            btx[t["txid"]] = t
            bcast_seq.append((b["h"], t, epoch))
            if t.get("verify") != "ok":
                fails.append({"why": "a transaction broadcast by the victim fails consensus verification against the outputs it spends: %s (%s)" % (t["txid"], t.get("verify"))})
    # simulated chain: who spent what -- on the FINAL chain (blocks that were reorganised out do not count)
    spent_by = {}
    mined = []
    conf_h = {}
    fc = rec.get("final_chain")
    if fc:
        order = [(c["height"], c["txid"]) for c in sorted(fc["confirmed"], key=lambda c: c["height"])]
    else:
        order = [(b["h"], txid) for b in rec["blocks"] for txid in b.get("mined", [])]
    for h_, txid in order:
        t = btx.get(txid) or a_htlc.get(txid) or (ctx_tx if txid == ctxid else None)
        mined.append(txid)
        conf_h[txid] = h_
        if t is None:
            continue
        for i in t["inputs"]:
            spent_by[i["prev"]] = txid
    outs = ctx_tx["outputs"]
    # cheater-paying outputs: the revokeable output and every HTLC output (what the monitor was told, which must
    # describe the transaction); everything else must be an anchor / P2A output or the victim's own output
    o_mon = sorted(([mon["revokeable_vout"]] if mon.get("revokeable_vout") is not None else []) + [h["vout"] for h in mon["htlcs"] if h.get("vout") is not None])
    kinds = {o["vout"]: o for o in cheat.get("outputs", [])}
    if legacy:
        o_impl = sorted(v for v, o in enumerate(outs) if o["script"].startswith("0020") and len(o["script"]) == 68)
    else:
        o_impl = sorted(v for v, o in kinds.items() if o.get("cheater_paying"))
    if o_impl != o_mon:
        fails.append({"why": "the monitor's record of commitment %d (outputs %s) does not describe the transaction (cheater-paying outputs %s)" % (mon["number"], o_mon, o_impl)})
    spendable = {s_["outpoint"]: s_ for s_ in rec.get("spendable", [])}
    # ---- reorganisations: the end result is determined by the final chain
    ro = rec.get("reorg") if (rec.get("reorg") or {}).get("done") else None
    plan = ("%s/%s/%+d/%s" % (ro["target"], ro["api"], ro["fork_rel"], ro["regrow"])) if ro else None
    live = {}
    for s_ in rec.get("spendable", []):
        live[(s_["outpoint"], s_["value"])] = live.get((s_["outpoint"], s_["value"]), 0) + 1
    for (op, val), cnt in sorted(live.items()):
        if cnt > 1:
            fails.append({"why": "the recovered output %s (%d sat) is reported through Event::SpendableOutputs %d times" % (op, val, cnt), "reorg": ro})
    for s_ in rec.get("spendable", []):
        tx_ = s_["outpoint"].split(":")[0]
        if fc and tx_ in conf_h and s_.get("h") is not None and s_["h"] < conf_h[tx_] + 5:
            fails.append({"why": "output %s is reported spendable at height %d, before its transaction (confirmed at %d on the final chain) is ANTI_REORG_DELAY deep" % (s_["outpoint"], s_["h"], conf_h[tx_]), "reorg": ro})
        if fc and tx_ not in conf_h:
            fails.append({"why": "output %s is reported spendable although its transaction is not on the final chain" % s_["outpoint"], "reorg": ro})
    tw = rec.get("twin")
    if tw is not None:
        twin = {}
        for s_ in tw.get("spendable", []):
            twin[(s_["outpoint"], s_["value"])] = twin.get((s_["outpoint"], s_["value"]), 0) + 1
        for (op, val) in sorted(set(twin) - set(live)):
            fails.append({"why": "recovered value is never reported: output %s (%d sat) of a transaction confirmed on the final chain is reported through Event::SpendableOutputs by a monitor that is handed the same final chain straight, but never by the victim that lived through the reorganisation (%s)"
                                 % (op, val, plan or "no reorganisation"), "reorg": ro})
        for (op, val) in sorted(set(live) - set(twin)):
            fails.append({"why": "the victim reports output %s (%d sat) as spendable, a monitor handed the same final chain straight does not (%s)" % (op, val, plan or "no reorganisation"), "reorg": ro})
        if tw.get("balances") and not rec.get("final_balances"):
            fails.append({"why": "the no-reorg twin on the final chain still has claimable balances: %s" % tw["balances"][:2], "reorg": ro})
        if tw.get("tip") is not None and fc and tw["tip"] != fc["tip"]:
            fails.append({"why": "harness: twin tip %s differs from the final tip %s" % (tw["tip"], fc["tip"])})
    second_stage = []     # (S txid, input index, commitment vout)
    burn = False
    for v in o_impl:
        op = "%s:%d" % (ctxid, v)
        s_ = spent_by.get(op)
        if s_ is None:
            fails.append({"why": "output %d (%d sat) of the revoked commitment was never spent: the cheater keeps it" % (v, outs[v]["value"]), "outpoint": op})
        elif s_ in a_htlc:
            st = a_htlc[s_]
            idx = [i for i, inp in enumerate(st["inputs"]) if inp["prev"] == op][0]
            op2 = "%s:%d" % (s_, idx)
            second_stage.append((s_, idx, v))
            s2 = spent_by.get(op2)
            if s2 is None or s2 not in btx:
                fails.append({"why": "the cheater's second-stage transaction %s (input %d of %d spending commitment output %d) confirmed and its output %d was not punished"
                                     % (s_, idx, len(st["inputs"]), v, idx), "outpoint": op2})
        elif s_ not in btx:
            fails.append({"why": "output %d of the revoked commitment was spent by an unknown transaction %s" % (v, s_)})
    # ---- fee discipline of re-issued claims
    est_at = dict((h, e) for h, e in (rec.get("conf_target_feerates") or []))
    per_set = {}
    for h, t, ep in bcast_seq:
        key = (ep,) + tuple(sorted(i["prev"] for i in t["inputs"]))
        made = t.get("locktime", h) if t.get("locktime", 0) < 500000000 else h
        per_set.setdefault(key, {})[t["txid"]] = (made, t)
    min_delta = None
    n_bumps = 0
    max_ratio = 1.0
    gone = set((ro or {}).get("disconnected_txids") or [])
    for key, d in per_set.items():
        if any(op.split(":")[0] in gone for op in key[1:]):
            # the transaction these claims spend was reorganised out and confirmed again: the claim was made afresh
            continue
        seq = sorted(d.values(), key=lambda x: (x[0], x[1]["feerate"]))
        amt = sum(i["value"] for i in seq[0][1]["inputs"])
        for (h1, t1), (h2, t2) in zip(seq, seq[1:]):
            p, r = t1["feerate"], t2["feerate"]
            tol = 3 + r // 50
            delta = r - p
            min_delta = delta if min_delta is None else min(min_delta, delta)
            if delta < -tol:
                fails.append({"why": "a claim was re-issued with a lower feerate (%d sat/kw at height %d -> %d at height %d)" % (p, h1, r, h2), "inputs": list(key[1:])})
            if r > p + tol:
                n_bumps += 1
                ests = [est_at[x] for x in (h2, h2 + 1) if x in est_at]
                if ests:
                    est = min(ests)
                    afford = (amt // 2) * 1000 // max(1, t2["weight"])
                    want = min(est, afford)
                    if want > p and r < want - (3 + want // 50):
                        fails.append({"why": "a re-issued justice claim does not follow the fee estimate: previous %d sat/kw, estimate for its confirmation target %d, affordable %d, new feerate only %d (height %d)"
                                             % (p, est, afford, r, h2), "inputs": list(key[1:])})
            if t2["fee"] * 2 > amt and t2["feerate"] > 20 * max(253, est_at.get(h2, 253)):
                burn = True
        if seq[0][1]["feerate"] > 0:
            max_ratio = max(max_ratio, seq[-1][1]["feerate"] / seq[0][1]["feerate"])
    fv = rec.get("fee_violations") or {}
    if (fv.get("not_monotone") or fv.get("below_estimate")) and not any("feerate" in f["why"] or "fee estimate" in f["why"] for f in fails):
        fails.append({"why": "the harness' own fee check reports violations the judge did not reproduce: %s" % json.dumps(fv)[:300]})
    stats["rebroadcast_min_feerate_delta"] = min_delta
    stats["bumps"] = n_bumps
    stats["max_feerate_ratio"] = round(max_ratio, 1)
    # the end: nothing left claimable, everything recovered is reported spendable
    if rec.get("final_balances"):
        fails.append({"why": "claimable balances do not drain: %s" % rec["final_balances"][:3]})
    recovered = 0
    fees = 0
    for txid in mined:
        if txid in btx:
            t = btx[txid]
            fees += t["fee"]
            for vout, o in enumerate(t["outputs"]):
                op = "%s:%d" % (txid, vout)
                if op not in spendable:
                    fails.append({"why": "the output of the victim's confirmed justice transaction %s is never reported as a SpendableOutput" % op})
                else:
                    recovered += o["value"]
        elif txid in a_htlc and legacy:
            t = a_htlc[txid]
            fees += t["inputs"][0]["value"] - sum(o["value"] for o in t["outputs"])
    direct = 0
    for v, o in enumerate(outs):
        if v in o_impl:
            continue
        op = "%s:%d" % (ctxid, v)
        k = kinds.get(v, {}).get("kind", "p2wpkh" if legacy else "?")
        if op in spendable:
            direct += o["value"]
        elif k not in ("anchor", "p2a"):
            fails.append({"why": "the victim's own output %d of the revoked commitment is never reported as a SpendableOutput" % v})
    total = sum(o["value"] for o in outs)
    if legacy and not fails and recovered + direct + fees != total:
        fails.append({"why": "value is not conserved: outputs of the revoked commitment %d sat, recovered %d + direct %d + fees %d" % (total, recovered, direct, fees)})
    if burn:
        # known finding: with the estimate flat, ForceBump adds 25 % per timer tick without looking at the estimate;
        # a long-unconfirmed claim ends up paying most of its value in fees and can then no longer be re-issued
        # (only when every second-stage output WAS punished and delivery held the claims back for a long time:
        #  an unseen second-stage transaction also leaves a stale claim bumping forever, and that is not this finding)
        if not any("not punished" in f["why"] for f in fails) and (rec.get("fee_delay") or 0) >= 60:
            for f in fails:
                if "never spent" in f["why"] or "do not drain" in f["why"]:
                    f["key_override"] = KNOWN_BURN
    stats["reorg"] = plan
    stats["reorg_shape"] = ("%s fork%+d %s" % (ro["target"], ro["fork_rel"], "Listen" if ro["api"].startswith("listen") else "Confirm")) if ro else None
    s_same = [t for t in (rec.get("S_txs") or []) if t.get("same_block_as_commitment") and t["txid"] in mined]
    stats.update({"age": cheat.get("current_number", 0) and (cheat["number"] - cheat["current_number"]), "n_htlc_outputs": len(mon["htlcs"]),
                  "offered": sum(1 for h in mon["htlcs"] if h["offered"]), "received": sum(1 for h in mon["htlcs"] if not h["offered"]),
                  "second_stage": len(second_stage), "justice_txs": sum(1 for t in mined if t in btx), "style": rec.get("style"), "reloads": rec.get("reloads", 0),
                  "recovered_sat": recovered + direct, "fees_sat": fees, "chan_type": rec.get("chan_type", "legacy"),
                  "same_block": ("%s/%s" % (rec.get("chan_type"), "+".join(sorted(t.get("fee_in_pos", "H") for t in s_same)))) if s_same else None,
                  "trajectory": "%s/D%s" % (rec.get("fee_trajectory"), rec.get("fee_delay")) if rec.get("fee_trajectory") else None})
    # ---- data for the model
    cs = sorted(rec["mon_commitments"], key=lambda m: -m["number"])
    if [m["number"] for m in cs] != [FIRSTN - j for j in range(len(cs))]:
        return fails + [{"why": "the monitor was not told about consecutive commitment numbers: %s" % [FIRSTN - m["number"] for m in cs][:50]}], None, stats
    it = Intern()
    cc = []
    for m in cs:
        hs = "; ".join("mkHtlc %s %d %s None" % ("T" if h["offered"] else "F", h["amount_msat"], ("(Some %d)" % h["vout"]) if h.get("vout") is not None else "None") for h in m["htlcs"])
        cc.append("mkCC %d %d [%s]" % (m["number"], it(m["txid"]), hs))
    okinds = ["mkOut %s %d" % (("(ORevokeable %d)" % mon["number"]) if v == mon.get("revokeable_vout") else "OOtherScript", o["value"]) for v, o in enumerate(outs)]
    n_rounds = len(cs) - 1
    fund = rec["funding"]

    def stx_of(t):
        ins = []
        for inp in t["inputs"]:
            ptx, pv = inp["prev"].rsplit(":", 1)
            ins.append("(%d, %s, %d)" % (it(ptx), pv, inp.get("wit", 0)))
        return "mkStx %d [%s] %d" % (it(t["txid"]), "; ".join(ins), len(t["outputs"]))
    # the cheater's transactions that confirmed, in chain order; those in the commitment's block go through process_block
    order = [x for x in mined if x in a_htlc and any(i["prev"].startswith(ctxid) for i in a_htlc[x]["inputs"])]
    same_ids = set(t["txid"] for t in s_same)
    same = [a_htlc[x] for x in order if x in same_ids]
    later = [a_htlc[x] for x in order if x not in same_ids]
    cstx = "mkStx %d [(%d, %d, 4)] %d" % (it(ctxid), it(fund["txid"]), fund["vout"], len(outs))
    expr = "run_case2 [%s] %d%%nat %d %d (%d, %d) (mkCtx %d %d [%s]) (%s) [%s] [%s]" % (
        "; ".join(cc), n_rounds, mon["number"], it(ctxid), it(fund["txid"]), fund["vout"], it(ctxid), mon["number"], "; ".join(okinds),
        cstx, "; ".join(stx_of(t) for t in same), "; ".join(stx_of(t) for t in later))
    b_first = set()
    for t in btx.values():
        for i in t["inputs"]:
            pt, v = i["prev"].rsplit(":", 1)
            if pt == ctxid or (pt in a_htlc and (not fc or pt in conf_h)):
                # (claims on a cheater transaction that a reorganisation removed for good do not count: on the
                # final chain there is nothing to claim there)
                b_first.add((it(pt), int(v)))
    case = {"expr": expr, "b_spent": sorted(b_first), "o": [(it(ctxid), v) for v in o_impl],
            "second": [(it(h), i) for h, i, _ in second_stage]}
    return fails, case, stats


def parse_opt_pairs(v):
    v = v.strip()
    if v.startswith("None"):
        return None
    body = v[v.index("Some") + 4:].strip()
    return json.loads(body.replace(";", ",").replace("(", "[").replace(")", "]"))


# ---- anchored pins: the comparisons with which the monitor and the OnchainTxHandler prune their awaiting-threshold
# tables when blocks go away; Model/ChainView.v's BD / BB / TU use exactly these (Props/C06.v: C06_reorg_source_pins)
MON = "lightning/src/chain/channelmonitor.rs"
OTX = "lightning/src/chain/onchaintx.rs"
PINS = [
    ("monitor_blocks_disconnected_retain", MON,
     r"//- maturing spendable output has transaction paying us has been disconnected\s*self\.onchain_events_awaiting_threshold_conf\.retain\(\|ref entry\| (.*?)\);"),
    ("monitor_best_block_reorg_retain", MON,
     r"\"Best block re-orged, replaced with new block \{\} at height \{\}\", block_hash, height\);\s*self\.onchain_events_awaiting_threshold_conf\.retain\(\|ref entry\| (.*?)\);"),
    ("monitor_transaction_unconfirmed_drop", MON,
     r"self\.onchain_events_awaiting_threshold_conf\.retain\(\|ref entry\| if (entry\.height \S+ removed_height) \{"),
    ("onchaintx_blocks_disconnected_drop", OTX,
     r"for entry in onchain_events_awaiting_threshold_conf \{\s*if (entry\.height \S+ new_best_height) \{"),
]


def gen_pins(ctx):
    import re
    lines = ["(* GENERATED by tools/props/C06.py from the rust-lightning sources on every run. Do not edit. *)",
             "From Coq Require Import String.", ""]
    meta = []
    srcs = {}
    for name, rel, rx in PINS:
        if rel not in srcs:
            srcs[rel] = open(os.path.join(core.REPO, rel)).read()
        ms = re.findall(rx, srcs[rel], re.S)
        if len(ms) != 1:
            raise RuntimeError("anchored pin %s: expected exactly one match in %s, found %d" % (name, rel, len(ms)))
        text = re.sub(r"\s+", " ", ms[0]).strip()
        lines.append('Definition %s : string := "%s"%%string.' % (name, text.replace('"', '""')))
        meta.append({"pin": name, "source": rel, "text": text})
    core.write_if_changed(os.path.join(core.COQ, "Gen", "C06Pins.v"), "\n".join(lines) + "\n")
    return meta


def generate(ctx):
    from vlib import gen
    pins = gen_pins(ctx)
    metas, errors = gen.regen(ctx, ["Package", "Consts"])
    if errors:
        raise RuntimeError("rs2v refused: %s" % errors)
    ctx.c06_pins = pins
    return metas


def run(ctx):
    ok_build, out = ctx.build_harness(BINS)
    if not ok_build or not BINS:
        ctx.violation("harness does not build against the current tree", {"broken": "harness-build", "log_tail": out[-3000:]}, False)
        ctx.write_evidence(LEVEL)
        return
    gen_err = None
    try:
        generate(ctx)
    except Exception as ex:
        gen_err = str(ex)
        ctx.obligations.append(("rs2v-generation(Package)", False, gen_err))
    ctx.coverage["translated_items"] = getattr(ctx, "gen_meta", [])
    okm, outm = ctx.coq_make(["Model/Shachain.vo", "Model/Justice.vo", "Crypto/Sha256.vo"])
    proved = ctx.prove("C06") and gen_err is None
    ctx.trusted_base += [
        "Coq 8.16.1 kernel + vm_compute",
        "Model/Justice.v: hand transliteration of provide_latest_counterparty_commitment_tx / provide_secret / check_spend_counterparty_transaction (revoked branch) / check_spend_counterparty_htlc / filter_block + spends_watched_output (the latter two also compared with the implementation on generated blocks); claim tracking abstracted to the set of outpoints",
        "Gen/Package.v: rs2v translation of feerate_bump / compute_fee_from_spent_amounts, regenerated from package.rs on every run (tools/rs2v)",
        "Model/ChainView.v (C11's hand transliteration of the monitor's chain bookkeeping, validated by C11's check) for the reorganisation theorem; Gen/C06Pins.v: four source comparisons re-read on every run",
        "Model/Shachain.v and its theorems (C05)",
        "runtime validation only: script/consensus validity (bitcoinconsensus), signatures, weights, the fee estimator and mempool acceptance (fee adequacy is proved relative to the estimate given to feerate_bump and judged at run time on scripted estimator trajectories), package aggregation/splitting, the height timer (a premise of C06_bumped_until_buried; C07)",
        "LDK functional_test_utils, harness crate (h_justice, h_filterblock), hook ChannelMonitor::verif_filter_block (calls filter_block unchanged)",
    ]
    ctx.assumptions += ["commitment transaction ids are distinct (the Rust asserts it outside fuzzing)",
                        "a revokeable script matches exactly the outputs built with the same per-commitment point",
                        "cheater second-stage transactions do not spend one another's outputs (second-stage theorems)",
                        "bumps stay affordable and the height timer stays within LOW_FREQUENCY_BUMP_INTERVAL (C06_bumped_until_buried; see known finding C06-F1 for what happens otherwise)",
                        "watchtower copies and splice scopes not modelled; external funding of anchor/zero-fee-commitment bumps exercised at run time only"]
    broken = []
    if not proved:
        broken.append({"obligation": "Coq proof of Props/C06.v", "detail": getattr(ctx, "proof_failure", {})})
    fres = filter_corr(ctx, okm) if "h_filterblock" in BINS else None
    if fres and fres["disagreements"]:
        broken.append({"correspondence": "h_filterblock vs Model/Justice.v filter_block", "n": len(fres["disagreements"]), "first_disagreements": fres["disagreements"][:3]})
    quick = ctx.tier == "quick"
    n_scen = 160 if quick else 2400
    batches = 8 if quick else 16
    per = (n_scen + batches - 1) // batches
    seed = ctx.rng.fork("justice").next() & ((1 << 60) - 1)
    flagsets = ["all", "late,styles,reorg", "reload,late", "all", "reorg", "all", "styles,reload,reorg", "late"]
    procs = []
    t0 = time.time()
    for b in range(batches):
        cmd = [ctx.bin_path("h_justice"), "run", str(seed + 7919 * b), str(per), flagsets[b % len(flagsets)]]
        procs.append((cmd, subprocess.Popen(["timeout", "1700"] + cmd, stdout=subprocess.PIPE, stderr=subprocess.DEVNULL, universal_newlines=True, cwd=ctx.tmp)))
    recs = []
    crashed = False
    for cmd, p in procs:
        o, _ = p.communicate()
        got = 0
        for l in o.split("\n"):
            if l.startswith("R "):
                try:
                    recs.append(json.loads(l[2:]))
                    got += 1
                except ValueError:
                    pass
        if p.returncode != 0 or got == 0:
            crashed = True
            ctx.violation("harness h_justice crashed or produced nothing", {"broken": "e2e:h_justice", "cmd": cmd, "rc": p.returncode}, False)
    ctx.timed("harness_run_s", time.time() - t0)
    judge_fails = []
    cases = []
    hist = {"age": {}, "style": {}, "second_stage": {}, "htlc_outputs": {}, "justice_txs": {}, "chan_type": {}, "same_block": {}, "trajectory": {}, "bumps": {}, "reorg": {}, "reorg_shape": {}}
    tot_recovered = tot_fees = 0
    both_dirs = 0
    min_delta = None
    for rec in recs:
        rp = {"seed": rec["seed"], "k": rec["k"], "flags": rec["flags"]}
        if rec.get("panic"):
            judge_fails.append({"why": "panic while the victim handled the revoked commitment: " + str(rec["panic"])[:300], "replay": rp, "key": "panic:" + str(rec["panic"])[:60]})
            continue
        try:
            fails, case, st = analyse(rec)
        except Exception as ex:  # malformed record
            ctx.violation("h_justice record could not be analysed: %r" % (ex,), {"broken": "e2e:h_justice", "replay": rp}, False)
            crashed = True
            continue
        for f in fails:
            f["replay"] = rp
            f["key"] = f.pop("key_override", None) or f["why"].split(":")[0][:60]
            judge_fails.append(f)
        if case:
            case["replay"] = rp
            cases.append(case)
        for k, key in (("age", "age"), ("style", "style"), ("second_stage", "second_stage"), ("htlc_outputs", "n_htlc_outputs"), ("justice_txs", "justice_txs"),
                       ("chan_type", "chan_type"), ("same_block", "same_block"), ("trajectory", "trajectory"), ("bumps", "bumps"), ("reorg", "reorg"), ("reorg_shape", "reorg_shape")):
            v = st.get(key)
            hist[k][str(v)] = hist[k].get(str(v), 0) + 1
        tot_recovered += st.get("recovered_sat", 0)
        tot_fees += st.get("fees_sat", 0)
        if st.get("offered") and st.get("received"):
            both_dirs += 1
        d = st.get("rebroadcast_min_feerate_delta")
        if d is not None:
            min_delta = d if min_delta is None else min(min_delta, d)
    dis = []
    if okm and cases:
        vals = ctx.coq_eval("corr_justice", IMPORTS, [c["expr"] for c in cases], prelude=PRELUDE, shards=min(16, max(1, len(cases) // 4)), timeout=1500)
        for c, v in zip(cases, vals):
            r = parse_opt_pairs(v)
            if r is None:
                dis.append({"topic": "justice-model", "what": "the model's monitor refuses the history", "replay": c["replay"]})
                continue
            just, tracked = r
            jset = sorted(tuple(x) for x in just)
            if jset != sorted(c["o"]) or len(set(jset)) != len(jset):
                dis.append({"topic": "justice-model", "what": "model claim set differs from the cheater-paying outputs of the real transaction", "model": jset, "impl_outputs": c["o"], "replay": c["replay"]})
                continue
            want = sorted(set(tuple(x) for x in tracked))
            got = c["b_spent"]
            # everything the model still tracks must have been spent by the victim; the victim may in addition
            # have tried to claim outputs the cheater then took (those are in [o] but no longer tracked)
            missing = [x for x in want if tuple(x) not in set(map(tuple, got))]
            extra = [x for x in got if tuple(x) not in set(want) | set(map(tuple, c["o"]))]
            if missing or extra:
                dis.append({"topic": "justice-model", "what": "outpoints spent by the victim's broadcasts differ from the model's tracked claims", "missing": missing, "unexpected": extra, "replay": c["replay"]})
    if dis:
        broken.append({"correspondence": "h_justice vs Model/Justice.v", "n": len(dis), "first_disagreements": dis[:3]})
    ctx.coverage.update({
        "scenarios": len(recs), "model_cases": len(cases), "age_of_cheated_state_histogram": hist["age"], "connect_style_histogram": hist["style"],
        "second_stage_txs_histogram": hist["second_stage"], "channel_type_histogram": hist["chan_type"],
        "same_block_second_stage_histogram(chan_type/fee-input layouts)": hist["same_block"], "fee_trajectory_histogram": hist["trajectory"],
        "fee_bumps_per_scenario_histogram": hist["bumps"],
        "reorg_histogram(tracked tx / fork point relative to its block / API)": hist["reorg_shape"],
        "reorg_plan_histogram(target/api/fork_rel/regrow)": hist["reorg"],
        "no_reorg_twins_compared": sum(1 for r in recs if r.get("twin") is not None), "htlc_outputs_on_cheated_commitment_histogram": hist["htlc_outputs"], "justice_txs_histogram": hist["justice_txs"],
        "cheated_commitments_with_htlcs_in_both_directions": both_dirs, "recovered_sat_total": tot_recovered, "fees_sat_total": tot_fees,
        "rebroadcast_min_feerate_delta": min_delta,
        "evaluations": len(recs), "distinct_nontrivial": len(set(c["expr"] for c in cases)),
        "rule": "one evaluation = one complete cheat scenario on real nodes; distinct = distinct (history as told to the monitor, cheated commitment, second-stage subset) triples; non-trivial = the cheated commitment is revoked and confirmed on the victim",
    })
    if recs:
        r0 = recs[0]
        ctx.samples.append({"replay": {"seed": r0["seed"], "k": r0["k"], "flags": r0["flags"]}, "cheat": r0["cheat"], "style": r0.get("style"),
                            "first_block_broadcasts": [{"txid": t["txid"][:16], "inputs": [i["prev"][-12:] for i in t["inputs"]], "verify": t["verify"]} for t in (r0["blocks"][0].get("bcast", []) if r0["blocks"] else [])][:4]})
    found = False
    for f in (fres["judge_fails"][:2] if fres else []):
        found = True
        ctx.violation("C06 fails on the implementation: " + f["why"], {"broken": broken, "failing_input": f,
                      "replay_cmd": "printf '<case line>' | %s" % ctx.bin_path("h_filterblock")}, True, key="filter_block")
    for f in judge_fails[:3]:
        found = True
        ctx.violation("C06 fails on the implementation: " + f["why"], {"broken": broken, "failing_input": f,
                      "replay_cmd": "%s replay '%s' | grep '^R '" % (ctx.bin_path("h_justice"), json.dumps(f.get("replay", {})))}, True,
                      key=(f["key"] if f.get("key") == KNOWN_BURN else "justice:" + f.get("key", "")))
    if broken and not found:
        ctx.violation("C06 no longer shown: %s broken" % ("proof" if not proved else "correspondence"),
                      {"broken": broken, "search": "judge over %d real-node cheat scenarios found no failing input" % len(recs)}, False)
    ctx.write_evidence(LEVEL)


def replay(ctx, rep):
    print(json.dumps(rep, indent=1)[:20000])
    fi = rep.get("failing_input") or {}
    if "replay" in fi and os.path.exists(ctx.bin_path("h_justice")):
        rc, lines = ctx.run_bin("h_justice", "", args=["replay", json.dumps(fi["replay"])], timeout=600)
        for l in lines:
            if l.startswith("R "):
                print(l[:6000])
    return 0
