"""C07 -- After a unilateral close every entitled output is recovered, validly and in time.

Layers (see design/C07.md):
  1. arithmetic (proved over rs2v-generated definitions, functional tie through `_verif_hooks`):
     feerate_bump, compute_fee_from_spent_amounts, compute_package_feerate, get_height_timer,
     package_locktime, confirmation_threshold;
  2. trace harness h_onchain: real channels closed unilaterally in generated states, judged on the real
     node after every block (claims cover entitlement, consensus-valid + final, RBF monotone, balances
     conserve and drain into spendable outputs);
  3. claim-coverage model (Model/OnchainClaims.v) proved for all closure states, with trace correspondence.
"""
import json
import os
import re

from vlib import core

_HB = os.path.join(core.HARNESS, "src", "bin")
BINS = [b for b in ["h_feebump", "h_onchain"] if os.path.exists(os.path.join(_HB, b + ".rs"))]
LEVEL = "proof"
MANIFEST = {
    "category": "proof",
    "text": "Coq theorems (all u64 inputs in stated ranges, all fee-estimator trajectories, all input lists) over fee-bumping, bump-timer and confirmation-threshold definitions regenerated from the Rust source each run; functional correspondence of each against the real functions; real channels closed unilaterally in generated states with the property's predicates (claim coverage, consensus validity and finality of every broadcast, RBF monotonicity, balance conservation and drain into spendable outputs) judged on the real node after every block; the two nodes are configured asymmetrically (to_self_delay, htlc minimum, fee estimators) and one scenario in four has a negotiated, never locked splice, so that holder/counterparty parameters and funding scopes cannot be swapped unnoticed (theorem: the reported balance is the output value in the commitment of the scope that was spent).",
    "note": "Trusted: Coq kernel, rs2v, hooks, harness + LDK test utilities, bitcoinconsensus. Script/signature validity, weights and anchor coin selection are runtime-validated only; the claim-coverage model is hand-written and trace-validated.",
    "technique": "machine-checked proof in Coq (lia/induction over regenerated definitions) + differential correspondence + implementation-side judges on real closed channels",
}
C07_DIR = os.path.join(core.VERIF, "tools", "props", "c07")
COQ_IMPORTS = ["LdkV.Prim.U64", "LdkV.Prim.Rs2vLib", "LdkV.Gen.Consts", "LdkV.Gen.Package", "LdkV.Gen.CltvChecks",
               "LdkV.Gen.PackageFeerate", "LdkV.Model.PackageTimer"]
U32, U64 = 2 ** 32, 2 ** 64
FLOOR = 253
KIND_CTOR = ["RevokedOutput", "RevokedHTLCOutput", "CounterpartyOfferedHTLC %d", "HolderHTLCPreimage",
             "CounterpartyReceivedHTLC %d", "HolderHTLCTimeout %d", "HolderFunding"]
STRAT = ["FeerateStrategy_RetryPrevious", "FeerateStrategy_HighestOfPreviousOrNew", "FeerateStrategy_ForceBump"]


def generate(ctx):
    """Regenerate Gen/{Consts,Package,CltvChecks}.v (shared rs2v configs) and Gen/PackageFeerate.v (own config)."""
    from vlib import gen
    from rs2v import rs2v as R
    metas, errors = gen.regen(ctx, ["Package", "CltvChecks", "Consts"])
    meta = list(getattr(ctx, "gen_meta", []))
    out = os.path.join(core.COQ, "Gen", "PackageFeerate.v")
    try:
        cfg = json.load(open(os.path.join(C07_DIR, "PackageFeerate.json")))
        with core.Lock("rs2v-gen"):
            text, m = R.translate_with_meta(cfg, repo=core.REPO, config_dir=C07_DIR)
            core.write_if_changed(out, text)
        meta += [dict(x, module="PackageFeerate") for x in m]
    except R.Rs2vError as ex:
        errors["PackageFeerate"] = "RS2V-REFUSED: %s" % ex
        for p in (out, out + "o"):
            if os.path.exists(p):
                os.remove(p)
    ctx.gen_meta = meta
    ctx.gen_errors = errors
    return meta


# ----------------------------------------------------------------------------- case generation
def fb_cases(rng, tier):
    ws = [0, 1, 7, 8, 9, 100, 400, 401, 666, 999, 1000, 1001, 1200, 4000, 40000, 400000, 4000000]
    amts = [0, 1, 545, 546, 1000, 1051, 1052, 10000, 100000, 10 ** 7, 10 ** 9, 21 * 10 ** 14]
    dusts = [0, 1, 330, 546]
    ps = [0, 1, 3, 4, 5, 252, 253, 254, 500, 1000, 1001, 5000, 10 ** 5, U32 - 1, U32, 2 ** 40]
    ests = [0, 252, 253, 254, 1000, 1002, 5000, 10 ** 6, U32 - 1]
    cases = set()
    ests_x = (253, 1002) if tier == "quick" else (253, 1000, 1002, 5000)
    for w in (ws if tier != "quick" else [0, 7, 8, 9, 400, 999, 1000, 1200, 40000, 4000000]):
        for amt in amts:
            for p in ps:
                for est in ests_x:
                    for s in (0, 1, 2):
                        cases.add((w, amt, 546, p, s, est))
    for _ in range(3000 if tier == "quick" else 60000):
        w = rng.choice([rng.choice(ws), rng.range(1, 2000), rng.range(400, 4000), rng.range(1, 4000000)])
        amt = rng.choice([rng.choice(amts), rng.below(5000), rng.below(10 ** 6), rng.below(21 * 10 ** 14)])
        p = rng.choice([rng.choice(ps), rng.below(2000), rng.below(10 ** 5), rng.below(U32), rng.below(2 ** 41)])
        est = rng.choice([rng.choice(ests), rng.below(3000), rng.below(10 ** 5), rng.below(U32)])
        cases.add((w, amt, rng.choice(dusts), p, rng.below(3), est))
    # overflow / out-of-range probes (must PANIC on both sides or agree)
    for c in [(4, 1000, 546, 2 ** 63, 2, 253), (4000000, 10 ** 9, 546, 2 ** 43, 2, 253), (1000, U64 - 1, 546, 253, 2, 253),
              (1000, 2 ** 55, 546, 253, 1, 5000), (1, 10 ** 6, 546, U64 - 1, 0, 253), (1000, 10 ** 6, 546, U64 // 1000, 2, 253)]:
        cases.add(c)
    return sorted(cases)


def cs_cases(rng, tier):
    cases = set()
    for w in [0, 1, 8, 400, 999, 1000, 1200, 4000000]:
        for amt in [0, 1, 505, 506, 507, 1000, 10 ** 5, 10 ** 9, 21 * 10 ** 14, 2 ** 55, U64 - 1]:
            for est in [0, 252, 253, 254, 1000, U32 - 1]:
                cases.add((amt, w, est))
    for _ in range(500 if tier == "quick" else 20000):
        cases.add((rng.choice([rng.below(3000), rng.below(10 ** 7), rng.below(21 * 10 ** 14)]),
                   rng.choice([rng.range(1, 2000), rng.range(1, 4000000)]), rng.choice([rng.below(2000), rng.below(U32)])))
    return sorted(cases)


def cf_cases(rng, tier):
    cases = set()
    for fee in [0, 1, 999, 10 ** 6, 4294967, 4294968, U32, 2 ** 54, U64 // 1000, U64 // 1000 + 1, U64 - 1]:
        for w in [0, 1, 2, 999, 1000, 1001, 4000000]:
            cases.add((fee, w))
    return sorted(cases)


def pf_cases(rng, tier):
    cases = set()
    for prev in [0, 1, 3, 4, 252, 253, 1000, 5000, 10 ** 6, 858993459, 858993460, 3435973836, U32 - 1, U32, U32 + 1, 2 ** 40, U64 - 1]:
        for est in [0, 1, 252, 253, 254, 1000, 1249, 1250, 5000, 858993459, 858993460, U32 - 1]:
            for s in (0, 1, 2):
                cases.add((prev, s, est))
    for _ in range(500 if tier == "quick" else 20000):
        cases.add((rng.choice([rng.below(10 ** 4), rng.below(U32), rng.below(U64)]), rng.below(3), rng.choice([rng.below(10 ** 4), rng.below(U32)])))
    return sorted(cases)


def _rand_inputs(rng, cur, homogeneous):
    n = rng.range(1, 5)
    kinds = [0, 1, 2, 3, 4, 5, 6]
    k0 = rng.choice(kinds)
    ins = []
    for _ in range(n):
        k = k0 if homogeneous else rng.choice(kinds)
        e = max(0, cur + rng.choice([rng.range(-70, 70), rng.range(-20, 20), rng.range(-3, 3)]))
        if k in (0, 1, 3, 6):
            e = 0
        ins.append((k, min(e, U32 - 1)))
    return ins


def ht_cases(rng, tier):
    cases = []
    for cur in [0, 1, 100, 800000, U32 - 16, U32 - 15, U32 - 1]:
        for k in range(7):
            for off in [-60, -49, -48, -47, -46, -45, -34, -33, -32, 0, 1, 2, 3, 4, 14, 15, 16, 100]:
                e = cur + off
                if 0 <= e < U32:
                    cases.append((max(0, cur + off), cur, [(k, e if k in (2, 4, 5) else 0)]))
    for _ in range(1500 if tier == "quick" else 30000):
        cur = rng.choice([rng.below(10 ** 6), rng.range(100, 1000), U32 - 1 - rng.below(100)])
        csh = max(0, cur + rng.range(-30, 30))
        cases.append((min(csh, U32 - 1), cur, _rand_inputs(rng, cur, False)))
    return cases


def lt_cases(rng, tier):
    cases = []
    for _ in range(600 if tier == "quick" else 15000):
        cur = rng.choice([rng.below(10 ** 6), rng.range(100, 1000)])
        ins = _rand_inputs(rng, cur, rng.chance(3, 4))
        if rng.chance(1, 3):  # equal expiries (what a real aggregated holder-timeout package would need)
            e = ins[0][1]
            ins = [(k, e if k in (2, 4, 5) else 0) for k, _ in ins]
        cases.append((cur, ins))
    return cases


def thr_cases(rng, tier):
    cases = []
    for h in [0, 1, 5, 6, 100, 800000, U32 - 70000, U32 - 6, U32 - 5, U32 - 1]:
        for kind in (0, 1, 2):
            for csv in (-1, 0, 1, 5, 6, 7, 144, 2016, 65535):
                if kind == 0 and csv != -1:
                    continue
                cases.append((h, kind, csv))
    return cases


def traj_cases(rng, tier):
    cases = [(1200, 1000000, 546, 500, [(2, 500), (0, 500), (1, 2000)])]  # witness of C07_rebroadcast_fee_exact_refuted
    for _ in range(400 if tier == "quick" else 8000):
        w = rng.choice([rng.range(8, 2000), rng.range(400, 1500), rng.range(8, 400000)])
        amt = rng.choice([rng.range(600, 5000), rng.range(1000, 10 ** 6), rng.range(10 ** 5, 10 ** 9)])
        est0 = rng.choice([253, rng.range(253, 3000), rng.range(253, 10 ** 5)])
        steps = []
        e = est0
        for _ in range(rng.range(1, 12)):
            e = max(0, e + rng.choice([0, 0, rng.range(-300, 300), rng.range(0, 3000), -rng.range(0, 3000)]))
            steps.append((rng.below(3), e))
        cases.append((w, amt, rng.choice([330, 546]), est0, steps))
    return cases


def ins_str(ins):
    return ",".join("%d:%d" % x for x in ins)


def ins_coq(ins):
    return "[" + "; ".join((KIND_CTOR[k] % e) if "%d" in KIND_CTOR[k] else KIND_CTOR[k] for k, e in ins) + "]"


PRELUDE = """
Open Scope Z_scope.
Definition enc2 (safe : bool) (r : option (Z * Z)) : list Z :=
  if safe then match r with Some (a, b) => [1; a; b] | None => [0; 0; 0] end else [2; 0; 0].
Definition strat_of (s : Z) : FeerateStrategy :=
  if s =? 0 then FeerateStrategy_RetryPrevious else if s =? 1 then FeerateStrategy_HighestOfPreviousOrNew else FeerateStrategy_ForceBump.
Definition bnd (est : Z) : Z := Z.max est FEERATE_FLOOR_SATS_PER_KW.
Definition m_fb (c : Z * Z * Z * Z * Z * Z) : list Z :=
  let '(w, amt, dust, p, s, est) := c in
  enc2 (feerate_bump_safe w amt dust p (strat_of s) (bnd est)) (feerate_bump w amt dust p (strat_of s) (bnd est)).
Definition m_cs (c : Z * Z * Z) : list Z :=
  let '(amt, w, est) := c in
  enc2 (compute_fee_from_spent_amounts_safe amt w (bnd est)) (compute_fee_from_spent_amounts amt w (bnd est)).
Definition m_cf (c : Z * Z) : Z :=
  let '(fee, w) := c in if compute_feerate_sat_per_1000_weight_safe fee w then compute_feerate_sat_per_1000_weight fee w else -1.
Definition m_pf (c : Z * Z * Z) : Z :=
  let '(prev, s, est) := c in
  if compute_package_feerate_safe prev (strat_of s) (bnd est) then compute_package_feerate prev (strat_of s) (bnd est) else -1.
Definition m_ht (c : Z * Z * list pinput) : Z :=
  let '(csh, cur, ins) := c in if get_height_timer_safe ins csh cur then get_height_timer ins csh cur else -1.
Definition m_lt (c : Z * list pinput) : Z :=
  let '(cur, ins) := c in if package_locktime_safe ins then package_locktime ins cur else -1.
Definition m_thr (c : Z * Z * Z) : Z :=
  let '(h, kind, csv) := c in
  let k := if kind =? 0 then OnchainEventKind_Other else OnchainEventKind_SpendConfirmation in
  let o := if csv <? 0 then None else Some csv in
  if confirmation_threshold_safe h k 0 o then confirmation_threshold h k 0 o else -1.
Fixpoint m_traj_go (w amt dust r : Z) (steps : list (Z * Z)) : list (list Z) :=
  match steps with
  | [] => []
  | (s, est) :: t =>
      match feerate_bump w amt dust r (strat_of s) (bnd est) with
      | Some (f', r') => [1; f'; r'] :: m_traj_go w amt dust r' t
      | None => [0; 0; 0] :: m_traj_go w amt dust r t
      end
  end.
Definition m_traj (c : Z * Z * Z * Z * list (Z * Z)) : list (list Z) :=
  let '(w, amt, dust, est0, steps) := c in
  match compute_fee_from_spent_amounts amt w (bnd est0) with
  | Some (f, r) => [1; f; r] :: m_traj_go w amt dust r steps
  | None => [[0; 0; 0]]
  end.
"""


def chunks(xs, n):
    return [xs[i:i + n] for i in range(0, len(xs), n)]


def tup(c):
    return "(" + ", ".join(str(x) for x in c) + ")"


def zs(v):
    return [int(x) for x in re.findall(r"-?\d+", v)]


def enc_impl2(s):
    if s == "PANIC":
        return [2, 0, 0]
    if s == "None":
        return [0, 0, 0]
    a, b = s.split()
    return [1, int(a), int(b)]


def enc_impl1(s):
    return -1 if s == "PANIC" else int(s)


def build_cases(ctx):
    rng = ctx.rng.fork("c07-functional")
    t = ctx.tier
    return {"fb": fb_cases(rng, t), "cs": cs_cases(rng, t), "cf": cf_cases(rng, t), "pf": pf_cases(rng, t),
            "ht": ht_cases(rng, t), "lt": lt_cases(rng, t), "thr": thr_cases(rng, t), "traj": traj_cases(rng, t)}


def run_impl(ctx, cs):
    lines = ["consts"]
    lines += ["fb %d %d %d %d %d %d" % c for c in cs["fb"]]
    lines += ["cs %d %d %d" % c for c in cs["cs"]]
    lines += ["cf %d %d" % c for c in cs["cf"]]
    lines += ["pf %d %d %d" % c for c in cs["pf"]]
    lines += ["ht %d %d %s" % (a, b, ins_str(i)) for a, b, i in cs["ht"]]
    lines += ["lt %d %s" % (a, ins_str(i)) for a, i in cs["lt"]]
    lines += ["thr %d %d %d" % c for c in cs["thr"]]
    lines += ["traj %d %d %d %d %s" % (w, a, d, e, ins_str(st)) for w, a, d, e, st in cs["traj"]]
    rc, out = ctx.run_bin("h_feebump", "\n".join(lines) + "\n")
    out = [l for l in out if l != ""]
    if rc != 0 or len(out) != len(lines):
        ctx.violation("harness h_feebump did not produce one result per case", {"broken": "correspondence:h_feebump", "rc": rc, "n_out": len(out), "n_in": len(lines), "tail": out[-5:]}, False)
        return None
    res = {"consts": dict((kv.split("=")[0], int(kv.split("=")[1])) for kv in out[0].split())}
    i = 1
    for k in ["fb", "cs", "cf", "pf", "ht", "lt", "thr", "traj"]:
        res[k] = out[i:i + len(cs[k])]
        i += len(cs[k])
    return res


def run_model(ctx, cs):
    exprs, idx = [], {}
    B = 300

    def add(key, f, items, render):
        idx[key] = []
        for ch in chunks(items, B):
            idx[key].append(len(exprs))
            exprs.append("map %s [%s]" % (f, "; ".join(render(c) for c in ch)))
    exprs.append("[LOW_FREQUENCY_BUMP_INTERVAL; MIDDLE_FREQUENCY_BUMP_INTERVAL; HIGH_FREQUENCY_BUMP_INTERVAL; FEERATE_FLOOR_SATS_PER_KW; INCREMENTAL_RELAY_FEE_SAT_PER_1000_WEIGHT; MIN_CLTV_EXPIRY_DELTA; ANTI_REORG_DELAY]")
    add("fb", "m_fb", cs["fb"], tup)
    add("cs", "m_cs", cs["cs"], tup)
    add("cf", "m_cf", cs["cf"], tup)
    add("pf", "m_pf", cs["pf"], tup)
    add("ht", "m_ht", cs["ht"], lambda c: "(%d, %d, %s)" % (c[0], c[1], ins_coq(c[2])))
    add("lt", "m_lt", cs["lt"], lambda c: "(%d, %s)" % (c[0], ins_coq(c[1])))
    add("thr", "m_thr", cs["thr"], tup)
    add("traj", "m_traj", cs["traj"], lambda c: "(%d, %d, %d, %d, [%s])" % (c[0], c[1], c[2], c[3], "; ".join("(%d, %d)" % s for s in c[4])))
    vals = ctx.coq_eval("corr_feebump", COQ_IMPORTS, exprs, prelude=PRELUDE, shards=min(16, len(exprs)))
    names = ["LOW_FREQUENCY_BUMP_INTERVAL", "MIDDLE_FREQUENCY_BUMP_INTERVAL", "HIGH_FREQUENCY_BUMP_INTERVAL", "FEERATE_FLOOR_SATS_PER_KW",
             "INCREMENTAL_RELAY_FEE_SAT_PER_1000_WEIGHT", "MIN_CLTV_EXPIRY_DELTA", "ANTI_REORG_DELAY"]
    res = {"consts": dict(zip(names, zs(vals[0])))}
    for k in ("fb", "cs"):
        flat = [z for i in idx[k] for z in zs(vals[i])]
        res[k] = [flat[j:j + 3] for j in range(0, len(flat), 3)]
    for k in ("cf", "pf", "ht", "lt", "thr"):
        res[k] = [z for i in idx[k] for z in zs(vals[i])]
    # traj: list of lists of triples per case: split on the top-level structure "[[a; b; c]; [..]]; [[...]]"
    res["traj"] = []
    for i in idx["traj"]:
        v = vals[i].strip()
        for m in re.finditer(r"\[(\[[^\[\]]*\](?:;\s*\[[^\[\]]*\])*)\]", v):
            res["traj"].append([zs(x) for x in re.findall(r"\[([^\[\]]*)\]", m.group(1))])
    return res


def traj_impl(s):
    out = []
    for tok in s.split():
        if tok == "None":
            out.append([0, 0, 0])
        else:
            f, r = tok.split("/")
            out.append([1, int(f), int(r)])
    return out


def diff(cs, impl, model):
    dis = []
    for n, v in model["consts"].items():
        if impl["consts"].get(n) != v:
            dis.append({"topic": "const", "name": n, "model": v, "impl": impl["consts"].get(n)})
    for k in ("fb", "cs"):
        for c, a, b in zip(cs[k], model[k], impl[k]):
            if a != enc_impl2(b):
                dis.append({"topic": k, "input": list(c), "model": a, "impl": b})
    for k in ("cf", "pf", "ht", "lt", "thr"):
        for c, a, b in zip(cs[k], model[k], impl[k]):
            if a != enc_impl1(b):
                dis.append({"topic": k, "input": json.loads(json.dumps(c)), "model": a, "impl": b})
    if len(model["traj"]) != len(cs["traj"]):
        dis.append({"topic": "traj", "error": "model produced %d trajectories for %d cases" % (len(model["traj"]), len(cs["traj"]))})
    for c, a, b in zip(cs["traj"], model["traj"], impl["traj"]):
        if b == "PANIC" or a != traj_impl(b):
            dis.append({"topic": "traj", "input": json.loads(json.dumps(c)), "model": a, "impl": b})
    return dis


# ----------------------------------------------------------------------------- judges on the implementation
W0, MAXW, MAXMONEY, MAXPW = 8, 4000000, 21 * 10 ** 14, 2 ** 63


def judge_arith(cs, impl):
    """C07's arithmetic statements evaluated on the IMPLEMENTATION's outputs only."""
    K = impl["consts"]
    INC, FL = K["INCREMENTAL_RELAY_FEE_SAT_PER_1000_WEIGHT"], K["FEERATE_FLOOR_SATS_PER_KW"]
    LOW, MID, HIGH, ARD, MCD = (K["LOW_FREQUENCY_BUMP_INTERVAL"], K["MIDDLE_FREQUENCY_BUMP_INTERVAL"], K["HIGH_FREQUENCY_BUMP_INTERVAL"],
                                K["ANTI_REORG_DELAY"], K["MIN_CLTV_EXPIRY_DELTA"])
    fails = []

    def check_bump(w, amt, dust, p, s, est, r, ctxinfo):
        if not (W0 <= w <= MAXW and amt <= MAXMONEY and dust < 2 ** 63 and p * w <= MAXPW):
            return
        if r == "PANIC":
            fails.append({"kind": "feerate_bump panics in range", "input": ctxinfo})
            return
        pf, mr = p * w // 1000, INC * w // 1000
        if r == "None":
            # "None only because the affordable feerate is under the floor or the output would be dust"
            sweep = max(est, FL)
            aff = min(sweep, min((amt // 2) * 1000 // w, U32 - 1))
            if aff < FL:
                return
            if s == 0 or (s == 1 and aff <= p):
                cand = None  # plain re-broadcast: never None
            elif aff > p:
                cand = aff * w // 1000
            else:
                cand = None if p // 4 == 0 else (p + p // 4) * w // 1000
            if cand is None or max(0, amt - max(cand, pf + mr)) >= dust:
                fails.append({"kind": "feerate_bump returned None although the feerate is above the floor and the output is not dust", "input": ctxinfo})
            return
        f2, r2 = [int(x) for x in r.split()]
        why = []
        if r2 < p:
            why.append("feerate decreased: %d < %d" % (r2, p))
        if not ((f2 == pf and r2 == p) or f2 >= pf + mr):
            why.append("replacement fee %d < previous fee %d + relay increment %d" % (f2, pf, mr))
        if not (f2 == pf and r2 == p) and max(0, amt - f2) < dust:
            why.append("output below dust")
        if s == 0 and not (f2 == pf and r2 == p):
            why.append("RetryPrevious changed the fee")
        if s == 2 and f2 < pf + mr:
            why.append("ForceBump did not bump")
        if why:
            fails.append({"kind": "feerate_bump: " + "; ".join(why), "input": ctxinfo, "impl": r})

    for (w, amt, dust, p, s, est), r in zip(cs["fb"], impl["fb"]):
        check_bump(w, amt, dust, p, s, est, r, {"cmd": "fb", "weight": w, "input_amounts": amt, "dust": dust, "previous_feerate": p, "strategy": s, "estimate": est})
        if len(fails) >= 3:
            break
    for (amt, w, est), r in zip(cs["cs"], impl["cs"]):
        if w == 0 or amt > MAXMONEY or r in ("None",):
            continue
        if r == "PANIC":
            fails.append({"kind": "compute_fee_from_spent_amounts panics in range", "input": {"cmd": "cs", "input_amounts": amt, "weight": w, "estimate": est}})
            continue
        f, rt = [int(x) for x in r.split()]
        if rt < FL or rt > max(est, FL) or f > amt // 2 or f != rt * w // 1000:
            fails.append({"kind": "first-broadcast fee outside [floor, estimate] or above half the claimed value", "input": {"cmd": "cs", "input_amounts": amt, "weight": w, "estimate": est}, "impl": r})
    for (w, amt, dust, est0, steps), r in zip(cs["traj"], impl["traj"]):
        if r == "PANIC":
            fails.append({"kind": "trajectory panics", "input": {"cmd": "traj", "weight": w, "input_amounts": amt, "dust": dust, "estimate0": est0, "steps": steps}})
            continue
        seq = [x for x in traj_impl(r) if x[0] == 1]
        for (a, b) in zip(seq, seq[1:]):
            slack = w // 1000 + 1
            okk = b[2] >= a[2] and ((b[2] == a[2] and a[1] - slack <= b[1] <= a[1]) or (b[1] >= a[1] + INC * w // 1000 - slack and b[1] > a[1]))
            if not okk:
                fails.append({"kind": "fee trajectory not monotone", "input": {"cmd": "traj", "weight": w, "input_amounts": amt, "dust": dust, "estimate0": est0, "steps": steps}, "impl": r, "pair": [a, b]})
                break
    for (prev, s, est), r in zip(cs["pf"], impl["pf"]):
        if max(est, FL) * 5 >= U32:
            continue
        if r == "PANIC":
            fails.append({"kind": "compute_package_feerate panics in range", "input": {"cmd": "pf", "prev": prev, "strategy": s, "estimate": est}})
            continue
        v = int(r)
        if (prev != 0 and v < min(prev, U32 - 1)) or (prev == 0 and v != max(est, FL)):
            fails.append({"kind": "package feerate decreased", "input": {"cmd": "pf", "prev": prev, "strategy": s, "estimate": est}, "impl": r})
    for (csh, cur, ins), r in zip(cs["ht"], impl["ht"]):
        if cur + LOW >= U32 or any(k in (4, 5) and e + MCD >= U32 for k, e in ins):
            continue
        if r == "PANIC":
            fails.append({"kind": "get_height_timer panics in range", "input": {"cmd": "ht", "csh": csh, "cur": cur, "inputs": ins}})
            continue
        v = int(r)
        why = []
        if not (cur < v <= cur + LOW):
            why.append("timer not in (cur, cur+LOW]")
        for k, e in ins:
            t = {0: csh, 2: e, 3: csh, 4: e + MCD, 5: e + MCD}.get(k)
            if k == 6 and v != cur + HIGH:
                why.append("funding output not bumped every block")
            if t is not None and t <= cur + MID and v != cur + HIGH:
                why.append("deadline %d within MIDDLE interval but timer %d" % (t, v))
            if t is not None and t <= cur + LOW and v > cur + MID:
                why.append("deadline %d within LOW interval but timer %d" % (t, v))
        if why:
            fails.append({"kind": "get_height_timer: " + "; ".join(why[:2]), "input": {"cmd": "ht", "csh": csh, "cur": cur, "inputs": ins}, "impl": r})
    for (h, kind, csv), r in zip(cs["thr"], impl["thr"]):
        if r == "PANIC":
            continue
        if int(r) < h + ARD - 1 or (kind != 0 and csv >= 0 and int(r) < h + csv - 1):
            fails.append({"kind": "confirmation_threshold below anti-reorg depth / CSV", "input": {"cmd": "thr", "height": h, "kind": kind, "csv": csv}, "impl": r})
    return fails


MODEL_TARGETS = ["Model/PackageTimer.vo", "Model/OnchainClaims.vo", "Gen/PackageFeerate.vo", "Gen/CltvChecks.vo"]


def _with_retry(ctx, fn):
    """coq_eval reads the shared coq/Gen/*.vo outside the build lock; if another check regenerates or
    rebuilds them in between (concurrent development only), rebuild once and retry."""
    try:
        return fn()
    except RuntimeError as ex:
        msg = str(ex)
        if "Cannot find library" not in msg and "inconsistent assumptions" not in msg and "is not a valid" not in msg:
            raise
        ctx.log("shared Gen/*.vo changed under us; regenerating and retrying once")
        generate(ctx)
        ctx.coq_make(MODEL_TARGETS)
        return fn()


def run(ctx):
    ok_build, out = ctx.build_harness(BINS)
    if not ok_build:
        ctx.violation("harness does not build against the current tree", {"broken": "harness-build", "log_tail": out[-3000:]}, False)
        ctx.write_evidence(LEVEL)
        return
    gen_err = None
    try:
        generate(ctx)
        if ctx.gen_errors:
            gen_err = json.dumps(ctx.gen_errors)
    except Exception as ex:
        gen_err = repr(ex)
    proved, okm = False, False
    if gen_err is None:
        okm, outm = ctx.coq_make(MODEL_TARGETS)
        if not okm:
            ctx.log("model build failed:", outm[-1500:])
        proved = ctx.prove("C07")
    else:
        ctx.log("generation refused:", gen_err)
        ctx.obligations.append(("rs2v-generation", False, gen_err))
    ctx.trusted_base += [
        "Coq 8.16.1 kernel + vm_compute (no native_compute)",
        "tools/rs2v (Gen/Package.v, Gen/CltvChecks.v, Gen/Consts.v, Gen/PackageFeerate.v regenerated from the Rust source every run; rewrites listed in the generated comments)",
        "Model/PackageTimer.v (hand transliteration of the input walks of get_height_timer/package_locktime), tied by functional correspondence through lightning feature _verif_hooks",
        "Model/OnchainClaims.v (hand model of claim requests, event maturation and get_claimable_balances after a unilateral close), tied by per-block trace correspondence with real monitors (h_onchain)",
        "harness crate /verif/harness (h_feebump" + (", h_onchain" if "h_onchain" in BINS else "") + "), LDK functional_test_utils, bitcoinconsensus",
    ]
    ctx.assumptions += ["fee-bump range: 8 <= weight <= 4e6, claimed value <= 21e6 BTC, previous_feerate*weight <= 2^63 (invariant of trajectories with dust limit > 0)",
                        "hooks run the same private functions the library calls"]
    cs = build_cases(ctx)
    impl = run_impl(ctx, cs)
    dis = None
    if impl is not None and okm:
        try:
            model = _with_retry(ctx, lambda: run_model(ctx, cs))
            dis = diff(cs, impl, model)
        except RuntimeError as ex:
            dis = [{"topic": "model-eval", "error": str(ex)[-800:]}]
    judged = judge_arith(cs, impl) if impl is not None else []
    n_func = sum(len(v) for v in cs.values())
    ctx.coverage["functional_cases"] = dict((k, len(v)) for k, v in cs.items())
    if impl is not None:
        hist = {"Some": 0, "None": 0, "PANIC": 0}
        for r in impl["fb"]:
            hist["PANIC" if r == "PANIC" else "None" if r == "None" else "Some"] += 1
        ctx.coverage["feerate_bump_result_histogram"] = hist
        ctx.coverage["rebroadcast_rounding_witness_on_impl"] = impl["traj"][0]
        ctx.samples.append({"traj_case": json.loads(json.dumps(cs["traj"][0])), "impl": impl["traj"][0]})
        ctx.samples.append({"fb_case": list(cs["fb"][len(cs["fb"]) // 2]), "impl": impl["fb"][len(cs["fb"]) // 2]})
        if impl["traj"][0] != "600/500 903/752 902/752 2400/2000":
            dis = (dis or []) + [{"topic": "refuted-witness", "expected": "600/500 903/752 902/752 2400/2000", "impl": impl["traj"][0]}]
    # ---- layer 2/3 (trace harness) is added by onchain() when the binary exists
    trace_fails, n_trace = [], 0
    if "h_onchain" in BINS:
        from props.c07 import onchain
        trace_fails, n_trace, recs = onchain.run(ctx)
        if okm and proved:
            try:
                mdis, ncases, nobs = _with_retry(ctx, lambda: onchain.model_correspondence(ctx, recs, 100 if ctx.tier == "quick" else 1500))
            except RuntimeError as ex:
                mdis, ncases, nobs = [{"error": str(ex)[-800:]}], 0, 0
            ctx.coverage["onchain_model_traces"] = {"node_traces": ncases, "observations": nobs}
            if mdis:
                dis = (dis or []) + [dict(d, topic="onchain-model-trace") for d in mdis[:5]]
    ctx.coverage["evaluations"] = n_func + n_trace
    ctx.coverage["distinct_nontrivial"] = n_func + n_trace
    ctx.coverage["rule"] = ("functional: distinct (set) boundary cross products + seeded random inputs per function, trajectories of 1-12 bumps; "
                            "trace: one real closed channel per generated scenario, non-trivial = at least one claim transaction broadcast")
    ctx.coverage["translated_items"] = getattr(ctx, "gen_meta", [])
    # ---- decide (DESIGN.md section 9)
    broken = []
    if not proved:
        broken.append({"obligation": "Coq proof of Props/C07.v", "detail": getattr(ctx, "proof_failure", {"where": gen_err})})
    if dis:
        broken.append({"correspondence": "h_feebump vs Gen/Package.v, Gen/PackageFeerate.v, Model/PackageTimer.v", "first_disagreements": dis[:5], "n": len(dis)})
    for f in trace_fails[:3]:
        ctx.violation("closed-channel scenario violates C07: " + f.get("why", ""), {"broken": "trace judge", "scenario": f, "replay_cmd": f.get("replay_cmd", "")}, True,
                      key=f.get("key"))
    if judged:
        ctx.violation("C07 arithmetic fails on the implementation: " + judged[0]["kind"],
                      {"broken": broken or "implementation judge", "failing_input": judged[0], "more": judged[1:3],
                       "replay_cmd": "printf '<cmd line>' | %s" % ctx.bin_path("h_feebump")}, True)
    elif broken and not trace_fails:
        ctx.violation("C07 no longer shown: " + ("proof" if not proved else "correspondence") + " broken",
                      {"broken": broken, "search": "property predicates on %d implementation outputs (boundary + random) and %d closed-channel scenarios found no failing input" % (n_func, n_trace)}, False)
    ctx.write_evidence(LEVEL)


def replay(ctx, rep):
    print(json.dumps(rep, indent=1))
    fi = rep.get("failing_input") or {}
    inp = fi.get("input") or {}
    if inp.get("cmd") and os.path.exists(ctx.bin_path("h_feebump")):
        c = inp["cmd"]
        if c == "fb":
            line = "fb %d %d %d %d %d %d" % (inp["weight"], inp["input_amounts"], inp["dust"], inp["previous_feerate"], inp["strategy"], inp["estimate"])
        elif c == "traj":
            line = "traj %d %d %d %d %s" % (inp["weight"], inp["input_amounts"], inp["dust"], inp["estimate0"], ins_str([tuple(s) for s in inp["steps"]]))
        else:
            line = None
        if line:
            rc, out = ctx.run_bin("h_feebump", line + "\n")
            print("replay on implementation:", line, "->", [l for l in out if l])
    sc = rep.get("scenario")
    if sc and "h_onchain" in BINS and os.path.exists(ctx.bin_path("h_onchain")):
        from props.c07 import onchain
        return onchain.replay(ctx, sc)
    return 0
