"""C14 — Onions deliver exactly each hop's instructions; failures name the right hop.

Coq: Sphinx construction/peeling, failure packets and attribution data modelled parametric in the
stream cipher / MAC / payload codec (Model/Sphinx.v, Model/OnionFail.v), theorems by induction over
the hop list (Proofs/C14*.v), instantiated with the Gallina ChaCha20 / HMAC-SHA256
(Model/SphinxInst.v).  Tie: harness `h_onion` runs the real `create_payment_onion`,
`peel_payment_onion`, `construct_onion_packet_with_init_noise`, `decode_next_hop`,
`build_failure_packet`, `process_failure_packet`, `process_onion_failure_inner`,
`process_fulfill_attribution_data`, `decode_fulfill_attribution_data`; the instantiated model must
reproduce every packet BYTE FOR BYTE.  The judge (in the harness, on implementation outputs only)
evaluates the property text itself."""
import hashlib
import json
import os
import re

from vlib import core

BINS = ["h_onion"]
LEVEL = "proof"
MANIFEST = {
    "category": "proof",
    "text": "Coq theorems (any packet size, any stream cipher/MAC/self-delimiting payload codec, unbounded hop lists by induction with the filler invariant): build/peel delivery, constant packet size, final marker, build fails iff the route does not fit, HMAC binding and tamper rejection, failure attribution to the failing hop, hold times of fulfil and failure attribution data (the shift/prune index bookkeeping is proved content-independent and its tables are decided by computation); model instantiated with Gallina ChaCha20/HMAC-SHA256 reproduces the real packets byte for byte; implementation-side judge on real onions.",
    "note": "Trusted: Coq kernel + vm_compute, harness + hooks, hand transliteration tied by byte-exact correspondence. Stated hypotheses: no intermediate HMAC is all-zero, no spurious HMAC match at an earlier hop (each 2^-256), HMAC collision-freeness for tamper rejection; secp256k1/ECDH outside the model (validated on the implementation).",
    "technique": "machine-checked proof in Coq (induction over hop lists) + byte-exact differential correspondence + executable judge on the implementation",
}

IMPORTS = ["LdkV.Model.SphinxInst"]
PAY_IMPORTS = ["LdkV.Model.SphinxInst", "LdkV.Model.OnionPayload"]
GUARD_CFG = os.path.join(core.VERIF, "tools", "props", "c14", "C14Guards.json")
KEYSEND_TLV = 5482373484
INVREQ_TLV = 77777
FAIL_DATA_MAX = 65535 - 2 - 42 - 924  # largest failure packet data that still fits with attribution data


def generate(ctx):
    """rs2v: the guards / index arithmetic / constants of onion_utils.rs that the model transliterates
    (anchored expressions), regenerated on every run into Gen/C14Guards.v; Proofs/C14Gen.v ties them to the model."""
    from rs2v import rs2v as R
    with core.Lock("rs2v-gen"):
        text, meta = R.translate_with_meta(json.load(open(GUARD_CFG)), repo=core.REPO, config_dir=os.path.dirname(GUARD_CFG))
        core.write_if_changed(os.path.join(core.COQ, "Gen", "C14Guards.v"), text)
    ctx.gen_meta = meta
    return meta

PRELUDE = "From Coq Require Import String List ZArith.\nImport ListNotations.\nOpen Scope string_scope.\nOpen Scope Z_scope.\n"
ONION_LEN = 1300
MAX_VALUE_MSAT = 21_000_000 * 100_000_000 * 1000


def hx(tag, *parts):
    return hashlib.sha256(("/".join([tag] + [str(p) for p in parts])).encode()).hexdigest()


def rbytes(rng, n):
    out = bytearray()
    while len(out) < n:
        out += rng.next().to_bytes(8, "big")
    return bytes(out[:n]).hex()


# ----------------------------------------------------------------------------- case generators
def gen_pay(rng, cid, n, opts=None):
    """One payment-onion case. opts: dict(meta_len, tlvs=[(type,len)], keysend, secret, small)."""
    o = dict(meta_len=None, tlvs=[], keysend=False, secret=True, small=False, tiny=False, tamper="-", tstep=1)
    o.update(opts or {})
    height = rng.choice([rng.range(100, 250), rng.range(70000, 900000), 499990000 - rng.below(1000)]) if not o["small"] else rng.range(1, 200)
    final_delta = rng.range(42, 90)
    slack = max(0, (2016 - final_delta - 48 * (n - 1)) // max(1, n - 1) - 1)
    hops = []
    budget = MAX_VALUE_MSAT // 2
    for i in range(n):
        seed = hx("node", cid, i)
        scid = rng.choice([rng.below(2 ** 64), rng.below(2 ** 24), (rng.range(1, 900000) << 40) | (rng.below(5000) << 16) | rng.below(4)]) or 1
        mag = rng.choice([1, 2 ** 8, 2 ** 16, 2 ** 24, 2 ** 32, 2 ** 40, 2 ** 48]) if not o["small"] else rng.choice([1, 200])
        fee = min(rng.below(mag * 255) + (1 if i == n - 1 else 0), budget // (n + 1))
        delta = final_delta if i == n - 1 else 48 + rng.below(min(slack, 60) + 1)
        if o["tiny"]:  # the smallest payloads there are: the longest route that fits
            fee = 1 if i == n - 1 else 0
            delta = 42 if i == n - 1 else 48
        hops.append("%s:%d:%d:%d" % (seed, scid, fee, delta))
    final_value = int(hops[-1].split(":")[2])
    total = final_value if (rng.chance(2, 3) or o["tiny"]) else final_value + rng.below(10 ** 6)
    if o["tiny"]:
        height = 1
    meta = "-" if o["meta_len"] is None else rbytes(rng, o["meta_len"])
    if o["meta_len"] == 0:
        meta = "-"
    tlvs = "-"
    if o["tlvs"]:
        ts = sorted(set(t for t, _ in o["tlvs"]))
        lens = dict(o["tlvs"])
        tlvs = ";".join("%d:%s" % (t, rbytes(rng, lens[t])) for t in ts)
    preimage = hx("preimage", cid)
    if o["keysend"]:
        phash = hashlib.sha256(bytes.fromhex(preimage)).hexdigest()
    else:
        phash = hx("hash", cid)
    secret = hx("secret", cid) if o["secret"] else "-"
    line = "pay sess=%s prng=%s hash=%s height=%d hops=%s secret=%s total=%d meta=%s tlvs=%s keysend=%s tamper=%s tstep=%d" % (
        hx("sess", cid), hx("prng", cid), phash, height, ",".join(hops), secret, total, meta, tlvs,
        preimage if o["keysend"] else "-", o["tamper"], o["tstep"])
    return line


def bigsize(n):
    if n < 253:
        return bytes([n])
    if n < 65536:
        return b"\xfd" + n.to_bytes(2, "big")
    if n < 2 ** 32:
        return b"\xfe" + n.to_bytes(4, "big")
    return b"\xff" + n.to_bytes(8, "big")


def strip_frame(payload_hex):
    b = bytes.fromhex(payload_hex)
    if b[0] < 253:
        pre = 1
        ln = b[0]
    elif b[0] == 253:
        pre = 3
        ln = int.from_bytes(b[1:3], "big")
    else:
        raise ValueError("payload longer than 64 KiB in an onion")
    if ln != len(b) - pre:
        raise ValueError("payload is not BigSize-length-prefixed")
    return b[pre:].hex()


def gen_raw(rng, cid, N, sizes, ad=True):
    """Raw Sphinx packet of N bytes; sizes: content length per hop."""
    hops = []
    for i, s in enumerate(sizes):
        content = bytes.fromhex(rbytes(rng, s)) if s else b""
        hops.append("%s:%s" % (hx("rawss", cid, i), (bigsize(len(content)) + content).hex()))
    return "raw noise=%s ad=%s hops=%s" % (rbytes(rng, N) if N else "", hx("rawad", cid) if ad else "-", ",".join(hops) if hops else "-")


def path_hops(cid, n):
    return ",".join("%s:%d" % (hx("node", cid, i), 7000 + i) for i in range(n))


def gen_fail(rng, cid, n, at, code, dlen, tstep=0):
    holds = [rng.choice([0, 1, rng.below(100), rng.below(2 ** 32), 2 ** 32 - 1]) for _ in range(at + 1)]
    return "fail sess=%s hops=%s at=%d code=%d data=%s holds=%s tstep=%d" % (
        hx("sess", cid), path_hops(cid, n), at, code, rbytes(rng, dlen) if dlen else "", ",".join(map(str, holds)), tstep)


def gen_fulfill(rng, cid, n):
    holds = [rng.choice([0, 1, rng.below(100), rng.below(2 ** 32), 2 ** 32 - 1]) for _ in range(n)]
    return "fulfill sess=%s hops=%s holds=%s" % (hx("sess", cid), path_hops(cid, n), ",".join(map(str, holds)))


CODES = [0x2002, 0x4000 | 0x2000 | 2, 0x8000 | 0x4000 | 5, 0x1000 | 7, 0x4000 | 8, 0x4000 | 10, 0x1000 | 12, 0x4000 | 15, 18, 19, 21, 23,
         0x4000 | 22, 0x2000 | 25, 0, 1, 0x3fff, 0xffff, 0x8000 | 0x4000 | 24]


def kvs(line):
    return dict(t.split("=", 1) for t in line.split()[1:])


# ----------------------------------------------------------------------------- model expressions
def coq_hops(sss, contents):
    return "[" + "; ".join('("%s", "%s")' % (s, c) for s, c in zip(sss, contents)) + "]"


def strs(v):
    return re.findall(r'"([^"]*)"', v)


def ints_after(v, marker):
    tail = v[v.rindex(marker) + len(marker):]
    return [int(x) for x in re.findall(r"-?\d+", tail)]


class Run:
    def __init__(self, ctx):
        self.ctx = ctx
        self.judge_fails = []   # (line, [reasons])
        self.disagree = []      # dicts
        self.n_model = 0
        self.n_impl = 0
        self.hist = {}
        self.crash = None

    def bump(self, k, n=1):
        self.hist[k] = self.hist.get(k, 0) + n

    def impl(self, lines, timeout=1500, release=False):
        if not lines:
            return []
        rc, out = self.ctx.run_bin("h_onion", "\n".join(lines) + "\n", timeout=timeout, release=release)
        out = [l for l in out if l.strip()]
        res = []
        if rc != 0 or len(out) != len(lines):
            self.crash = {"rc": rc, "n_out": len(out), "n_in": len(lines), "tail": out[-3:]}
            return None
        for l, o in zip(lines, out):
            if o == "PANIC":
                self.judge_fails.append((l, ["the implementation panicked"]))
                res.append(None)
                continue
            j = json.loads(o)
            res.append(j)
            if j.get("judge"):
                self.judge_fails.append((l, j["judge"]))
        self.n_impl += len(lines)
        return res


def run_pay_family(R, rng, tier, with_model):
    """Payment onions: judge on many, model comparison on a few."""
    ctx = R.ctx
    lines = []
    model_idx = []
    cid = 0
    # (a) model-compared cases: 1..5 hops (quick), more in thorough
    mc = [(1, dict(meta_len=5)), (2, dict(tlvs=[(65537, 3), (70001, 40)])), (3, dict(keysend=True)),
          (4, dict(meta_len=300, tlvs=[(2 ** 32 + 1, 7)])), (5, dict(small=True))]
    if tier != "quick":
        mc += [(n, dict(meta_len=rng.below(60), small=rng.chance(1, 2))) for n in (6, 8, 11, 14, 17, 20, 23, 25)]
        mc += [(2, dict(meta_len=1100)), (3, dict(meta_len=1000, tlvs=[(65537, 100)])), (1, dict(meta_len=1180))]
    for n, o in mc:
        model_idx.append(len(lines))
        lines.append(gen_pay(rng.fork("paym%d" % cid), "pm%d" % cid, n, o))
        cid += 1
    # (b) judge-only: all lengths, boundary-sized recipients, full single-bit tamper sweeps
    # the longest routes that fit (25 hops with one-byte amounts), and the first that does not
    for n in (24, 25, 26, 27):
        lines.append(gen_pay(rng.fork("payt%d" % n), "pt%d" % n, n, dict(tiny=True)))
    if tier != "quick":
        model_idx.append(len(lines) - 3)
    njudge = 40 if tier == "quick" else 600
    for k in range(njudge):
        r = rng.fork("payj%d" % k)
        n = r.choice([1, 2, 3, 5, 8, 13, 19, 20, 21, 22, 23, 24, 25, 26, 27, r.range(1, 27)])
        o = dict(small=r.chance(1, 2), keysend=r.chance(1, 6), secret=True)
        if r.chance(1, 2):
            o["meta_len"] = r.choice([1, 2, 250, 251, 252, 253, 254, 300, r.below(1200)])
        if r.chance(1, 3):
            o["tlvs"] = [(65536 + r.below(10 ** 6) * 2 + 1, r.below(80)) for _ in range(r.range(1, 3))]
        if k < (2 if tier == "quick" else 12):
            # full single-bit sweep (version, ephemeral key, hop data, HMAC, payment hash) at first / middle / last hop
            n = [3, 7, 1, 20, 12, 2][k % 6]
            o = dict(small=(k % 2 == 1), keysend=(k % 5 == 4), secret=True)
            o["tamper"] = ",".join(str(x) for x in sorted(set([0, n // 2, n - 1])))
            o["tstep"] = 1
        elif r.chance(1, 3):
            o["tamper"] = str(r.below(n))
            o["tstep"] = 53
        lines.append(gen_pay(r, "pj%d" % k, n, o))
    res = R.impl(lines)
    if res is None:
        return
    # (c) second pass: recipients sized to land exactly on / one over / one under the packet size
    lines2 = []
    for k, (l, j) in enumerate(zip(lines, res)):
        if j is None or "payload_total" not in j or len(lines2) >= (12 if tier == "quick" else 120):
            continue
        a = kvs(l)
        if a["meta"] != "-" or j["payload_total"] == 0:
            continue
        room = ONION_LEN - j["payload_total"]
        for target in (room - 4, room - 3, room - 2, room - 1, room):
            # metadata of length L adds 1 (type) + bigsize(L) + L and may widen the outer length prefix
            for L in (target - 2, target - 4, target - 6):
                if L > 0:
                    lines2.append(l.replace(" meta=- ", " meta=%s " % rbytes(rng.fork("m%d/%d" % (k, L)), L)))
    lines2 = sorted(set(lines2))[: (40 if tier == "quick" else 400)]
    res2 = R.impl(lines2) or []
    totals = {}
    for j in res + res2:
        if j and "payload_total" in j:
            key = "fit" if j["built"] else "too_long"
            R.bump("pay_" + key)
            d = j["payload_total"] - ONION_LEN
            if -3 <= d <= 3:
                totals[d] = totals.get(d, 0) + 1
            if j["built"]:
                R.bump("pay_hops_%02d" % len(j["peels"]))
                for t in j["tamper"]:
                    R.bump("pay_tamper_bits", t["tried"])
    ctx.coverage["pay_payload_total_minus_1300_near_boundary"] = totals
    # model comparison
    if with_model:
        exprs, refs = [], []
        for i in model_idx:
            j = res[i]
            if not j or not j.get("built"):
                continue
            a = kvs(lines[i])
            try:
                contents = [strip_frame(p) for p in j["payloads"]]
            except ValueError as ex:
                R.disagree.append({"topic": "payload framing", "input": lines[i], "why": str(ex)})
                continue
            sss = [k["ss"] for k in j["keys"]]
            exprs.append('show_build_and_peel 1300 "%s" %s "%s"' % (a["prng"], coq_hops(sss, contents), a["hash"]))
            refs.append((lines[i], j))
        # corrupted packets on the model side (sample): the next hop must report the HMAC error
        tam = []
        if refs:
            l0, j0 = refs[min(2, len(refs) - 1)]
            a0 = kvs(l0)
            data, mac = j0["packet"].split(":")
            for bit in [0, 7, 8 * 649 + 3, 8 * 1299 + 7]:
                b = bytearray(bytes.fromhex(data))
                b[bit // 8] ^= 1 << (bit % 8)
                tam.append((j0["keys"][0]["ss"], a0["hash"], b.hex(), mac))
            m = bytearray(bytes.fromhex(mac))
            m[31] ^= 0x80
            tam.append((j0["keys"][0]["ss"], a0["hash"], data, m.hex()))
            h = bytearray(bytes.fromhex(a0["hash"]))
            h[0] ^= 1
            tam.append((j0["keys"][0]["ss"], h.hex(), data, mac))
            tam.append((j0["keys"][0]["ss"], a0["hash"], data, mac))  # untouched: must peel
        tam_lines = ["peel ss=%s ad=%s data=%s hmac=%s" % t for t in tam]
        tam_impl = R.impl(tam_lines) or []
        for t in tam:
            exprs.append('show_peel "%s" "%s" "%s" "%s"' % t)
        vals = ctx.coq_eval("c14_pay", IMPORTS, exprs, prelude=PRELUDE, shards=min(16, max(1, len(exprs))), timeout=1500)
        for (l, j), v in zip(refs, vals[: len(refs)]):
            got = strs(v)
            want = [j["packet"]]
            for p in j["peels"]:
                raw = p["raw"]
                if "err" in raw:
                    want.append("E:" + raw["err"])
                elif raw["next"] is None:
                    want.append("F:" + raw["payload"])
                else:
                    want.append("N:%s:%s" % (raw["payload"], raw["next"]))
            R.n_model += 1
            R.bump("model_pay_hops", len(j["peels"]))
            if got != want:
                first = next((k for k, (x, y) in enumerate(zip(got, want)) if x != y), min(len(got), len(want)))
                R.disagree.append({"topic": "payment onion: packet / per-hop peel", "input": l, "first_difference_at": "packet" if first == 0 else "peel of hop %d" % (first - 1),
                                   "model": (got[first][:160] if first < len(got) else None), "impl": (want[first][:160] if first < len(want) else None)})
        for t, ji, v in zip(tam, tam_impl, vals[len(refs):]):
            got = strs(v)
            R.n_model += 1
            R.bump("model_tamper")
            if not ji or got != [ji["res"]]:
                R.disagree.append({"topic": "peel of a corrupted packet", "input": "peel ss=%s ad=%s data=%s.. hmac=%s" % (t[0], t[1], t[2][:32], t[3]),
                                   "model": got[0][:100] if got else None, "impl": (ji or {}).get("res", "")[:100]})
        if refs:
            l, j = refs[0]
            ctx.samples.append({"pay_case": l[:300], "packet_prefix": j["packet"][:64], "hops": len(j["peels"]), "model_equal": True})


def run_raw_family(R, rng, tier, with_model):
    ctx = R.ctx
    lines = []
    k = 0
    shapes = []
    # boundary: sum == N, N+1, N-1; single hop; empty route; zero-length payloads; payload length 252/253 (prefix widens)
    for N, sizes in [(64, [31]), (64, [32]), (64, [30]), (100, [10, 23]), (100, [10, 24]), (100, [10, 22]), (33, [0]), (32, [0]), (34, [0]),
                     (0, []), (40, []), (400, [252, 40]), (400, [253, 40]), (700, [0, 0, 0, 0, 0, 0, 0, 0]), (264, [0] * 8), (263, [0] * 8),
                     (300, [5, 50, 5, 50]), (1300, [18, 18, 42])]:
        shapes.append((N, sizes))
    nrand = 40 if tier == "quick" else 500
    for i in range(nrand):
        r = rng.fork("rawshape%d" % i)
        n = r.range(1, 7)
        sizes = [r.choice([0, 1, 5, r.below(60), r.below(300)]) for _ in range(n)]
        need = sum(len(bigsize(s)) + s + 32 for s in sizes)
        N = max(0, need + r.choice([0, 0, 1, -1, 2, r.below(200), -r.below(40)]))
        shapes.append((N, sizes))
    for N, sizes in shapes:
        lines.append(gen_raw(rng.fork("raw%d" % k), "r%d" % k, N, sizes, ad=(k % 5 != 4)))
        k += 1
    res = R.impl(lines)
    if res is None:
        return
    for j in res:
        if j:
            R.bump("raw_built" if j["built"] else "raw_refused")
    if not with_model:
        return
    exprs = []
    for l in lines:
        a = kvs(l)
        hops = [] if a["hops"] == "-" else [h.split(":") for h in a["hops"].split(",")]
        exprs.append('show_raw "%s" %s "%s"' % (a["noise"], coq_hops([h[0] for h in hops], [strip_frame(h[1]) for h in hops]), "" if a["ad"] == "-" else a["ad"]))
    vals = ctx.coq_eval("c14_raw", IMPORTS, exprs, prelude=PRELUDE, shards=16, timeout=1500)
    for l, j, v in zip(lines, res, vals):
        if j is None:
            continue
        got = strs(v)
        want = ["ERR"] if not j["built"] else [j["packet"]] + j["peels"]
        R.n_model += 1
        R.bump("model_raw")
        if got != want:
            first = next((k for k, (x, y) in enumerate(zip(got, want)) if x != y), min(len(got), len(want)))
            R.disagree.append({"topic": "raw Sphinx packet: construction / peel", "input": l[:600], "first_difference_at": first,
                               "model": got[first][:160] if first < len(got) else None, "impl": want[first][:160] if first < len(want) else None})


def run_fail_family(R, rng, tier, with_model):
    ctx = R.ctx
    lines, model_idx = [], []
    k = 0
    # model-compared: every failing position of short paths, a code / data-length grid
    grid = [(1, 0, 0x400f, 12), (2, 0, 0x2002, 0), (2, 1, 0x1007, 140), (3, 0, 0x100c, 10), (3, 1, 0xc005, 32), (3, 2, 0x400f, 12), (4, 3, 19, 8), (5, 2, 0xffff, 300)]
    if tier != "quick":
        grid += [(n, at, rng.choice(CODES), rng.choice([0, 1, 253, 254, 255, 256, 1000])) for n in (6, 9, 20, 21, 24) for at in sorted(set([0, n // 2, n - 1, min(19, n - 1), min(20, n - 1)]))]
        grid += [(20, at, 0x2002, 4) for at in range(0, 20, 3)]
    for n, at, code, dl in grid:
        model_idx.append(len(lines))
        lines.append(gen_fail(rng.fork("failm%d" % k), "fm%d" % k, n, at, code, dl, tstep=0))
        k += 1
    # judge-only: every failing position x code x data length
    lens = [1, 2, 3, 5, 8, 13, 20, 21, 24, 27] if tier == "quick" else list(range(1, 28))
    dls = [0, 2, 252, 253, 254, 255, 256, 257, 600] if tier == "quick" else [0, 1, 2, 12, 100, 250, 251, 252, 253, 254, 255, 256, 257, 258, 600, 4000, 30000]
    for n in lens:
        for at in range(n):
            picks = [(CODES[(at + n + q) % len(CODES)], dls[(at * 3 + n + q) % len(dls)]) for q in range(2 if tier == "quick" else 6)]
            for code, dl in picks:
                lines.append(gen_fail(rng.fork("failj%d" % k), "fj%d" % k, n, at, code, dl, tstep=(97 if (at + n) % 7 == 0 else 0)))
                k += 1
    res = R.impl(lines)
    if res is None:
        return
    for l, j in zip(lines, res):
        if j:
            R.bump("fail_cases")
            R.bump("fail_tampered_packets", j["tampered"])
    ctx.coverage["fail_path_lengths"] = lens
    if not with_model:
        return
    exprs, refs = [], []
    # the shared secrets come from the implementation (secp256k1 is not modelled)
    keylines = ["keys sess=%s hops=%s" % (kvs(lines[i])["sess"], kvs(lines[i])["hops"]) for i in model_idx]
    kres = R.impl(keylines)
    if kres is None:
        return
    dec_lines = []
    for i, kj in zip(model_idx, kres):
        a = kvs(lines[i])
        sss = kj["ss"]
        exprs.append('show_failure [%s] %s %s "%s" [%s]' % ("; ".join('"%s"' % s for s in sss), a["at"], a["code"], a["data"], "; ".join(a["holds"].split(","))))
        refs.append((lines[i], res[i], sss))
    # corrupted failure packets, model and implementation (sample)
    for (l, j, sss) in refs[:3]:
        a = kvs(l)
        data, attr = j["stages"][-1].split(":")
        for bit in (5, 8 * 40 + 1):
            b = bytearray(bytes.fromhex(data))
            b[bit // 8] ^= 1 << (bit % 8)
            dec_lines.append(("decode sess=%s hops=%s data=%s attr=%s" % (a["sess"], a["hops"], b.hex(), attr), sss, b.hex(), attr))
        if attr != "-":
            b = bytearray(bytes.fromhex(attr))
            b[3] ^= 1
            dec_lines.append(("decode sess=%s hops=%s data=%s attr=%s" % (a["sess"], a["hops"], data, b.hex()), sss, data, b.hex()))
            dec_lines.append(("decode sess=%s hops=%s data=%s attr=-" % (a["sess"], a["hops"], data), sss, data, "-"))
    dres = R.impl([d[0] for d in dec_lines]) or []
    for d in dec_lines:
        exprs.append('show_decode [%s] "%s" "%s"' % ("; ".join('"%s"' % s for s in d[1]), d[2], d[3]))
    vals = ctx.coq_eval("c14_fail", IMPORTS, exprs, prelude=PRELUDE, shards=min(16, max(1, len(exprs))), timeout=1700)
    for (l, j, sss), v in zip(refs, vals[: len(refs)]):
        cut = v.rindex('("')
        got_stages = strs(v[:cut])
        got_kind = strs(v[cut:])[0]
        got_nums = ints_after(v, got_kind + '"')
        d = j["decoded"]
        want_kind = ("hop:" + (d["data"] or "")) if d["code"] is not None and not d["unattributed"] else ("nomatch:" if d["unattributed"] else "?")
        want_nums = [d["hop"] if d["hop"] is not None else -1, d["code"] if d["code"] is not None else -1] + d["hold_times"]
        R.n_model += 1
        R.bump("model_fail_stages", len(j["stages"]))
        if got_stages != j["stages"]:
            first = next((k for k, (x, y) in enumerate(zip(got_stages, j["stages"])) if x != y), 0)
            which = "failure data" if got_stages[first].split(":")[0] != j["stages"][first].split(":")[0] else "attribution data"
            R.disagree.append({"topic": "failure packet on the way back", "input": l, "stage": first, "differs_in": which,
                               "model": got_stages[first][:120], "impl": j["stages"][first][:120]})
        elif (got_kind, got_nums) != (want_kind, want_nums):
            R.disagree.append({"topic": "sender's decoding of a failure", "input": l, "model": [got_kind, got_nums], "impl": [want_kind, want_nums]})
    for dl, jd, v in zip(dec_lines, dres, vals[len(refs):]):
        kind = strs(v)[0]
        nums = ints_after(v, kind + '"')
        d = jd["decoded"]
        R.n_model += 1
        R.bump("model_fail_corrupted")
        ok = (kind.startswith("nomatch") == bool(d["unattributed"])) and nums[2:] == d["hold_times"]
        if kind.startswith("hop:"):
            ok = ok and nums[1] == d["code"] and kind == "hop:" + (d["data"] or "")
        if not ok:
            R.disagree.append({"topic": "sender's decoding of a corrupted failure", "input": dl[0][:400], "model": [kind, nums], "impl": d})
    if refs:
        ctx.samples.append({"fail_case": refs[0][0][:200], "decoded": refs[0][1]["decoded"]})


def run_fulfill_family(R, rng, tier, with_model):
    ctx = R.ctx
    lines, model_idx = [], []
    k = 0
    for n in ([1, 2, 3] if tier == "quick" else [1, 2, 3, 5, 10, 19, 20, 21, 27]):
        model_idx.append(len(lines))
        lines.append(gen_fulfill(rng.fork("fulm%d" % k), "um%d" % k, n))
        k += 1
    for n in range(1, 28):
        for rep in range(1 if tier == "quick" else 6):
            lines.append(gen_fulfill(rng.fork("fulj%d" % k), "uj%d" % k, n))
            k += 1
    res = R.impl(lines)
    if res is None:
        return
    for j in res:
        if j:
            R.bump("fulfill_cases")
    if not with_model:
        return
    keylines = ["keys sess=%s hops=%s" % (kvs(lines[i])["sess"], kvs(lines[i])["hops"]) for i in model_idx]
    kres = R.impl(keylines)
    if kres is None:
        return
    exprs = []
    for i, kj in zip(model_idx, kres):
        a = kvs(lines[i])
        exprs.append('show_fulfill [%s] [%s]' % ("; ".join('"%s"' % x for x in kj["ss"]), "; ".join(a["holds"].split(","))))
    vals = ctx.coq_eval("c14_fulfill", IMPORTS, exprs, prelude=PRELUDE, shards=min(16, max(1, len(exprs))), timeout=1700)
    for i, v in zip(model_idx, vals):
        j = res[i]
        got = strs(v)
        nums = ints_after(v, '"],') if got else []
        R.n_model += 1
        R.bump("model_fulfill_stages", len(j["stages"]))
        if got != j["stages"] or nums != j["hold_times"]:
            first = next((k for k, (x, y) in enumerate(zip(got, j["stages"])) if x != y), None)
            R.disagree.append({"topic": "fulfil attribution data", "input": lines[i][:300], "stage": first, "model_hold_times": nums, "impl_hold_times": j["hold_times"],
                               "model": got[first][:100] if first is not None else None, "impl": j["stages"][first][:100] if first is not None else None})


def parse_tlv_stream(b):
    """independent TLV record parser (Python): [(type, value bytes)] or None"""
    out = []
    i = 0

    def big(i):
        x = b[i]
        if x < 253:
            return x, i + 1
        n = {253: 2, 254: 4, 255: 8}[x]
        return int.from_bytes(b[i + 1:i + 1 + n], "big"), i + 1 + n
    try:
        while i < len(b):
            t, i = big(i)
            l, i = big(i)
            if i + l > len(b):
                return None
            out.append((t, b[i:i + l]))
            i += l
    except (IndexError, KeyError):
        return None
    return out


def gen_rcpt(rng, cid, nu, k, keysend, meta_len, custom, invreq):
    """nu unblinded forwarding hops before the (introduction node | recipient); k blinded hops (0 = unblinded recipient)."""
    n = nu + max(k, 1)
    height = rng.choice([rng.range(100, 250), rng.range(70000, 900000)])
    hops = []
    for i in range(n):
        scid = rng.choice([rng.below(2 ** 64), rng.below(2 ** 24)]) or 1
        fee = rng.below(rng.choice([200, 60000, 2 ** 31])) + 1
        if k > 0 and n - k <= i < n - 1:
            # LDK (debug) requires the intermediate blinded hops' TLVs to serialize to the same padded size
            fee = rng.range(1, 200)
        delta = rng.range(48, 90)
        hops.append("%s:%d:%d:%d" % (hx("node", cid, i), scid, fee, delta))
    final_value = int(hops[-1].split(":")[2])
    total = final_value + rng.choice([0, 0, rng.below(10 ** 6)])
    preimage = hx("preimage", cid)
    phash = hashlib.sha256(bytes.fromhex(preimage)).hexdigest() if keysend else hx("hash", cid)
    meta = rbytes(rng, meta_len) if meta_len else "-"
    tl = ";".join("%d:%s" % (t, rbytes(rng, l) if l else "") for t, l in sorted(custom)) if custom else "-"
    secret = "-" if k > 0 else hx("secret", cid)
    return "rcpt sess=%s prng=%s hash=%s height=%d hops=%s blinded=%d secret=%s bsecret=%s total=%d meta=%s tlvs=%s keysend=%s invreq=%d" % (
        hx("sess", cid), hx("prng", cid), phash, height, ",".join(hops), k, secret, hx("bsecret", cid), total, meta, tl,
        preimage if keysend else "-", 1 if invreq else 0)


CUSTOM_SETS = {
    "none": [],
    "below": [(65537, 3)],
    "above": [(KEYSEND_TLV + 1, 2)],
    "straddle": [(65536, 0), (70001, 5), (INVREQ_TLV - 1, 1), (INVREQ_TLV + 1, 2), (KEYSEND_TLV - 1, 3), (KEYSEND_TLV + 1, 1), (2 ** 64 - 1, 4)],
}


def coq_opt(x):
    return '(hx_opt "%s")' % (x if x is not None else "-")


def coq_tlvs(custom):
    return "(hx_tlvs [%s])" % "; ".join('(%d, "%s")' % (t, v) for t, v in custom)


def rcpt_payload_terms(line, j):
    """Gallina terms (Model/OnionPayload.v) for each hop's payload of an rcpt case, from the route and the recipient
    fields alone (only the encrypted blinded-path blobs, the blinding point and the invoice request come from the Rust side)."""
    a = kvs(line)
    hops = [h.split(":") for h in a["hops"].split(",")]
    n = len(hops)
    k = int(a["blinded"])
    height = int(a["height"])
    fee = [int(h[2]) for h in hops]
    dl = [int(h[3]) for h in hops]
    scid = [int(h[1]) for h in hops]
    final_value = fee[-1]
    custom = [] if a["tlvs"] == "-" else [(int(t.split(":")[0]), t.split(":")[1]) for t in a["tlvs"].split(";")]
    ks = None if a["keysend"] == "-" else a["keysend"]
    meta = None if a["meta"] == "-" else a["meta"]
    terms = []
    if k == 0:
        for i in range(n - 1):
            terms.append("PForward %d %d %d" % (scid[i + 1], sum(fee[i + 1:]), height + sum(dl[i + 1:])))
        pd = 'Some (hx "%s", %d)' % (a["secret"], int(a["total"])) if a["secret"] != "-" else "None"
        terms.append("PReceive (%s) %s %s %s %d %d" % (pd, coq_opt(meta), coq_opt(ks), coq_tlvs(custom), final_value, height + dl[-1]))
    else:
        nu = n - k  # forwarding hops before the introduction node
        bfee = sum(fee[n - k:n - 1])
        bdelta = sum(dl[n - k:n - 1]) + dl[-1]
        # amounts / expiries the unblinded hops are told: everything after them, the blinded path as one hop
        tail_fees = [fee[i] for i in range(nu)] + [bfee]
        tail_dl = [dl[i] for i in range(nu)] + [bdelta]
        for i in range(nu):
            terms.append("PForward %d %d %d" % (scid[i + 1], sum(tail_fees[i + 1:]) + final_value, height + sum(tail_dl[i + 1:])))
        enc = j["enc_tlvs"]
        for b in range(k):
            bp = j["bp"] if b == 0 else None
            if b < k - 1:
                terms.append('PBlindedForward (hx "%s") %s' % (enc[b], coq_opt(bp)))
            else:
                terms.append('PBlindedReceive %d %d %d (hx "%s") %s %s %s %s' % (
                    final_value, int(a["total"]), height, enc[b], coq_opt(bp), coq_opt(ks), coq_tlvs(custom),
                    coq_opt(j["invreq"] if a["invreq"] == "1" else None)))
    return terms, [t for t, _ in custom]


def run_rcpt_family(R, rng, tier, with_model, release=False):
    """Recipient payloads: unblinded / one-hop blinded / multi-hop blinded final hops x keysend x metadata x custom TLV
    sets x invoice request, every hop peeled with the real code; payload assembly and TLV order against the model."""
    ctx = R.ctx
    lines = []
    cid = 0
    tagp = "rr" if release else "rc"
    for k in (0, 1, 2, 3):
        for keysend in (False, True):
            for meta_len in (0, 5, 400):
                for cname in ("none", "below", "above", "straddle"):
                    for invreq in (False, True):
                        if tier == "quick" and k == 3 and (meta_len == 5 or cname == "below"):
                            continue
                        nu = [1, 0, 2][cid % 3]
                        lines.append(gen_rcpt(rng.fork("%s%d" % (tagp, cid)), "%s%d" % (tagp, cid), nu, k, keysend, meta_len, CUSTOM_SETS[cname], invreq))
                        cid += 1
    impl = (lambda ls: R.impl(ls, release=True)) if release else R.impl
    res = impl(lines)
    if res is None:
        return
    # largest admissible custom TLV: fill the packet exactly, and one byte more
    lines2 = []
    for l, j in zip(lines, res):
        a = kvs(l)
        if not j or not j.get("built") or a["tlvs"] != "-" or a["meta"] != "-" or len(lines2) >= (24 if tier == "quick" else 96):
            continue
        room = 1300 - j["payload_total"]
        for ty in (65537, KEYSEND_TLV + 7):
            tlen = len(bigsize(ty))
            for L in (room - tlen - 8, room - tlen - 7, room - tlen - 6, room - tlen - 5, room - tlen - 4, room - tlen - 3):
                if L > 0:
                    lines2.append(l.replace(" tlvs=- ", " tlvs=%d:%s " % (ty, rbytes(rng.fork("mx%d/%d" % (len(lines2), L)), L))))
    res2 = impl(lines2) or []
    allc = [(l, j) for l, j in zip(lines + lines2, res + res2) if j]
    totals = {}
    for l, j in allc:
        R.bump(("rel_" if release else "") + "rcpt_" + (j.get("final", "refused") if j.get("built") else "refused"))
        if "payload_total" in j and -3 <= j["payload_total"] - 1300 <= 3:
            totals[j["payload_total"] - 1300] = totals.get(j["payload_total"] - 1300, 0) + 1
    ctx.coverage[("release_" if release else "") + "rcpt_payload_total_minus_1300_near_boundary"] = totals
    if not with_model:
        return
    # (1) payload assembly, byte for byte, for every hop of every case; (2) the receiving side's TLV loop on the final payload
    exprs, refs = [], []
    for l, j in allc:
        if not j.get("payloads"):
            continue
        try:
            terms, ctypes = rcpt_payload_terms(l, j)
            contents = [strip_frame(p) for p in j["payloads"]]
        except (ValueError, KeyError, IndexError) as ex:
            R.disagree.append({"topic": "recipient payload framing", "input": l[:400], "why": repr(ex)})
            continue
        if len(terms) != len(contents):
            R.disagree.append({"topic": "number of payloads", "input": l[:400], "model": len(terms), "impl": len(contents)})
            continue
        exprs.append("(map show_payload [%s], show_tlv_check [%s] \"%s\")" % ("; ".join(terms), "; ".join(str(t) for t in ctypes), contents[-1]))
        refs.append((l, j, contents))
    vals = ctx.coq_eval("c14_rcpt" + ("_rel" if release else ""), PAY_IMPORTS, exprs, prelude=PRELUDE, shards=16, timeout=1500)
    for (l, j, contents), v in zip(refs, vals):
        cut = v.rindex('("')
        got = strs(v[:cut])
        chk = strs(v[cut:])[0]
        chk_types = ints_after(v, '"' + chk + '"')
        R.n_model += 1
        R.bump("model_payload_assembly")
        if got != contents:
            first = next((q for q, (x, y) in enumerate(zip(got, contents)) if x != y), 0)
            mt = parse_tlv_stream(bytes.fromhex(got[first])) or []
            it = parse_tlv_stream(bytes.fromhex(contents[first])) or []
            R.disagree.append({"topic": "payload TLV assembly", "input": l[:500], "hop": first, "model_types": [t for t, _ in mt], "impl_types": [t for t, _ in it],
                               "model": got[first][:160], "impl": contents[first][:160]})
            continue
        recs = parse_tlv_stream(bytes.fromhex(contents[-1]))
        want_types = [t for t, _ in recs] if recs is not None else None
        if chk != "ok" or chk_types != want_types:
            R.disagree.append({"topic": "TLV loop on the final payload (Codec/Tlv.v)", "input": l[:500], "model": [chk, chk_types], "impl_types": want_types})
    # (3) whole packets with blinded tails through the Sphinx model (sample)
    if release:
        return
    pk = [(l, j) for l, j in allc if j.get("built") and int(kvs(l)["blinded"]) > 0][:: (9 if tier == "quick" else 3)][: (5 if tier == "quick" else 40)]
    exprs = []
    for l, j in pk:
        a = kvs(l)
        exprs.append('show_build_and_peel 1300 "%s" %s "%s"' % (a["prng"], coq_hops([q["ss"] for q in j["keys"]], [strip_frame(p) for p in j["payloads"]]), a["hash"]))
    vals = ctx.coq_eval("c14_rcpt_pk", IMPORTS, exprs, prelude=PRELUDE, shards=min(16, max(1, len(exprs))), timeout=1500)
    for (l, j), v in zip(pk, vals):
        got = strs(v)
        want = [j["packet"]]
        for p in j["peels"]:
            raw = p["raw"]
            want.append("E:" + raw["err"] if "err" in raw else ("F:" + raw["payload"] if raw["next"] is None else "N:%s:%s" % (raw["payload"], raw["next"])))
        R.n_model += 1
        R.bump("model_blinded_packets")
        if got != want:
            first = next((q for q, (x, y) in enumerate(zip(got, want)) if x != y), min(len(got), len(want)))
            R.disagree.append({"topic": "onion with a blinded tail: packet / per-hop peel", "input": l[:500], "first_difference_at": first,
                               "model": got[first][:120] if first < len(got) else None, "impl": want[first][:120] if first < len(want) else None})
    if pk:
        ctx.samples.append({"rcpt_case": pk[0][0][:260], "final": pk[0][1]["final"], "hops": len(pk[0][1]["peels"])})


def run_failb_family(R, rng, tier, with_model, release=False):
    """Failure packets at the message-size boundary: packet data lengths around FAIL_DATA_MAX (update_fail_htlc of
    LN_MAX_MSG_LEN - 2 .. + 2 bytes), built at every hop position (with attribution data, or as a node without
    attribution support would), relayed by the real code back to the sender."""
    ctx = R.ctx
    lines = []
    k = 0
    ns = [1, 2, 3, 6] if tier == "quick" else [1, 2, 3, 4, 6, 10, 20, 21, 27]
    plens = [FAIL_DATA_MAX - 2, FAIL_DATA_MAX - 1, FAIL_DATA_MAX, FAIL_DATA_MAX + 1, FAIL_DATA_MAX + 2, 65535 - 44, 292, 40000]
    for n in ns:
        ats = range(n) if (n <= 3 or tier != "quick") else sorted(set([0, n // 2, n - 1]))
        for at in ats:
            for plen in plens:
                for legacy in (0, 1):
                    if tier == "quick" and plen in (292, 40000, 65535 - 44) and (at + legacy + n) % 3:
                        continue
                    holds = [rng.fork("fb%d/%d" % (k, q)).below(2 ** 32) for q in range(at + 1)]
                    lines.append("failb sess=%s hops=%s at=%d code=%d plen=%d legacy=%d holds=%s" % (
                        hx("sess", "fb%d" % k), path_hops("fb%d" % k, n), at, CODES[k % len(CODES)], plen, legacy, ",".join(map(str, holds))))
                    k += 1
    res = (R.impl(lines, release=True) if release else R.impl(lines))
    if res is None:
        return
    hist = {}
    for l, j in zip(lines, res):
        if not j:
            continue
        a = kvs(l)
        key = "plen%+d_%s" % (int(a["plen"]) - FAIL_DATA_MAX, "legacy" if a["legacy"] == "1" else "attr") if abs(int(a["plen"]) - FAIL_DATA_MAX) <= 2 else "other"
        kept = "refused" if not j["built"] else ("kept" if all(st["attr"] for st in j["stages"][1:]) and (j["stages"][0]["attr"] or len(j["stages"]) > 1) else "dropped")
        hist.setdefault(key, {}).setdefault(kept, 0)
        hist[key][kept] += 1
        R.bump(("rel_" if release else "") + "failb_cases")
    ctx.coverage[("release_" if release else "") + "failb_boundary_histogram"] = hist
    if not with_model or release:
        return
    # the model's guard (and packet length arithmetic) at every length used
    used = sorted(set(int(kvs(l)["plen"]) for l in lines))
    exprs = ["map (fun L => (Z.of_nat (32 + List.length (failure_body 0 (zeros (L - 38)) DEFAULT_MIN_FAILURE_PACKET_LEN)), "
             "Z.b2z (keeps_attribution (mk_err (zeros L) (Some attr_new))))) [%s]" % "; ".join("%d%%nat" % L for L in used)]
    vals = ctx.coq_eval("c14_failb", ["LdkV.Crypto.Bytes", "LdkV.Model.OnionFail"], exprs, prelude="From Coq Require Import ZArith List.\nImport ListNotations.\n")
    nums = [int(x) for x in re.findall(r"-?\d+", vals[0])]
    model = {L: (nums[2 * i], nums[2 * i + 1] == 1) for i, L in enumerate(used)}
    for l, j in zip(lines, res):
        if not j or not j["built"]:
            continue
        a = kvs(l)
        L = int(a["plen"])
        R.n_model += 1
        R.bump("model_failb_guard")
        if model[L][0] != j["stages"][0]["len"]:
            R.disagree.append({"topic": "failure packet length", "input": l[:300], "model": model[L][0], "impl": j["stages"][0]["len"]})
        for q, st in enumerate(j["stages"][1:]):
            if st["attr"] != model[L][1]:
                R.disagree.append({"topic": "attribution data kept by a relaying hop (guard of process_failure_packet)", "input": l[:300], "relay": q,
                                   "packet_data_len": L, "update_fail_htlc_len_with_attribution": L + 2 + 42 + 924, "model_keeps": model[L][1], "impl_keeps": st["attr"]})
                break


def check_consts(R):
    res = R.impl(["consts"])
    if not res:
        return
    want = {"MAX_HOPS": 20, "HOLD_TIME_LEN": 4, "HMAC_LEN": 4, "HMAC_COUNT": 210, "ONION_DATA_LEN": 1300, "DEFAULT_MIN_FAILURE_PACKET_LEN": 256, "LN_MAX_MSG_LEN": 65535}
    vals = R.ctx.coq_eval("c14_consts", ["LdkV.Model.OnionFail"], ["[Z.of_nat MAX_HOPS; Z.of_nat HOLD_TIME_LEN; Z.of_nat HMAC_LEN; Z.of_nat HMAC_COUNT; Z.of_nat DEFAULT_MIN_FAILURE_PACKET_LEN; LN_MAX_MSG_LEN]"],
                          prelude="From Coq Require Import ZArith List.\nImport ListNotations.\n")
    m = [int(x) for x in re.findall(r"-?\d+", vals[0])]
    model = dict(zip(["MAX_HOPS", "HOLD_TIME_LEN", "HMAC_LEN", "HMAC_COUNT", "DEFAULT_MIN_FAILURE_PACKET_LEN", "LN_MAX_MSG_LEN"], m))
    model["ONION_DATA_LEN"] = ONION_LEN
    for n, v in want.items():
        if res[0].get(n) != model.get(n):
            R.disagree.append({"topic": "constant", "name": n, "model": model.get(n), "impl": res[0].get(n)})


def run(ctx):
    ok_build, out = ctx.build_harness(BINS)
    if not ok_build:
        ctx.violation("harness does not build against the current tree", {"broken": "harness-build", "log_tail": out[-3000:]}, False)
        ctx.write_evidence(LEVEL)
        return
    gen_err = None
    try:
        generate(ctx)
    except Exception as ex:  # rs2v refused the (changed) source: obligation broken
        gen_err = str(ex)
        ctx.log("rs2v generation refused:", gen_err)
        ctx.obligations.append(("rs2v-generation Gen/C14Guards.v", False, gen_err[:400]))
    okm, outm = ctx.coq_make(["Model/Sphinx.vo", "Model/OnionFail.vo", "Model/SphinxInst.vo", "Model/OnionPayload.vo"])
    if not okm:
        ctx.log("model does not build:", outm[-1500:])
    proved = (ctx.prove("C14") if okm else False) and gen_err is None
    if not okm:
        ctx.obligations.append(("Model/SphinxInst.vo", False, outm[-400:]))
    ctx.trusted_base += [
        "Coq 8.16.1 kernel + vm_compute (no native_compute)",
        "tools/rs2v anchored-expression extraction of the guards / index arithmetic / constants of onion_utils.rs (Gen/C14Guards.v, regenerated every run; Proofs/C14Gen.v equates them with the model's)",
        "Model/OnionPayload.v: transliteration of OutboundOnionPayload::write (fixed TLVs, chained+sorted extras), tied byte for byte on every hop of every recipient case; Codec/Tlv.v (C13) TLV loop run on the final payloads",
        "Model/Sphinx.v, Model/OnionFail.v: hand transliteration of onion_utils.rs, tied on every run by byte-for-byte functional correspondence (h_onion + lightning feature _verif_hooks)",
        "Crypto/ChaCha20.v, Crypto/Hmac.v, Crypto/Sha256.v (Gallina primitives; only their length / prefix lemmas are used by the proofs; their equality with the Rust crates is what the byte-exact correspondence checks)",
        "stated hypotheses of the theorems: no inner layer HMAC is all-zero (layers_nonzero), no spurious HMAC match at a hop before the failing one (no_spurious_match); tamper rejection is 'rejected or an explicit HMAC collision'",
        "outside the model: secp256k1 (ECDH shared secrets, ephemeral key blinding) - supplied by the Rust side as data and judged on the implementation (sender/receiver secrets equal, next ephemeral key equal, corrupted ephemeral keys rejected)",
        "harness crate /verif/harness (h_onion)",
    ]
    ctx.assumptions += ["HMAC-SHA256 behaves as a MAC / ChaCha20 as a PRF (needed only for the 2^-256 side conditions and for unforgeability under joint modification of packet and HMAC)",
                        "hooks expose the same functions the library calls"]
    R = Run(ctx)
    rng = ctx.rng.fork("c14")
    try:
        if okm:
            check_consts(R)
        run_raw_family(R, rng.fork("raw"), ctx.tier, okm)
        run_pay_family(R, rng.fork("pay"), ctx.tier, okm)
        run_fail_family(R, rng.fork("fail"), ctx.tier, okm)
        run_fulfill_family(R, rng.fork("fulfill"), ctx.tier, okm)
        run_rcpt_family(R, rng.fork("rcpt"), ctx.tier, okm)
        run_failb_family(R, rng.fork("failb"), ctx.tier, okm)
        if ctx.tier != "quick":
            # release build: no debug assertions, so a mis-assembled payload reaches the recipient and an
            # over-long failure reaches the relaying hops instead of tripping the sender's / builder's assertion
            okr, outr = ctx.build_harness(BINS, release=True)
            if not okr:
                R.crash = {"release_build": outr[-1500:]}
            else:
                run_rcpt_family(R, rng.fork("rcpt"), ctx.tier, okm, release=True)
                run_failb_family(R, rng.fork("failb"), ctx.tier, False, release=True)
    except RuntimeError as ex:  # coq_eval failed
        R.disagree.append({"topic": "model evaluation failed", "why": str(ex)[-1500:]})
    ctx.coverage["evaluations"] = R.n_impl + R.n_model
    ctx.coverage["translated_items"] = getattr(ctx, "gen_meta", [])
    ctx.coverage["distinct_nontrivial"] = R.n_model + sum(v for k2, v in R.hist.items() if k2.startswith(("rcpt_", "rel_rcpt_", "failb_", "rel_failb_"))) + R.hist.get("pay_fit", 0) + R.hist.get("pay_too_long", 0) + R.hist.get("fail_cases", 0) + R.hist.get("fulfill_cases", 0) + R.hist.get("raw_built", 0) + R.hist.get("raw_refused", 0)
    ctx.coverage["rule"] = ("every case has its own keys/route/sizes (ids are hashed into node seeds and secrets), so cases are distinct by construction; non-trivial = a packet was built and walked hop by hop "
                            "(or correctly refused at the size boundary); model_* counters are cases compared byte for byte with the Gallina instance")
    ctx.coverage["histogram"] = R.hist
    ctx.coverage["model_vs_impl_cases"] = R.n_model
    ctx.coverage["impl_cases"] = R.n_impl
    # ---------------------------------------------------------------- decide (DESIGN.md section 9)
    if R.crash:
        ctx.violation("harness h_onion did not produce one result per case", {"broken": "correspondence:h_onion", "detail": R.crash}, False)
    for line, why in R.judge_fails[:3]:
        ctx.violation("C14 fails on the implementation: " + "; ".join(str(w) for w in why[:3]),
                      {"failing_input": line, "judge": why, "replay_cmd": "printf '%%s\\n' '<failing_input>' | %s" % ctx.bin_path("h_onion"),
                       "broken_model_side": R.disagree[:2]}, True)
    broken = []
    if not proved:
        broken.append({"obligation": "Coq proof of Props/C14.v" if gen_err is None else "rs2v regeneration of Gen/C14Guards.v", "detail": getattr(ctx, "proof_failure", {"where": gen_err or "model build"})})
    if R.disagree:
        broken.append({"correspondence": "h_onion vs Model/SphinxInst.v", "n": len(R.disagree), "first_disagreements": R.disagree[:4]})
    if broken and not R.judge_fails and not R.crash:
        ctx.violation("C14 no longer shown: " + ("proof broken" if not proved else "model and implementation disagree: " + R.disagree[0]["topic"]),
                      {"broken": broken, "search": "judge evaluated on %d implementation cases (all path lengths 1..27, size boundary, single-bit corruptions, every failing position) found no failing input" % R.n_impl}, False)
    ctx.write_evidence(LEVEL)


def replay(ctx, rep):
    ok_build, out = ctx.build_harness(BINS)
    line = rep.get("failing_input")
    if not line:
        print(json.dumps(rep, indent=1)[:4000])
        return 0
    rc, out = ctx.run_bin("h_onion", line + "\n")
    for o in out:
        if o.strip():
            try:
                j = json.loads(o)
                print("judge:", j.get("judge"))
                return 1 if j.get("judge") else 0
            except ValueError:
                print(o[:300])
    return 1
