"""C02 judges on traces of h_fwdm (several concurrent forwards, dust-band amounts with feerate changes,
late preimages). Implementation-side only. Record format as in fwdjudge.py, plus
  PAY pay=k total= hash= parts=amt/U*/D*,..      CHST chan= feerate= in=id:amt:state,.. out=id:amt:state,..
  UFC by=A|B chan=   BFC   BURST blocks=   FEEBUMP node= feerate=   messages carry chan=<name>
"""
import re

from props.c02 import fwdjudge as J

M = 1000000
HTLC_SUCCESS_W = 703
HTLC_TIMEOUT_W = 663
F3 = "F3-placeholder"


def dust_buffer_feerate(f):
    """tx_builder.rs get_dust_buffer_feerate (u32 arithmetic)"""
    plus_quarter = f * 1250 // 1000 if f * 1250 < 2 ** 32 else 2 ** 32 - 1
    return max(min(f + 2530, 2 ** 32 - 1), plus_quarter)


def is_dust(outbound, amount_msat, local, feerate, dust_limit_sat):
    """tx_builder.rs HTLCAmountDirection::is_dust for a non-anchor channel"""
    w = HTLC_TIMEOUT_W if outbound == local else HTLC_SUCCESS_W
    return amount_msat // 1000 < dust_limit_sat + feerate * w // 1000


def dust_sum(htlcs, local, feerate, dust_limit_sat):
    """the HTLC part of get_dust_exposure_stats: a LOWER bound of the exposure LDK computes (the excess-fee
    term on the counterparty's transaction is left out)"""
    fb = dust_buffer_feerate(feerate)
    return sum(a for (outb, a) in htlcs if is_dust(outb, a, local, fb, dust_limit_sat))


def parse_htlcs(s):
    out = {}
    for it in [x for x in s.split(",") if x]:
        p = it.split(":")
        out[p[0]] = (int(p[1]), p[2] if len(p) > 2 else "")
    return out


def judge(recs):
    V = []
    F = {"class": "?", "c_behav": "?", "payments": 0, "parts": 0, "mpp": 0, "c_claimed": 0, "parts_claimed_up": 0,
         "parts_failed_up": 0, "onchain_d": 0, "onchain_u": 0, "b_closed_d": 0, "bursts": 0, "fee_updates_seen": 0,
         "fee_updates_accepted": 0, "fee_updates_refused": 0, "dust_points": 0, "dust_points_nonzero": 0,
         "reloads": 0, "b_funds_d": 0, "own_fee_updates": 0, "late_claims": 0, "stuck": 0, "signer_artifact": 0, "same_block_claims": 0, "max_exposure_seen": 0}
    dust_samples = []   # (htlcs, local, feerate, python_value) for the cross-check against the generated function
    cfg, funding = {}, {}
    pays = {}            # hash -> {"k":, "parts": n}
    up, down = {}, {}    # (chan, id) -> {"hash", "amt"}
    claimed_up, failed_up = set(), set()
    c_claimed = set()
    c_got = {}           # hash -> number of adds received by C
    closed_b = set()
    chst = {}            # chan -> {"feerate", "in", "out"}
    chst_before_fee = {}
    pending_fee = {}     # chan -> (feerate, htlcs committed before)
    txs, confirmed = {}, {}
    fees_b = 0
    height = 0
    bal0 = None
    end = None
    u_closed_step = None
    startup_close = False
    reload_step = None
    b_funds_d = False
    for (ln, step, kind, kv) in recs:
        if kind == "PARAMS":
            raw = kv.get("raw", "")
            m = re.search(r"class:(\d)", raw)
            F["class"] = m.group(1) if m else "?"
            m = re.search(r"c_behav:(\w+)", raw)
            F["c_behav"] = m.group(1) if m else "?"
            b_funds_d = "b_funds_d:true" in raw
            F["b_funds_d"] = 1 if b_funds_d else 0
        elif kind == "CHAN":
            cfg[kv["name"]] = {"prop": int(kv["prop"]), "base": int(kv["base"]), "delta": int(kv["delta"]),
                               "max_dust": int(kv["max_dust"]), "dust": int(kv["dust_limit"]), "cp_dust": int(kv.get("cp_dust_limit", kv["dust_limit"]))}
            funding[kv["name"]] = kv.get("funding", "")
        elif kind == "BAL0":
            bal0 = int(kv["sat"])
        elif kind == "PAY":
            parts = [x for x in kv.get("parts", "").split(",") if x]
            pays[kv["hash"]] = {"k": int(kv["pay"]), "parts": len(parts), "amts": [int(x.split("/")[0]) for x in parts]}
            F["payments"] += 1
            F["parts"] += len(parts)
            if len(parts) > 1:
                F["mpp"] += 1
        elif kind == "PANIC":
            msg = kv.get("msg", "?")
            pk = J.panic_key(msg)
            if pk is None:
                F["signer_artifact"] = 1
                end = {"artifact": "1"}
            else:
                V.append({"key": pk, "judge": "harness/implementation panic", "why": msg[:400], "step": step})
        elif kind == "RELOADFAIL":
            V.append({"key": "restart", "judge": "restart", "why": "B could not restart from its durable state: %s %s" % (kv.get("what"), kv.get("err", "")), "step": step})
        elif kind == "STUCK":
            F["stuck"] = 1
            V.append({"key": "stuck", "judge": "c:claim-whenever-known/liveness", "why": "not fully resolved after 900 further blocks (%s)" % kv, "step": step})
        elif kind == "RELOAD":
            F["reloads"] += 1
            reload_step = step
        elif kind == "PERSIST":
            if kv["chan"].startswith("D") and "ChannelForceClosed" in kv.get("steps", "") and reload_step == step:
                startup_close = True
        elif kind == "BURST":
            F["bursts"] += 1
        elif kind == "BFC":
            F["b_closed_d"] = 1
        elif kind == "UFC":
            u_closed_step = step
        elif kind == "CHST":
            chst[kv["chan"]] = {"feerate": int(kv["feerate"]), "in": parse_htlcs(kv.get("in", "")), "out": parse_htlcs(kv.get("out", ""))}
        elif kind == "BLOCK":
            height = int(kv["height"])
            claims_in_block = 0
            for t in [x for x in kv.get("txs", "").split(",") if x]:
                txid, by, lt, fee = t.split("/")
                confirmed[txid] = height
                info = txs.get(txid, {"ins": []})
                spends_funding = [n for n, fo in funding.items() if fo in info["ins"]]
                for n in spends_funding:
                    if n.startswith("D"):
                        F["onchain_d"] = 1
                    else:
                        F["onchain_u"] = 1
                if by == "B" and not spends_funding:
                    fees_b += int(fee)
                if by == "C" and not spends_funding and int(lt) == 0:
                    claims_in_block += len(info["ins"])
            if claims_in_block >= 2:
                F["same_block_claims"] = 1
        elif kind == "BCAST":
            txs[kv["txid"]] = {"by": kv["by"], "locktime": int(kv["locktime"]), "ins": kv["ins"].split(","),
                               "outs": [int(x) for x in kv["outs"].split(",") if x]}
        elif kind == "EVENT":
            if kv.get("node") == "B" and kv.get("name") == "ChannelClosed":
                closed_b.add(kv.get("chan"))
                pending_fee.pop(kv.get("chan"), None)
            if kv.get("node") == "C" and kv.get("name") == "PaymentClaimed":
                c_claimed.add(kv["hash"])
                F["c_claimed"] += 1
                if u_closed_step is not None:
                    F["late_claims"] += 1
        elif kind in ("SEND", "DROP", "RECV"):
            link, ty, ch = kv["link"], kv["type"], kv.get("chan", "?")
            if kind == "RECV" and link == "AB" and ty == "add":
                up[(ch, kv["htlc_id"])] = {"hash": kv["hash"], "amt": int(kv["amt"]), "cltv": int(kv["cltv"])}
            if kind in ("SEND", "DROP") and link == "BC" and ty == "add":
                down[(ch, kv["htlc_id"])] = {"hash": kv["hash"], "amt": int(kv["amt"]), "cltv": int(kv["cltv"])}
                # (f) B offers an HTLC: with it, the HTLC-dust exposure on both commitments of that channel
                # and of the channel it came in on stays within B's limit
                for cname, extra in ((ch, (True, int(kv["amt"]))),):
                    st = chst.get(cname)
                    if st and cname in cfg:
                        hs = [(False, a) for (a, s_) in st["in"].values() if s_ == "Committed"] + \
                             [(True, a) for (a, s_) in st["out"].values() if s_ == "Committed"] + [extra]
                        check_dust(V, F, dust_samples, cfg[cname], cname, st["feerate"], hs, step, "B offered an HTLC of %s msat" % kv["amt"])
            if kind == "RECV" and link == "BC" and ty == "add":
                c_got[kv["hash"]] = c_got.get(kv["hash"], 0) + 1
            if kind in ("SEND", "DROP") and link == "BA" and ty == "fulfill":
                claimed_up.add((ch, kv["htlc_id"]))
            if kind in ("SEND", "DROP") and link == "BA" and ty in ("fail", "malformed"):
                failed_up.add((ch, kv["htlc_id"]))
            # update_fee BY B (it funds the channel): its own choice, so both exposures must fit
            if kind in ("SEND", "DROP") and link in ("BA", "BC") and ty == "fee":
                F["own_fee_updates"] += 1
                st = chst.get(ch)
                if st and ch in cfg:
                    hs = [(False, a) for (a, s_) in st["in"].values() if s_ == "Committed"] + \
                         [(True, a) for (a, s_) in st["out"].values() if s_ == "Committed"]
                    check_dust(V, F, dust_samples, cfg[ch], ch, int(kv["feerate"]), hs, step, "B sent update_fee %s sat/kw" % kv["feerate"])
            # update_fee towards B
            if kind == "RECV" and link in ("AB", "CB") and ty == "fee":
                F["fee_updates_seen"] += 1
                st = chst.get(ch)
                if st:
                    pending_fee[ch] = (int(kv["feerate"]), dict(st["in"]), dict(st["out"]), step)
            if kind in ("SEND", "DROP") and link in ("BA", "BC") and ty == "raa" and ch in pending_fee:
                # B acknowledged the commitment that carries the new feerate: it accepted the update
                feerate, hin, hout, s0 = pending_fee.pop(ch)
                F["fee_updates_accepted"] += 1
                st = chst.get(ch, {"in": {}, "out": {}})
                # only HTLCs that were fully committed before the update_fee and still are
                hs = [(False, a) for k, (a, s_) in hin.items() if s_ == "Committed" and st["in"].get(k, (0, ""))[1] == "Committed"] + \
                     [(True, a) for k, (a, s_) in hout.items() if s_ == "Committed" and st["out"].get(k, (0, ""))[1] == "Committed"]
                if ch in cfg:
                    check_dust(V, F, dust_samples, cfg[ch], ch, feerate, hs, step, "B accepted update_fee %d sat/kw" % feerate)
            if kind in ("SEND", "DROP") and link in ("BA", "BC") and ty == "error" and ch in pending_fee:
                pending_fee.pop(ch)
                F["fee_updates_refused"] += 1
        elif kind == "END":
            end = kv
    # ---- every part of a payment C claimed is claimed upstream
    def d_commitments():
        """confirmed transactions spending a downstream funding output -> list of output values"""
        res = []
        for txid in confirmed:
            info = txs.get(txid)
            if info and any(fo in info["ins"] for n, fo in funding.items() if n.startswith("D")):
                res.append(info["outs"])
        return res
    dcs = d_commitments()
    for h, p in pays.items():
        if h not in c_claimed:
            continue
        for (ch, hid), u in sorted(up.items()):
            if u["hash"] != h:
                continue
            # its downstream twin: same hash, amount + B's fee closest to what came in
            twins = [d for d in down.values() if d["hash"] == h]
            if not twins:
                continue
            c0 = cfg.get("D", {"prop": 0, "base": 0})
            tw = min(twins, key=lambda d: abs(u["amt"] - (d["amt"] + d["amt"] * c0["prop"] // M + c0["base"])))
            if dcs and all((tw["amt"] // 1000) not in outs for outs in dcs):
                # the downstream channel went on chain and the HTLC has no output there: C's "claim" moved no
                # money, failing back upstream after the burial is right (the amount is a dust forfeit)
                continue
            key = "F1" if False else "c:part-claimed-upstream"
            if (ch, hid) in failed_up and not startup_close:
                V.append({"key": key, "judge": "c:claim-whenever-known (per part)",
                          "why": "C claimed payment %s (%d parts) but B failed upstream HTLC %s on %s (%d msat) back to A" % (h, p["parts"], hid, ch, u["amt"]), "step": 0})
            elif (ch, hid) in claimed_up:
                F["parts_claimed_up"] += 1
            elif ch not in closed_b and end is not None and "bal" in end and not F["stuck"] and not startup_close:
                V.append({"key": key, "judge": "c:claim-whenever-known (per part)",
                          "why": "C claimed payment %s (%d parts) but B never sent update_fulfill_htlc for upstream HTLC %s on %s (%d msat) although that channel stayed open" % (h, p["parts"], hid, ch, u["amt"]), "step": 0})
    F["parts_failed_up"] = len(failed_up)
    # ---- ledger
    if end is not None and "bal" in end and bal0 is not None and not F["stuck"] and not b_funds_d:
        # (when B funds a channel its claimable balance moves with the commitment fee: no ledger then)
        total = int(end["bal"]) + int(end["swept"]) + fees_b
        nclosed = len(closed_b) + (1 if F["onchain_d"] or F["onchain_u"] else 0)
        tol = 2 + 2 * (nclosed + len(pays)) + 2 * len(up)
        dust_tol = 0
        if closed_b or F["onchain_d"] or F["onchain_u"]:
            small = [u["amt"] for u in up.values() if u["amt"] < 13 * M]   # may be trimmed at the highest feerates used here
            # only amounts that can be dust at the feerates of this scenario count: bounded by B's limit
            dust_tol = min(sum(a // 1000 + 1 for a in small), max([c["max_dust"] for c in cfg.values()] + [0]) // 1000 + len(small))
        if total + tol + dust_tol < bal0:
            f1 = startup_close
            V.append({"key": J.F1 if f1 else "e:ledger", "judge": "e:ledger/c:claim-whenever-known",
                      "why": "B's claimable balances after full resolution (%d sat in channels + %d sat swept + %d sat own HTLC-transaction fees) are below the %d sat before the forwards by %d sat (tolerance %d rounding + %d dust); C claimed %d payment(s), B claimed %d upstream part(s) by message" % (
                          int(end["bal"]), int(end["swept"]), fees_b, bal0, bal0 - total, tol, dust_tol, len(c_claimed), len(claimed_up)),
                      "step": 0, "detail": end.get("detail", "")})
    elif end is None and not any(v["judge"].startswith("harness") for v in V):
        V.append({"key": "harness", "judge": "harness", "why": "scenario produced no END record", "step": 0})
    for v in V:
        v.setdefault("key", v["judge"])
    return V, F, dust_samples


def check_dust(V, F, samples, c, ch, feerate, hs, step, what):
    F["dust_points"] += 1
    loc = dust_sum(hs, True, feerate, c["dust"])
    rem = dust_sum(hs, False, feerate, c["cp_dust"])
    if loc or rem:
        F["dust_points_nonzero"] += 1
    F["max_exposure_seen"] = max(F["max_exposure_seen"], loc, rem)
    if len(samples) < 4:
        samples.append((hs, feerate, c["dust"], c["cp_dust"], loc, rem))
    if rem > c["max_dust"]:
        V.append({"key": "f:dust-exposure-counterparty", "judge": "f:dust-exposure",
                  "why": "%s on channel %s: HTLCs without an output on the COUNTERPARTY's commitment (dust-buffer feerate %d) total %d msat > max_dust_htlc_exposure %d msat; HTLCs (outbound,msat): %s" % (what, ch, dust_buffer_feerate(feerate), rem, c["max_dust"], hs), "step": step})
    if loc > c["max_dust"]:
        V.append({"key": "f:dust-exposure-holder", "judge": "f:dust-exposure",
                  "why": "%s on channel %s: HTLCs without an output on B's OWN commitment (dust-buffer feerate %d) total %d msat > max_dust_htlc_exposure %d msat; HTLCs (outbound,msat): %s" % (what, ch, dust_buffer_feerate(feerate), loc, c["max_dust"], hs), "step": step})


MIN_CLTV_EXPIRY_DELTA = 48
ANTI_REORG_DELAY = 6


def onchain_dust_band(feerate, dust_limit_sat=354):
    """[lo, hi) msat: an HTLC B offers in this band has an output on exactly one of the two commitments of a
    non-anchor channel: present on B's (timeout weight 663), trimmed on C's (success weight 703)."""
    return (dust_limit_sat + feerate * 663 // 1000) * 1000, (dust_limit_sat + feerate * 703 // 1000) * 1000


def judge_scripted(recs):
    """Judges for the scripted families of h_fwdm (ICPT, ONCH, SPLICE records). Returns (violations, facts)."""
    V, F = [], {"icpt": 0, "icpt_forwarded": 0, "icpt_refused": 0, "onch": 0, "onch_failed_back": 0, "onch_one_sided_dust": 0, "splice": 0}
    for (_, step, kind, kv) in recs:
        if kind == "PANIC":
            V.append({"key": "harness", "judge": "harness/implementation panic", "why": (kv.get("msg", "?") + " " + str(kv))[:400], "step": 0})
        elif kind == "ICPT":
            F["icpt"] += 1
            in_amt, in_cltv = int(kv["in_amt"]), int(kv["in_cltv"])
            if kv["forwarded"] == "1":
                F["icpt_forwarded"] += 1
                out_amt, out_cltv = int(kv["out_amt"]), int(kv["out_cltv"])
                policy = kv["kind"] in ("2", "3", "4")      # a real channel: its advertised fee and delta apply
                fee = int(kv["base"]) + out_amt * int(kv["prop"]) // M if policy else 0
                delta = int(kv["delta"]) if policy else MIN_CLTV_EXPIRY_DELTA
                what = {"0": "an intercept SCID", "1": "an unknown SCID", "2": "a known public channel (intercepted)",
                        "3": "a connected private channel (intercepted)", "4": "a disconnected private channel (intercepted)"}[kv["kind"]]
                if out_amt + fee > in_amt:
                    V.append({"key": "a:fee-cltv-intercept", "judge": "a:fee-cltv",
                              "why": "forward to %s: B received %d msat, reported expected_outbound_amount_msat %s and offered %d msat downstream (fee due %d): %d msat more than it got" % (what, in_amt, kv["expected_out"], out_amt, fee, out_amt + fee - in_amt), "step": 0, "case": kv})
                if out_cltv + delta > in_cltv:
                    V.append({"key": "a:fee-cltv-intercept", "judge": "a:fee-cltv",
                              "why": "forward to %s: B received expiry %d and offered expiry %d downstream: less than %d blocks apart" % (what, in_cltv, out_cltv, delta), "step": 0, "case": kv})
            else:
                F["icpt_refused"] += 1
        elif kind == "ONCH":
            F["onch"] += 1
            amt = int(kv["amt"])
            outs = [int(x) for x in kv["outs"].split("/") if x]
            live = (amt // 1000) in outs          # from the CONFIRMED transaction itself
            d = int(kv["failed_at_depth"])
            lo, hi = onchain_dust_band(int(kv.get("feerate", "253")))
            if lo <= amt < hi:
                F["onch_one_sided_dust"] += 1
            if d >= 0:
                F["onch_failed_back"] += 1
                wh = {"0": "B's current commitment", "1": "B's PREVIOUS commitment", "2": "C's commitment"}[kv["which"]]
                if live:
                    V.append({"key": "d:fail-only-when-safe-onchain", "judge": "d:fail-only-when-safe",
                              "why": "%s confirmed with a live %d sat output for the forwarded HTLC (outputs %s); B released update_fail_htlc upstream %d blocks later (restart at depth %s, stale manager %s) although C can still claim that output and no timeout spend exists" % (wh, amt // 1000, kv["outs"], d, kv["restart_depth"], kv["stale_mgr"]), "step": 0, "case": kv})
                elif d < ANTI_REORG_DELAY - 1:
                    V.append({"key": "d:fail-only-when-safe-onchain", "judge": "d:fail-only-when-safe",
                              "why": "%s confirmed without an output for the HTLC; B failed it back with only %d blocks on top" % (wh, d), "step": 0, "case": kv})
        elif kind == "SPLICE":
            F["splice"] += 1
    return V, F
