"""C02 judges on traces of three real nodes (harness/src/bin/h_fwd.rs). Everything here looks only at
what the IMPLEMENTATION did (messages, persister calls with the monitors' own view of the HTLC, blocks,
events, balances); no model is involved.

A trace line is `T <scenario> <step> <KIND> key=value ...`.
"""
import re

ANTI_REORG_DELAY = 6
M = 1000000
# keys of recorded findings (known_findings.json)
F1 = "F1-stale-manager-refails-forwarded-htlc"
F2 = "F2-debug-assert-FreeDuplicateClaimImmediately-in-serialized-queue"
F3 = "F3-debug-assert-found_blocker-duplicate-claim-after-close"


def panic_key(msg):
    """-> key of a recorded finding, None for an artefact of the test signer (see design/C02.md), else 'panic'"""
    if "Non-event-generating_channel_freeing" in msg:
        return F2
    if "assertion_failed:_found_blocker" in msg:
        return F3
    if "can_only_sign_the_next_two_unrevoked_commitment_numbers" in msg:
        # TestChannelSigner keeps its enforcement state in memory across the harness's restart: a
        # revoke_and_ack that was built but withheld (monitor update in flight) and then lost with the crash
        # leaves the signer believing the state revoked. Not a statement about the library.
        return None
    return "panic"


def parse(path):
    """-> {scenario: [ (lineno, step, kind, {k: v}) ]} in file order"""
    scen = {}
    with open(path, errors="replace") as f:
        for ln, line in enumerate(f):
            if not line.startswith("T "):
                continue
            parts = line.rstrip("\n").split(" ")
            if len(parts) < 4:
                continue
            try:
                s, step, kind = int(parts[1]), int(parts[2]), parts[3]
            except ValueError:
                continue
            kv = {}
            if kind == "PARAMS":
                kv["raw"] = " ".join(parts[4:])
                for m in re.finditer(r"(\w+):([\w-]+)", kv["raw"]):
                    kv[m.group(1)] = m.group(2)
            else:
                for p in parts[4:]:
                    if "=" in p:
                        k, v = p.split("=", 1)
                        kv[k] = v
            scen.setdefault(s, []).append((ln, step, kind, kv))
    return scen


class Snap(object):
    __slots__ = ("id", "view", "complete", "pending_id", "line")

    def __init__(self, id_, view, complete, pending_id, line):
        self.id, self.view, self.complete, self.pending_id, self.line = id_, view, complete, pending_id, line


def vo(view):
    return int(view[1])


def vi(view):
    return int(view[3])


def vp(view):
    return int(view[5])


def judge(recs):
    """Returns (violations, facts). violations: list of dicts {judge, why, step}. facts: coverage dict."""
    V = []
    F = {"forwarded": 0, "c_behav": "?", "reloads": 0, "async_persists": 0, "onchain": 0, "fulfil_by_msg": 0,
         "b_checked": 0, "d_checked": 0, "fail_upstream": 0, "fulfil_upstream": 0, "fulfil_during_inflight_U": 0,
         "reload_after_fulfil": 0, "dust": 0, "u_preimage_async": 0, "blocker_exercised": 0, "crash_in_window": 0, "a_result": "?", "learned_onchain": 0, "stuck": 0, "signer_artifact": 0}
    cfg = {}
    funding = {}
    h = None
    bal0 = None
    in_add = None
    out_adds = []
    snaps = {"U": [], "D": [], "?": []}
    d_had_o2 = False
    d_had_o1 = False
    d_forgot = False
    u_pre_pending = None   # id of an in-flight upstream update carrying the preimage
    height = 0
    txs = {}          # txid -> dict(by, locktime, ins[list of 'txid:vout'], outs[list of int])
    confirmed = {}    # txid -> height
    fulfil_recv = False
    # message state machine of the downstream removal-by-fail, from B's point of view
    dfail = 0         # 0 none, 1 fail received, 2 + C's cs received, 3 + C received B's cs, 4 + C's raa received (irrevocable)
    fees_b = 0
    closed_b = set()
    c_got_add = False       # C received B's update_add_htlc ...
    c_committed = False     # ... and a commitment_signed covering it: C holds a commitment with the HTLC
    stale_refail = {"reload": False, "outdated": False, "invalid_forward": False}
    reload_step = None
    startup_close_d = False  # B itself force-closed D while starting up (its manager was older than D's monitor)
    params = {}
    end = None
    for (ln, step, kind, kv) in recs:
        if kind == "PARAMS":
            params = kv
            F["c_behav"] = kv.get("c_behav", "?")
        elif kind == "CHAN":
            cfg[kv["name"]] = (int(kv["prop"]), int(kv["base"]), int(kv["delta"]), int(kv["max_dust"]))
            funding[kv["name"]] = kv.get("funding", "")
        elif kind == "BAL0":
            bal0 = int(kv["sat"])
        elif kind == "PAY":
            h = kv["hash"]
        elif kind == "PANIC":
            msg = kv.get("msg", "?")
            pk = panic_key(msg)
            if pk is None:
                F["signer_artifact"] = 1
                end = {"artifact": "1"}
            else:
                V.append({"key": pk, "judge": "harness/implementation panic", "why": msg[:400], "step": step})
        elif kind == "RELOADFAIL":
            V.append({"judge": "restart", "why": "B could not restart from its durable state: %s %s" % (kv.get("what"), kv.get("err", "")), "step": step})
        elif kind == "STUCK":
            F["stuck"] = 1
            V.append({"judge": "c:claim-whenever-known/liveness", "why": "the forwarded HTLC was not fully resolved after 900 further blocks (%s)" % kv, "step": step})
        elif kind in ("PERSIST", "PERSISTFULL"):
            ch = kv["chan"]
            inprog = kv["ret"] == "P"
            s = Snap(int(kv["id"]), kv.get("view", "o0i0p0"), not inprog, int(kv["id"]) if (inprog and kind == "PERSIST") else None, step)
            snaps.setdefault(ch, []).append(s)
            if kind == "PERSIST" and ch == "D" and "ChannelForceClosed" in kv.get("steps", "") and reload_step == step:
                startup_close_d = True
            if inprog and kind == "PERSIST":
                F["async_persists"] += 1
                if ch == "U" and "PaymentPreimage" in kv.get("steps", ""):
                    F["u_preimage_async"] = 1
                    u_pre_pending = int(kv["id"])
            if ch == "D":
                o = vo(s.view)
                if o == 2:
                    d_had_o2 = True
                if o >= 1:
                    d_had_o1 = True
                if o == 0 and d_had_o2 and not d_forgot:
                    d_forgot = True
                    # (b) the downstream monitor handed to the persister no longer remembers the HTLC
                    # although C fulfilled it: the worst-case durable upstream monitor must know the preimage
                    F["b_checked"] += 1
                    su = newest_complete(snaps["U"])
                    if su is not None and vi(su.view) == 1 and vp(su.view) == 0:
                        V.append({"judge": "b:preimage-before-forget",
                                  "why": "monitor update %s of the downstream channel (steps %s) makes the fulfilled HTLC unrecoverable from that monitor while the newest upstream monitor version reported durable (update %d, view %s) still carries the inbound HTLC without the preimage: a crash now loses the payment" % (kv["id"], kv.get("steps", "full"), su.id, su.view),
                                  "step": step})
        elif kind == "COMPLETE":
            if kv["chan"] == "U" and u_pre_pending == int(kv["id"]):
                u_pre_pending = None
            for s in snaps.get(kv["chan"], []):
                if s.pending_id == int(kv["id"]):
                    s.complete = True
        elif kind == "RELOAD":
            F["reloads"] += 1
            stale_refail["reload"] = True
            reload_step = step
            if fulfil_recv:
                F["reload_after_fulfil"] += 1
            if u_pre_pending is not None:
                F["crash_in_window"] = 1
            u_pre_pending = None
            chosen = {}
            for k, v in kv.items():
                m = re.match(r"mon([UD?])$", k)
                if m:
                    mm = re.match(r"(\d+)/(\d+)@(\d+)", v)
                    drop = int(mm.group(2)) - int(mm.group(1))
                    lst = snaps.get(m.group(1), [])
                    if drop > 0:
                        del lst[max(0, len(lst) - drop):]
                    if lst:
                        lst[-1].complete = True
                        chosen[m.group(1)] = lst[-1]
            # the materialised crash: what is on disk now
            if "U" in chosen and "D" in chosen and d_had_o2:
                su, sd = chosen["U"], chosen["D"]
                if vo(sd.view) == 0 and vi(su.view) == 1 and vp(su.view) == 0:
                    V.append({"judge": "b:preimage-before-forget",
                              "why": "B restarted from a downstream monitor that has forgotten the fulfilled HTLC and an upstream monitor (view %s) without the preimage" % su.view, "step": step})
            dfail = 0 if dfail < 4 else 4
        elif kind == "BLOCK":
            height = int(kv["height"])
            for t in [x for x in kv.get("txs", "").split(",") if x]:
                txid, by, lt, fee = t.split("/")
                confirmed[txid] = height
                info = txs.get(txid, {"ins": []})
                spends_funding = any(i in funding.values() for i in info["ins"])
                if spends_funding:
                    F["onchain"] = 1
                if by == "B" and not spends_funding:
                    fees_b += int(fee)
        elif kind == "BCAST":
            txs[kv["txid"]] = {"by": kv["by"], "locktime": int(kv["locktime"]), "ins": kv["ins"].split(","),
                               "outs": [int(x) for x in kv["outs"].split(",") if x]}
        elif kind == "DISC":
            if kv["link"] in ("BC", "CB") and dfail in (1,):
                dfail = 0
        elif kind in ("SEND", "DROP", "RECV"):
            link, ty = kv["link"], kv["type"]
            if kind == "RECV" and link == "AB" and ty == "add" and kv["hash"] == h:
                in_add = (int(kv["amt"]), int(kv["cltv"]))
            if kind in ("SEND", "DROP") and link == "BC" and ty == "add" and kv["hash"] == h:
                out = (int(kv["amt"]), int(kv["cltv"]))
                out_adds.append(out)
                F["forwarded"] = 1
                # (a) fee / CLTV on the real messages
                if in_add is None:
                    V.append({"judge": "a:fee-cltv", "why": "B offered an HTLC downstream it never received upstream", "step": step})
                else:
                    prop, base, delta, _ = cfg["D"]
                    fee = out[0] * prop // M + base
                    if out[0] + fee > in_add[0]:
                        V.append({"judge": "a:fee-cltv", "why": "B received %d msat and offers %d msat downstream: advertised fee on that is %d (prop %d, base %d), %d msat short" % (in_add[0], out[0], fee, prop, base, out[0] + fee - in_add[0]), "step": step})
                    if out[1] + delta > in_add[1]:
                        V.append({"judge": "a:fee-cltv", "why": "B received expiry %d and offers expiry %d downstream: advertised cltv_expiry_delta is %d" % (in_add[1], out[1], delta), "step": step})
            if kind == "RECV" and link == "CB":
                if ty == "fulfill":
                    if not fulfil_recv:
                        F["fulfil_by_msg"] = 1
                        if any((not s.complete) for s in snaps["U"]):
                            F["fulfil_during_inflight_U"] = 1
                    fulfil_recv = True
                elif ty == "fail" or ty == "malformed":
                    dfail = 1
                elif ty == "cs" and dfail == 1:
                    dfail = 2
                elif ty == "raa" and dfail == 3:
                    dfail = 4
                if ty == "raa" and fulfil_recv and u_pre_pending is not None:
                    F["blocker_exercised"] = 1
            if kind == "RECV" and link == "BC" and ty == "cs" and dfail == 2:
                dfail = 3
            if kind == "RECV" and link == "BC" and ty == "add" and kv.get("hash") == h:
                c_got_add = True
            if kind == "RECV" and link == "BC" and ty == "cs" and c_got_add:
                c_committed = True
            if kind in ("SEND", "DROP") and link == "BA" and ty == "fulfill":
                F["fulfil_upstream"] = 1
            if kind in ("SEND", "DROP") and link == "BA" and ty in ("fail", "malformed"):
                F["fail_upstream"] = 1
                F["d_checked"] += 1
                # (d) fail-only-when-safe
                ok = None
                if not out_adds:
                    ok = "never offered downstream"
                elif not c_committed:
                    ok = "C never received a commitment carrying the HTLC"
                elif dfail == 4:
                    ok = "downstream failure irrevocable (C's revoke_and_ack received)"
                else:
                    sd = snaps["D"][-1] if snaps["D"] else None
                    if sd is not None and vo(sd.view) == 0 and d_had_o1 and not d_had_o2 and confirmed_commitment(funding.get("D"), txs, confirmed) is None:
                        ok = "C's current and previous commitments no longer carry the HTLC"
                    else:
                        ok = onchain_timeout_safe(funding.get("D"), txs, confirmed, out_adds[-1], height)
                if ok is None:
                    f1 = (all(stale_refail.values()) or startup_close_d) and dfail < 4
                    V.append({"key": F1 if f1 else "d:fail-only-when-safe", "judge": "d:fail-only-when-safe",
                              "why": "B fails the HTLC back to A at height %d while the downstream HTLC (amt %d, expiry %d) is neither irrevocably failed by C nor timed out on chain %d blocks deep (downstream fail progress %d/4)" % (height, out_adds[-1][0], out_adds[-1][1], ANTI_REORG_DELAY, dfail),
                              "step": step})
        elif kind == "EVENT":
            if kv.get("node") == "B" and kv.get("name") == "ChannelClosed":
                closed_b.add(kv.get("chan"))
                if kv.get("chan") == "D" and kv.get("reason") == "OutdatedChannelManager":
                    stale_refail["outdated"] = True
            if kv.get("node") == "B" and kv.get("name") == "HTLCHandlingFailed" and kv.get("type") == "InvalidForward" and stale_refail["outdated"]:
                stale_refail["invalid_forward"] = True
            if kv.get("node") == "B" and kv.get("name") == "PaymentForwarded" and kv.get("onchain") == "true":
                F["learned_onchain"] = 1
        elif kind == "END":
            end = kv
    # (c)/(e) ledger after full resolution
    if end is not None and "bal" in end and bal0 is not None and not F["stuck"]:
        F["a_result"] = end.get("a_result", "?")
        total = int(end["bal"]) + int(end["swept"]) + fees_b
        tol = 2 + 2 * len(closed_b)
        dust_tol = 0
        if in_add is not None and in_add[0] < 1000 * 700:
            F["dust"] = 1
            if closed_b or F["onchain"]:
                dust_tol = in_add[0] // 1000 + 1
            if "D" in cfg and in_add[0] > cfg["D"][3]:
                V.append({"judge": "e:dust-exposure", "why": "a dust HTLC of %d msat was accepted above max_dust_htlc_exposure %d" % (in_add[0], cfg["D"][3]), "step": 0})
        if total + tol + dust_tol < bal0:
            f1 = any(v.get("key") == F1 for v in V)
            V.append({"key": F1 if f1 else "e:ledger", "judge": "e:ledger/c:claim-whenever-known",
                      "why": "B's claimable balances after full resolution (%d sat in channels + %d sat swept + %d sat own HTLC-transaction fees) are below the %d sat before the forward by %d sat (tolerance %d rounding + %d dust)%s" % (
                          int(end["bal"]), int(end["swept"]), fees_b, bal0, bal0 - total, tol, dust_tol,
                          "; B had learned the preimage from C" if (fulfil_recv or F["learned_onchain"]) else ""),
                      "step": 0, "detail": end.get("detail", "")})
    elif end is None and not any(v["judge"].startswith("harness") for v in V):
        V.append({"judge": "harness", "why": "scenario produced no END record", "step": 0})
    for v in V:
        v.setdefault("key", v["judge"])
    return V, F


def newest_complete(lst):
    for s in reversed(lst):
        if s.complete:
            return s
    return lst[0] if lst else None


def confirmed_commitment(fund, txs, confirmed):
    if not fund:
        return None
    for txid, hgt in confirmed.items():
        info = txs.get(txid)
        if info and fund in info["ins"]:
            return txid
    return None


def onchain_timeout_safe(fund, txs, confirmed, out, height):
    """B may fail upstream once the downstream commitment is confirmed and either carries no output for the
    HTLC and is ANTI_REORG_DELAY deep, or B's own timeout claim of that output is ANTI_REORG_DELAY deep."""
    ctx = confirmed_commitment(fund, txs, confirmed)
    if ctx is None:
        return None
    out_sat = out[0] // 1000
    outs = txs[ctx]["outs"]
    if out_sat not in outs:
        if height >= confirmed[ctx] + ANTI_REORG_DELAY - 1:
            return "downstream commitment without an output for the HTLC is buried"
        return None
    for txid, hgt in confirmed.items():
        info = txs.get(txid)
        if not info or info["by"] != "B":
            continue
        if any(i.startswith(ctx + ":") for i in info["ins"]) and info["locktime"] == out[1]:
            if height >= hgt + ANTI_REORG_DELAY - 1:
                return "B's timeout claim is buried"
    # second-stage: B's own commitment -> HTLC-timeout tx (locktime = expiry) spends the commitment
    return None
