"""Trace correspondence between real three-node traces (h_fwd) and the abstract model coq/Model/Fwd.v.

`to_labels(recs)` maps the records of one scenario to a list of model labels plus a list of checks
`(index, field, expected)`: after the label at `index` the model's observable `field` must equal
`expected` (what the implementation did in that scheduler step). The mapping follows the trace up to
the first restart or on-chain event of the scenario; the restart itself is mapped to `LCrash` with the
durable versions the harness chose, and the model must ADMIT that crash outcome (its `landed*`
functions must be able to produce exactly what was found on disk).

The Python side keeps only the downstream phase needed to tell which commitment_signed /
revoke_and_ack of the link is which; every prediction that is compared comes from Coq.
"""
import re

OBS_FIELDS = ["up", "down", "uPre", "dClaimed", "dForget", "blk0", "paid", "failed", "tmo", "admU", "admC", "admF"]
UP = {"UCommitted": 0, "UClaimInFlight": 1, "UClaimed": 2, "UFailed": 3}
DF = {"FNot": 0, "FHeld": 1, "FInFlight": 2, "FComplete": 3}

PRELUDE = """
Import ListNotations.
Open Scope Z_scope.
Definition cu (u : upst) : Z := match u with UCommitted => 0 | UClaimInFlight => 1 | UClaimed => 2 | UFailed => 3 end.
Definition cd (d : downst) : Z :=
  match d with DNone => 0 | DOffered => 1 | DFulfilRecv => 2 | DFulfilCommitted => 3 | DFulfilRevoked => 4
  | DFailRecv => 5 | DFailCommitted => 6 | DFailRevoked => 7 | DOnChain => 8 | DChainClaimed => 9 | DChainTimedOut => 10 end.
Definition cs (p : ust) : Z := match p with NotIssued => 0 | InFlight => 1 | Complete => 2 end.
Definition cf (f : fst_) : Z := match f with FNot => 0 | FHeld => 1 | FInFlight => 2 | FComplete => 3 end.
Definition b2z (b : bool) : Z := if b then 1 else 0.
(* can the model's crash produce a disk with / without the update?  2 = either, 1 = only with, 0 = only without *)
Definition adm (always never : bool) : Z := if always then 1 else if never then 0 else 2.
Definition obs (s : sys) : list Z :=
  let x := m s in
  [cu (up x); cd (down x); cs (uPre x); cs (dClaimed x); cf (dForget x);
   b2z (match blockers x with O => true | _ => false end);
   b2z (c_paid (g s)); b2z (c_failed (g s)); b2z (timeout_buried (g s));
   adm (landedU x false) (negb (landedU x true));
   adm (landedC x false false) (negb (landedC x true true));
   adm (landedF x false) (negb (landedF x true))].
Fixpoint trace_obs (s : sys) (ls : list label) : list (list Z) :=
  match ls with
  | [] => []
  | l :: t => let s' := step s l in obs s' :: trace_obs s' t
  end.
"""
IMPORTS = ["Coq.ZArith.ZArith", "Coq.Lists.List", "LdkV.Model.Fwd"]


def by_step(recs):
    groups = []
    cur, cur_step = [], None
    for r in recs:
        if cur_step is None or r[1] != cur_step:
            if cur:
                groups.append(cur)
            cur, cur_step = [], r[1]
        cur.append(r)
    if cur:
        groups.append(cur)
    return groups


def bl(b):
    return "true" if b else "false"


def to_labels(recs):
    labels = []
    checks = []
    d = "DNone"
    pend = {"U": set(), "D": set()}
    u_pre_inflight = False
    claimed_inflight = False
    forget_inflight = False
    held = False
    dup_blocked = False
    d_had_o2 = False
    last_view = {"U": "o0i0p0", "D": "o0i0p0"}
    views = {"U": [], "D": []}
    funding = set()
    h = None
    stop = None
    info = {"mapped_labels": 0, "stop": "end", "crash_mapped": 0, "window_checks": 0}

    def emit(l):
        labels.append(l)
        return len(labels) - 1

    started = False
    for g in by_step(recs):
        if stop:
            break
        kinds = [r[2] for r in g]
        for r in g:
            if r[2] == "CHAN":
                funding.add(r[3].get("funding", ""))
            if r[2] == "PAY":
                h = r[3]["hash"]
                started = True
        if not started:
            continue
        # what the persisters saw in this step
        u_pre = None      # ret of a U persist carrying the preimage
        d_claimed = None  # ret of a D persist carrying claimed_htlcs
        d_secret = None   # ret of a D persist carrying a CommitmentSecret that forgets the HTLC
        for r in g:
            if r[2] == "RELOAD":
                break   # what is persisted after the restart is not part of the pre-crash state
            if r[2] in ("PERSIST", "PERSISTFULL"):
                ch = r[3]["chan"]
                if ch in last_view:
                    v = r[3].get("view", last_view[ch])
                    if r[2] == "PERSIST":
                        st = r[3].get("steps", "")
                        if ch == "U" and "PaymentPreimage" in st:
                            u_pre = r[3]["ret"]
                        if ch == "D" and re.search(r"claimed=[0-9a-f]", st):
                            d_claimed = r[3]["ret"]
                        if ch == "D" and "CommitmentSecret" in st and v[1] == "0" and d_had_o2:
                            d_secret = r[3]["ret"]
                        if ch == "D" and "ChannelForceClosed" in st:
                            stop = "downstream force-closed"
                        if ch == "U" and "ChannelForceClosed" in st:
                            stop = "upstream force-closed"
                    if ch == "D" and v[1] == "2":
                        d_had_o2 = True
                    last_view[ch] = v
                    views[ch].append(v)
        if stop:
            break
        for r in g:
            kind, kv = r[2], r[3]
            if kind in ("AFC",) or (kind == "CACT" and kv.get("what") in ("claim_onchain", "silent")):
                stop = kind + ":" + kv.get("what", "")
                break
            if kind == "BLOCK" and kv.get("txs"):
                stop = "on-chain transaction"
                break
            if kind == "PERSIST" and kv["chan"] in pend and kv["ret"] == "P":
                pend[kv["chan"]].add(int(kv["id"]))   # in trace order: a completion may precede it in the same step
            if kind == "MGRPERSIST":
                emit("LPersistMgr")
            elif kind in ("SEND", "DROP") and kv["link"] == "BC" and kv["type"] == "add" and kv.get("hash") == h:
                if d == "DNone":
                    emit("LForward")
                    d = "DOffered"
            elif kind in ("SEND", "DROP") and kv["link"] == "BA" and kv["type"] in ("fail", "malformed"):
                if labels and d != "DNone":
                    checks.append((len(labels) - 1, "up", UP["UFailed"], "B released update_fail_htlc upstream"))
                # d == DNone: refused before anything was offered downstream (admission, peer offline):
                # outside the model, judged by fwdjudge (d) "never offered downstream"
            elif kind in ("SEND", "DROP") and kv["link"] == "BA" and kv["type"] == "fulfill":
                if labels:
                    checks.append((len(labels) - 1, "claimish", 1, "B sent update_fulfill_htlc upstream"))
            elif kind == "RECV" and kv["link"] == "CB":
                ty = kv["type"]
                if ty == "fulfill":
                    if d in ("DOffered", "DFulfilRecv"):
                        sync = (u_pre != "P")
                        i = emit("LFulfil %s" % bl(sync))
                        d = "DFulfilRecv"
                        if u_pre is not None:
                            checks.append((i, "uPre", 2 if u_pre == "C" else 1, "preimage update handed to U's persister (%s)" % u_pre))
                            u_pre_inflight = (u_pre == "P")
                        elif pend["U"] and not u_pre_inflight:
                            # duplicate claim of an already durable preimage while other upstream updates are in
                            # flight: its blocker waits for them
                            emit("LDupBlocker")
                            dup_blocked = True
                    else:
                        stop = "fulfil in phase %s" % d
                        break
                elif ty in ("fail", "malformed"):
                    if d == "DOffered":
                        emit("LFailMsg")
                        d = "DFailRecv"
                    else:
                        stop = "fail in phase %s" % d
                        break
                elif ty == "cs":
                    if d == "DFulfilRecv":
                        if d_claimed is None:
                            stop = "no claimed_htlcs update with C's commitment_signed"
                            break
                        i = emit("LCommitFulfil %s" % bl(d_claimed == "C"))
                        d = "DFulfilCommitted"
                        claimed_inflight = (d_claimed == "P")
                        checks.append((i, "dClaimed", 2 if d_claimed == "C" else 1, "holder-commitment update with the claimed preimage (%s)" % d_claimed))
                    elif d == "DFailRecv":
                        emit("LCommitFail")
                        d = "DFailCommitted"
                elif ty == "raa":
                    if d == "DFulfilCommitted":
                        if claimed_inflight:
                            stop = "C's revoke_and_ack while the claimed_htlcs update is in flight"
                            break
                        i = emit("LRaaFulfil %s" % bl(d_secret != "P"))
                        d = "DFulfilRevoked"
                        info["window_checks"] += 1
                        if d_secret is None:
                            held = True
                            checks.append((i, "dForget", DF["FHeld"], "no RAA-carrying update reached D's persister: it is held"))
                        else:
                            forget_inflight = (d_secret == "P")
                            checks.append((i, "dForget", DF["FInFlight"] if d_secret == "P" else DF["FComplete"], "RAA-carrying update handed to D's persister (%s)" % d_secret))
                    elif d == "DFailCommitted":
                        emit("LRaaFail")
                        d = "DFailRevoked"
            elif kind == "COMPLETE":
                ch = kv["chan"]
                if ch in pend:
                    pend[ch].discard(int(kv["id"]))
                    if ch == "U" and not pend["U"] and dup_blocked and not u_pre_inflight:
                        i = emit("LFreeDup")
                        dup_blocked = False
                        if held:
                            rel = None
                            for r2 in g:
                                if r2[2] == "PERSIST" and r2[3]["chan"] == "D" and "CommitmentSecret" in r2[3].get("steps", ""):
                                    rel = r2[3]["ret"]
                            if rel is None:
                                checks.append((i, "dForget", DF["FHeld"], "held update not released in this step"))
                            else:
                                held = False
                                forget_inflight = (rel == "P")
                                checks.append((i, "dForget", DF["FInFlight"], "held update released to D's persister"))
                                if rel == "C":
                                    emit("LCompleteForget")
                    if ch == "U" and not pend["U"] and u_pre_inflight:
                        i = emit("LCompleteU")
                        u_pre_inflight = False
                        dup_blocked = False
                        checks.append((i, "uPre", 2, "all upstream updates reported complete"))
                        if held:
                            # the release must show up at D's persister in this very step
                            rel = None
                            for r2 in g:
                                if r2[2] == "PERSIST" and r2[3]["chan"] == "D" and "CommitmentSecret" in r2[3].get("steps", ""):
                                    rel = r2[3]["ret"]
                            if rel is None:
                                checks.append((i, "dForget", DF["FHeld"], "held update not released in this step"))
                            else:
                                held = False
                                forget_inflight = (rel == "P")
                                checks.append((i, "dForget", DF["FInFlight"], "held update released to D's persister"))
                                if rel == "C":
                                    emit("LCompleteForget")
                    if ch == "D" and not pend["D"]:
                        if claimed_inflight:
                            emit("LCompleteClaimed")
                            claimed_inflight = False
                        if forget_inflight:
                            emit("LCompleteForget")
                            forget_inflight = False
            elif kind == "DISC" and kv["link"] in ("BC", "CB"):
                if d in ("DFulfilRecv", "DFailRecv"):
                    emit("LDiscD")
                    d = "DOffered"
            elif kind == "RELOAD":
                # what the harness left on disk: per monitor the chosen snapshot (the newest `hi - pick`
                # ones never landed)
                chosen = {}
                for k, v in kv.items():
                    mm = re.match(r"mon([UD])$", k)
                    if mm:
                        m2 = re.match(r"(\d+)/(\d+)@(\d+)", v)
                        drop = int(m2.group(2)) - int(m2.group(1))
                        lst = views[mm.group(1)]
                        if drop < len(lst):
                            kept = lst[:len(lst) - drop]
                            chosen[mm.group(1)] = (kept[-1], any(x[1] == "2" for x in kept))
                if "U" in chosen and "D" in chosen and labels:
                    vu, _ = chosen["U"]
                    vd, had2 = chosen["D"]
                    eU = vu[5] == "1"
                    eF = (vd[1] == "0" and had2)
                    eC = (vd[1] == "2") or eF
                    pre = len(labels) - 1
                    checks.append((pre, "admU", eU, "upstream monitor on disk %s the preimage" % ("has" if eU else "lacks")))
                    checks.append((pre, "admC", eC, "downstream monitor on disk %s the claimed preimage" % ("has" if eC else "lacks")))
                    checks.append((pre, "admF", eF, "downstream monitor on disk %s forgotten the HTLC" % ("has" if eF else "has not")))
                    i = emit("LCrash %s %s %s" % (bl(eU), bl(eC), bl(eF)))
                    replay = any(r2[2] == "PERSIST" and r2[3]["chan"] == "U" and "PaymentPreimage" in r2[3].get("steps", "") for r2 in g)
                    aborted = any(r2[2] in ("PANIC", "RELOADFAIL") for r2 in g)
                    if not aborted:
                      checks.append((i, "claimed_after_restart", 1 if (eU or replay) else 0,
                                   "after the restart the preimage is %s upstream (on disk: %s, replayed at startup: %s)" % ("secured/in flight" if (eU or replay) else "unknown", eU, replay)))
                    info["crash_mapped"] = 1
                stop = "restart"
                break
    info["mapped_labels"] = len(labels)
    info["stop"] = stop or "end"
    return labels, checks, info


def coq_expr(labels):
    return "trace_obs init [%s]" % "; ".join(labels)


def compare(obs_list, checks):
    """obs_list: list of lists of ints (one per label). Returns list of mismatch dicts."""
    bad = []
    for (i, field, exp, why) in checks:
        if i >= len(obs_list):
            bad.append({"at": i, "field": field, "why": "model produced no observation"})
            continue
        o = dict(zip(OBS_FIELDS, obs_list[i]))
        if field == "claimish":
            got = 1 if o["up"] in (1, 2) else 0
        elif field == "claimed_after_restart":
            got = 1 if o["uPre"] in (1, 2) else 0
        elif field in ("admU", "admC", "admF"):
            # 2 = the model's crash may or may not have it on disk, 1 = always, 0 = never
            if o[field] == 2 or o[field] == (1 if exp else 0):
                continue
            bad.append({"at_label": i, "field": field, "model_admits": o[field], "implementation": exp, "observed": why})
            continue
        else:
            got = o[field]
        if got != exp:
            bad.append({"at_label": i, "field": field, "model": got, "implementation": exp, "observed": why})
    return bad
